#!/bin/sh
# Build the framework from files on disk only (offline): Lean model, theorems, driver; Rust harness.
set -e
cd /verif/lean && lake build
mkdir -p /verif/.build
cd /verif/harness && cp /repo/Cargo.lock Cargo.lock && CARGO_NET_OFFLINE=true CARGO_TARGET_DIR=/verif/.build/harness cargo build --offline && CARGO_NET_OFFLINE=true CARGO_TARGET_DIR=/verif/.build/harness cargo build --offline --release
