/-
  GriddleModel.Iter — the iterator structs of `/repo/src/raw/mod.rs` as explicit step machines.

  `Map.iter` / `Map.drain` / `Map.intoIter` describe a whole traversal at once.  C08 also speaks about
  every single step: "at every step `len()` / `size_hint()` is the exact number still to come, `None`
  is returned forever after exhaustion".  Here `RawIter`, `RawIntoIter` and `RawDrain` are state
  machines with the fields the Rust structs have and one function per method:

    * `HIt`  — hashbrown's `RawIter` over ONE table: the elements it has still to reach (in its own
               order) and its `items` counter.  The counter, not the table, decides when it stops
               (`if self.items == 0 { return None }`), and `next` with a counter that exceeds what is
               left reads past the table: `Fault.ub`.  griddle's cached move cursor `OldTable::items`
               is exactly such an iterator, which is why cursor agreement (I2) matters.
    * `RIt`  — griddle's `RawIter { table, leftovers }`: main table first, then the old table
               (`self.table.next().or_else(|| leftovers.as_mut()?.next())`); `size_hint` adds both.
    * `DIt`  — `RawIntoIter` / `RawDrain { table, leftovers }`: old table first; when it is exhausted
               the iterator over it is dropped (`self.leftovers.take()`), then the main table.

  Core Lean only (the protocol driver links this file).
-/
import GriddleModel.Map
namespace Griddle.It

/-- hashbrown's by-reference / by-value iterator over one table -/
structure HIt where
  /-- what it would still reach, in its order -/
  rest : List Entry
  /-- its `items` counter -/
  items : Nat
  deriving Repr

/-- `RawIter::next` (hashbrown): stops on `items == 0`; otherwise takes the next full bucket — which must exist -/
def HIt.next (i : HIt) : Except Fault (Option Entry × HIt) :=
  if i.items = 0 then .ok (none, i)
  else match i.rest with
    | [] => .error (.ub "RawIter::next: items counter exceeds the elements left in the table")
    | e :: r => .ok (some e, { rest := r, items := i.items - 1 })

def HIt.sizeHint (i : HIt) : Nat × Option Nat := (i.items, some i.items)

/-- an iterator created by hashbrown's own `iter()` / `into_iter()`: the counter is the table's `items` -/
def HIt.fresh (es : List Entry) : HIt := { rest := es, items := es.length }

/-- griddle's `RawIter` -/
structure RIt where
  table : HIt
  leftovers : Option HIt
  deriving Repr

/-- `RawIter::next`: the flag is `Bucket::in_main` -/
def RIt.next (i : RIt) : Except Fault (Option (Entry × Bool) × RIt) :=
  match i.table.next with
  | .error f => .error f
  | .ok (some e, t') => .ok (some (e, true), { i with table := t' })
  | .ok (none, t') =>
    match i.leftovers with
    | none => .ok (none, { i with table := t' })
    | some lo =>
      match lo.next with
      | .error f => .error f
      | .ok (some e, lo') => .ok (some (e, false), { table := t', leftovers := some lo' })
      | .ok (none, lo') => .ok (none, { table := t', leftovers := some lo' })

/-- `RawIter::size_hint` -/
def RIt.sizeHint (i : RIt) : Nat × Option Nat :=
  match i.leftovers with
  | none => i.table.sizeHint
  | some lo => (i.table.items + lo.items, some (i.table.items + lo.items))

/-- `RawTable::iter()`: a fresh iterator over the main table (which visits it in `mainOrder`) and a CLONE of the
    cached old-table cursor (`lo.items.clone()`): the old table's elements in cursor order, with the cursor's count -/
def RIt.ofMap (m : Map) (mainOrder : List Entry) : RIt :=
  { table := HIt.fresh mainOrder,
    leftovers := m.lo.map (fun o => { rest := o.ents, items := o.cursor }) }

/-- `RawIntoIter` / `RawDrain` -/
structure DIt where
  table : HIt
  leftovers : Option HIt
  deriving Repr

/-- `RawIntoIter::next` / `RawDrain::next` -/
def DIt.next (i : DIt) : Except Fault (Option Entry × DIt) :=
  match i.leftovers with
  | some lo =>
    (match lo.next with
     | .error f => .error f
     | .ok (some e, lo') => .ok (some e, { i with leftovers := some lo' })
     | .ok (none, _) =>
       -- done with leftovers: `let _ = self.leftovers.take();`
       match i.table.next with
       | .error f => .error f
       | .ok (r, t') => .ok (r, { table := t', leftovers := none }))
  | none =>
    match i.table.next with
    | .error f => .error f
    | .ok (r, t') => .ok (r, { i with table := t' })

/-- `size_hint` of both (through `self.iter()` for `RawIntoIter`) -/
def DIt.sizeHint (i : DIt) : Nat × Option Nat :=
  match i.leftovers with
  | none => i.table.sizeHint
  | some lo => (i.table.items + lo.items, some (i.table.items + lo.items))

/-- `RawTable::drain()` / `into_iter()`: the old table is consumed through `into_iter_from(lo.items)` — the
    cached cursor itself —, the main table through its own `drain()` / `into_iter()` -/
def DIt.ofMap (m : Map) (mainOrder : List Entry) : DIt :=
  { table := HIt.fresh mainOrder,
    leftovers := m.lo.map (fun o => { rest := o.ents, items := o.cursor }) }

/-- `size_hint().0` before every call of `next`, and what the calls returned: the iterator is pulled `n` times -/
def RIt.run : Nat → RIt → Except Fault (List (Nat × Option Nat) × List (Entry × Bool) × RIt)
  | 0, i => .ok ([], [], i)
  | n + 1, i =>
    match i.next with
    | .error f => .error f
    | .ok (none, i') =>
      (match RIt.run n i' with
       | .error f => .error f
       | .ok (hs, ys, j) => .ok (i.sizeHint :: hs, ys, j))
    | .ok (some y, i') =>
      (match RIt.run n i' with
       | .error f => .error f
       | .ok (hs, ys, j) => .ok (i.sizeHint :: hs, y :: ys, j))

def DIt.run : Nat → DIt → Except Fault (List (Nat × Option Nat) × List Entry × DIt)
  | 0, i => .ok ([], [], i)
  | n + 1, i =>
    match i.next with
    | .error f => .error f
    | .ok (none, i') =>
      (match DIt.run n i' with
       | .error f => .error f
       | .ok (hs, ys, j) => .ok (i.sizeHint :: hs, ys, j))
    | .ok (some y, i') =>
      (match DIt.run n i' with
       | .error f => .error f
       | .ok (hs, ys, j) => .ok (i.sizeHint :: hs, y :: ys, j))

/-- the main table's elements in the order the oracle says its iterator visits them -/
def mainInOrder (m : Map) (keys : List Nat) : List Entry := keys.filterMap (fun k => m.main.find? k)

end Griddle.It
