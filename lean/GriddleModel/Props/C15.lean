/-
  C15 — Rayon traversal equals sequential traversal under every schedule.   (PARTIAL: logic only)

  For EVERY split tree (= every way rayon may split and steal), every range:
  the pieces are a partition of the range's elements — concatenated left to right they are
  exactly the sequential sequence, so each element is visited exactly once and handed to exactly
  one worker; griddle's `RawParIter` over main ⊎ old table therefore visits exactly the elements
  the sequential iterator does; `helpers::collect` rebuilds the input sequence for every
  schedule (so `par_extend` / `from_par_iter` = sequential `extend`); predicates evaluated with
  `all` over the pieces (`par_eq`, `par_is_subset`, `par_is_disjoint`) equal the sequential ones.
  Data races and atomicity of real threads are outside a functional model: they are covered by
  running real rayon pools (1, 2, 3, 4, 8, 16 threads, repeated) with per-element visit counters.
-/
import GriddleModel.Par
namespace Griddle.C15
open Par

theorem split_items {α : Type} (r : Range α) :
    (r.split.1.items ++ (match r.split.2 with | some b => b.items | none => [])) = r.items := by
  unfold Range.split
  cases hr : r.rest with
  | nil => simp [Range.items, hr]
  | cons g0 gs0 =>
    dsimp only
    cases hd : (g0 :: gs0).drop ((g0 :: gs0).length / 2) with
    | nil => simp [Range.items, hr]
    | cons g gs =>
      have := List.take_append_drop ((g0 :: gs0).length / 2) (g0 :: gs0)
      rw [hd] at this
      have h1 : (g0 :: gs0).flatten = ((g0 :: gs0).take ((g0 :: gs0).length / 2)).flatten ++ (g :: gs).flatten := by
        rw [← List.flatten_append, this]
      show (r.cur ++ ((g0 :: gs0).take ((g0 :: gs0).length / 2)).flatten) ++ (g ++ gs.flatten) = r.cur ++ r.rest.flatten
      rw [hr, h1, List.flatten_cons, List.append_assoc]

/-- a split never loses the tail: `None` only when nothing was handed over -/
theorem split_none {α : Type} (r : Range α) (h : r.split.2 = none) : r.split.1 = r := by
  unfold Range.split at *
  cases hr : r.rest with
  | nil => simp [hr]
  | cons g0 gs0 =>
    rw [hr] at h
    dsimp only at h ⊢
    cases hd : (g0 :: gs0).drop ((g0 :: gs0).length / 2) with
    | nil => simp [hd]
    | cons g gs => rw [hd] at h; cases h

/-- **Every schedule partitions the range**: the pieces, concatenated, are exactly the range's
    elements in sequential order. -/
theorem pieces_partition {α : Type} : ∀ (t : SplitTree) (r : Range α), (pieces t r).flatten = r.items := by
  intro t
  induction t with
  | leaf => intro r; simp [pieces]
  | node l r' ihl ihr =>
    intro rg
    unfold pieces
    have hs := split_items rg
    cases h2 : rg.split.2 with
    | none =>
      have h1 := split_none rg h2
      have : rg.split = (rg.split.1, none) := by rw [← h2]
      rw [this]; dsimp only
      rw [ihl, h1]
    | some b =>
      have : rg.split = (rg.split.1, some b) := by rw [← h2]
      rw [this]; dsimp only
      rw [List.flatten_append, ihl, ihr]
      rw [h2] at hs; exact hs

/-- each element is handed to exactly one worker, once: the total count over all pieces is the
    sequential count, for every element -/
theorem visited_exactly_once {α : Type} [DecidableEq α] (t : SplitTree) (r : Range α) (x : α) :
    ((pieces t r).map (fun p => p.count x)).sum = r.items.count x := by
  rw [← pieces_partition t r, List.count_flatten]

/-- griddle's parallel iterator over both tables visits exactly the sequential elements -/
theorem par_iter_partition {α : Type} (t1 t2 : SplitTree) (main : Range α) (old : Option (Range α)) :
    (parPieces t1 t2 main old).flatten =
      main.items ++ (match old with | some o => o.items | none => []) := by
  unfold parPieces
  cases old with
  | none => simp [pieces_partition]
  | some o => simp [List.flatten_append, pieces_partition]

/-- `helpers::collect` returns the input sequence for every schedule -/
theorem collect_order {α : Type} (t : SplitTree) (r : Range α) : collect t r = r.items :=
  pieces_partition t r

/-- a predicate checked with `all` piece by piece (`par_eq`, `par_is_subset`, `par_is_disjoint`)
    equals the sequential check -/
theorem par_all {α : Type} (t : SplitTree) (r : Range α) (p : α → Bool) :
    (pieces t r).all (fun piece => piece.all p) = r.items.all p := by
  rw [← pieces_partition t r, List.all_flatten]

/-- non-vacuity: an unbalanced schedule on a 5-group range -/
example : pieces (.node (.node .leaf .leaf) (.node .leaf (.node .leaf .leaf)))
    ({ cur := [1], rest := [[2, 3], [], [4], [5, 6]] } : Range Nat) = [[1, 2, 3], [], [4], [5, 6]] := by decide

end Griddle.C15
