/-
  C01 (continued) — `extend` / `from_iter` (`Map.extend`): the hinted `reserve`, then one `insert` per pair.

    * `extend_refines` — from any state with the invariant, for any stream of pairs (duplicate keys, keys already
      present, in any resize phase) and any oracle: either the documented capacity-overflow panic / OOM abort of a
      growth, or the invariant holds again and the contents are those of the reference map fed the same pairs in
      order (a later pair overrides an earlier one; an overwritten key keeps its first key OBJECT, as
      `HashMap::insert` documents);
    * (in `extend_refines`) every object is conserved: stored ⊎ dropped afterwards = stored before ⊎ passed in;
      nothing is handed back by `extend`;
    * `extend_small` — the size invariant `Small` is preserved, so `extend` may be added to the histories of
      `run_refines_unconditional`.
-/
import GriddleModel.Lemmas.MapOps
import GriddleModel.Lemmas.Steps
import GriddleModel.Lemmas.Small2
import GriddleModel.Lemmas.EntryLedger
namespace Griddle.C01

/-- the reference map's `extend`: one `insert` per pair, in order -/
def specExtend (a : Nat → Option Entry) : List Entry → Nat → Option Entry
  | [] => a
  | e :: rest => specExtend (match a e.k with
                             | some _ => specUpd a e.k e.v e.vid
                             | none => specIns a e) rest

theorem extendLoop_spec (c : Cfg) (hR : 0 < c.R) (orc : Map → Nat → Orc) :
    ∀ (items : List Entry) (m : Map) (cost : Cost), Inv c.R m →
      OkOrCap (Map.extendLoop c orc m items cost) (fun r =>
        Inv c.R r.1 ∧ (∀ k, absOf r.1 k = specExtend (absOf m) items k) ∧
        (ms (idsOf r.1.ents) + ms r.2.dropped = ms (idsOf m.ents) + ms cost.dropped + ms (items.flatMap Entry.ids))) := by
  intro items
  induction items with
  | nil =>
    intro m cost h
    simp only [Map.extendLoop, OkOrCap]
    refine ⟨h, fun _ => rfl, ?_⟩
    simp only [List.flatMap_nil, ms_nil]
    abel
  | cons e rest ih =>
    intro m cost h
    unfold Map.extendLoop
    have hs := Map.insert_spec c hR m e (orc m rest.length) h
    cases hr : Map.insert c m e (orc m rest.length) with
    | error f => rw [hr] at hs; exact hs
    | ok r =>
      obtain ⟨m1, out⟩ := r
      rw [hr] at hs
      simp only [OkOrCap] at hs
      obtain ⟨hi1, ha1, _, _, _, _, _, _, _, hled⟩ := hs
      dsimp only
      have h2 := ih m1 (cost + out.cost + { dropped := out.returned }) hi1
      cases hr2 : Map.extendLoop c orc m1 rest (cost + out.cost + { dropped := out.returned }) with
      | error f => rw [hr2] at h2; exact h2
      | ok q =>
        rw [hr2] at h2
        simp only [OkOrCap] at h2 ⊢
        obtain ⟨hi2, ha2, hl2⟩ := h2
        refine ⟨hi2, fun k => ?_, ?_⟩
        · rw [ha2 k]
          have hfun : absOf m1 = (match absOf m e.k with
                                   | some _ => specUpd (absOf m) e.k e.v e.vid
                                   | none => specIns (absOf m) e) := by
            funext k'
            rw [ha1 k']
            cases absOf m e.k <;> rfl
          rw [hfun]
          rfl
        · rw [hl2]
          have hp := ms_perm.1 hled
          simp only [ms_append, Cost.add_dropped, List.flatMap_cons] at hp ⊢
          have hre : ms (idsOf m1.ents) + (ms cost.dropped + ms out.cost.dropped + ms out.returned) +
                ms (List.flatMap Entry.ids rest)
              = (ms (idsOf m1.ents) + ms out.returned + ms out.cost.dropped) +
                (ms cost.dropped + ms (List.flatMap Entry.ids rest)) := by abel
          rw [hre, hp]
          abel

/-- **`extend` refines the reference map** and conserves every object -/
theorem extend_refines (c : Cfg) (hR : 0 < c.R) (m : Map) (items : List Entry) (hint : Nat) (orc : Map → Nat → Orc)
    (h : Inv c.R m) :
    OkOrCap (Map.extend c m items hint orc) (fun r =>
      Inv c.R r.1 ∧ (∀ k, absOf r.1 k = specExtend (absOf m) items k) ∧
      (idsOf r.1.ents ++ r.2.cost.dropped).Perm (idsOf m.ents ++ items.flatMap Entry.ids) ∧ r.2.returned = []) := by
  unfold Map.extend Map.reserve
  dsimp only
  have hs := reserve_spec c hR m (if m.len = 0 then hint else hint / 2 + hint % 2)
    (orc m items.length).hits (orc m items.length).perm h
  cases hr : Raw.reserve c m (if m.len = 0 then hint else hint / 2 + hint % 2)
      (orc m items.length).hits (orc m items.length).perm with
  | error f => rw [hr] at hs; exact hs
  | ok r =>
    obtain ⟨m1, cost1⟩ := r
    rw [hr] at hs
    simp only [OkOrCap] at hs
    obtain ⟨hi1, hp1, _, _, hd1⟩ := hs
    dsimp only
    have h2 := extendLoop_spec c hR orc items m1 cost1 hi1
    cases hr2 : Map.extendLoop c orc m1 items cost1 with
    | error f => rw [hr2] at h2; exact h2
    | ok q =>
      rw [hr2] at h2
      simp only [OkOrCap] at h2 ⊢
      obtain ⟨hi2, ha2, hl2⟩ := h2
      refine ⟨hi2, fun k => ?_, ?_, by first | rfl | trivial⟩
      · rw [ha2 k]
        have hfun : absOf m1 = absOf m := funext (fun k' => absOf_perm hp1 h.nodup k')
        rw [hfun]
      · rw [ms_perm]
        simp only [ms_append]
        rw [hl2, hd1, ms_nil]
        have : ms (idsOf m1.ents) = ms (idsOf m.ents) := ms_perm.1 (idsOf_perm hp1)
        rw [this]
        abel

theorem extendLoop_small (c : Cfg) (orc : Map → Nat → Orc) :
    ∀ (items : List Entry) (m : Map) (cost : Cost) (r : Map × Cost), Small m →
      Map.extendLoop c orc m items cost = .ok r → Small r.1 := by
  intro items
  induction items with
  | nil => intro m cost r hs h; unfold Map.extendLoop at h; cases h; exact hs
  | cons e rest ih =>
    intro m cost r hs h
    unfold Map.extendLoop at h
    split at h
    · cases h
    · rename_i m' out hi
      have hs' : Small m' := step_small (op := .insert e) (r := (m', out)) hs hi
      exact ih m' _ r hs' h

/-- **`extend` preserves the size invariant** (so `shrink_to`'s `2·len + 1` never wraps after it either) -/
theorem extend_small (c : Cfg) (m : Map) (items : List Entry) (hint : Nat) (orc : Map → Nat → Orc) (r : Map × Out)
    (hs : Small m) (h : Map.extend c m items hint orc = .ok r) : Small r.1 := by
  unfold Map.extend at h
  dsimp only at h
  split at h
  · cases h
  · rename_i m1 out1 hr
    have hs1 : Small m1 := step_small (op := .reserve _) (r := (m1, out1)) hs hr
    split at h
    · cases h
    · rename_i m2 cost hl
      cases h
      exact extendLoop_small c orc items m1 _ (m2, cost) hs1 hl

/-- non-vacuity: a map with {1 ↦ 5} extended with (1, 6), (2, 7), (2, 8): key 1 keeps its key object 10 and gets value
    6, key 2 is stored with the key object of its FIRST pair and the value of its last; three objects are dropped -/
example :
    let m : Map := { main := { buckets := 8, ents := [⟨1, 10, 5, 11⟩], gl := 5 }, lo := none }
    (match Map.extend { R := 8 } m [⟨1, 20, 6, 21⟩, ⟨2, 22, 7, 23⟩, ⟨2, 24, 8, 25⟩] 3 (fun _ _ => {}) with
     | .ok (m', out) => (m'.ents.map (fun e => (e.k, e.kid, e.v, e.vid)), out.cost.dropped)
     | .error _ => ([], [])) = ([(2, 22, 8, 25), (1, 10, 6, 21)], [20, 11, 24, 23]) := by decide

/-- the rounding `extend` uses is the one its comment promises — half the hint, rounded up — and stays below the
    hint, so it is representable whenever the hint is (no overflow for any `usize` hint) -/
theorem extend_hint_rounding (hint : Nat) : hint / 2 + hint % 2 = (hint + 1) / 2 ∧ hint / 2 + hint % 2 ≤ hint := by
  omega

end Griddle.C01
