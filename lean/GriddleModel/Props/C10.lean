/-
  C10 — Capacity-management calls honour their contracts, including at usize limits.
-/
import GriddleModel.Lemmas.Steps
import GriddleModel.Props.C01
import GriddleModel.Props.C04
import GriddleModel.Lemmas.Small
namespace Griddle.C10

/-- `with_capacity(n)`: capacity ≥ n (or the documented overflow panic / OOM abort). -/
theorem with_capacity_spec (c : Cfg) (cap : Nat) :
    OkOrCap (Raw.withCapacity c cap) (fun r => Inv c.R r.1 ∧ r.1.ents = [] ∧ cap ≤ r.1.capacity) :=
  C01.inv_withCapacity c cap

/-- After `reserve(n)`: `capacity() ≥ len() + n`, contents unchanged; the only failures are the
    documented capacity-overflow panic and an OOM abort — it never returns having reserved less. -/
theorem reserve_contract (c : Cfg) (hR : 0 < c.R) (t : Raw) (n hits : Nat) (perm : List Nat) (h : Inv c.R t) :
    OkOrCap (Raw.reserve c t n hits perm) (fun r =>
      Inv c.R r.1 ∧ r.1.ents.Perm t.ents ∧ r.1.len + n ≤ r.1.capacity) :=
  (reserve_spec c hR t n hits perm h).mono (fun _ hs => ⟨hs.1, hs.2.1, hs.2.2.1⟩)

/-- `try_reserve(n)`: never panics or aborts; `Ok` ⇒ `capacity() ≥ len() + n`; `Err` ⇒ contents
    unchanged.  `c.debug` is universally quantified: the statement is the same in both profiles. -/
theorem try_reserve_contract (c : Cfg) (hR : 0 < c.R) (t : Raw) (n hits : Nat) (perm : List Nat) (h : Inv c.R t) :
    OkOr (Raw.tryReserve c t n hits perm) (fun r =>
      Inv c.R r.1 ∧ r.1.ents.Perm t.ents ∧ (r.2.1 = none → r.1.len + n ≤ r.1.capacity)) := by
  have hs := tryReserve_spec c hR t n hits perm h
  cases hr : Raw.tryReserve c t n hits perm with
  | error f => rw [hr] at hs; exact hs
  | ok r => rw [hr] at hs; simp only [OkOr] at hs ⊢; exact ⟨hs.1, hs.2.1, hs.2.2.2.2⟩

/-- When `len() + n` itself overflows `usize`, `try_reserve` reports `CapacityOverflow` and leaves
    the map exactly as it was; `reserve` panics with the documented message. -/
theorem overflow_reported (c : Cfg) (t : Raw) (n hits : Nat) (perm : List Nat)
    (hov : USIZE ≤ (match t.lo with | some o => o.ents.length | none => 0) + n) :
    Raw.tryReserve c t n hits perm = .ok (t, some .overflow, {}) ∧
    Raw.reserve c t n hits perm = .error (.panic .capacityOverflow) := by
  unfold Raw.tryReserve Raw.reserve
  cases hlo : t.lo <;> simp only [hlo] at hov <;> simp [hov] <;> (constructor <;> (intro hlt; omega))

/-- After `reserve(n)` the next `n` unseen keys are inserted without allocating (C04's
    fill-to-capacity applies: `n ≤ capacity() - len()`). -/
theorem reserve_then_fill (c : Cfg) (hR : 0 < c.R) (hits : Nat → Nat) (t : Raw) (h : Inv c.R t) (n : Nat)
    (hcap : t.len + n ≤ t.capacity) (es : List Entry) (hlen : es.length = n)
    (hnd : (keysOf es).Nodup) (hfresh : ∀ e ∈ es, e.k ∉ keysOf t.ents) :
    OkOr (C04.fill c t es hits) (fun r => Inv c.R r.1 ∧ r.2 = 0 ∧ r.1.main.buckets = t.main.buckets) := by
  have hroom : es.length ≤ C04.room t := by unfold C04.room; omega
  have hf := C04.fill_to_capacity c hR hits es t h hnd hfresh hroom
  cases hr : C04.fill c t es hits with
  | error f => rw [hr] at hf; exact hf
  | ok r => rw [hr] at hf; simp only [OkOr] at hf ⊢; exact ⟨hf.1, hf.2.1, hf.2.2.2.1⟩

/-- `shrink_to(m)` / `shrink_to_fit` (m = 0): contents kept, invariant kept, never more buckets,
    `capacity() ≥ max(len(), min(m, previous capacity()))`. -/
theorem shrink_contract (c : Cfg) (hR : 0 < c.R) (t : Raw) (m : Nat) (h : Inv c.R t)
    (hsmall : t.len + t.len + 1 < USIZE) :
    OkOrCap (Raw.shrinkTo c t m) (fun r =>
      Inv c.R r.1 ∧ r.1.ents.Perm t.ents ∧
      (1 ≤ t.main.buckets → r.1.main.buckets ≤ t.main.buckets) ∧
      max r.1.len (min m t.capacity) ≤ r.1.capacity) :=
  (shrinkTo_spec c hR t m h hsmall).mono (fun _ hs => ⟨hs.1, hs.2.1, fun hb => (hs.2.2.1 hb).1, hs.2.2.2.1⟩)

/-- the same without the size hypothesis: it follows from the two invariants -/
theorem shrink_contract_unconditional (c : Cfg) (hR : 0 < c.R) (t : Raw) (m : Nat) (h : Inv c.R t) (hs : Small t) :
    OkOrCap (Raw.shrinkTo c t m) (fun r =>
      Inv c.R r.1 ∧ Small r.1 ∧ r.1.ents.Perm t.ents ∧
      (1 ≤ t.main.buckets → r.1.main.buckets ≤ t.main.buckets) ∧
      max r.1.len (min m t.capacity) ≤ r.1.capacity) := by
  have hc := shrink_contract c hR t m h (small_len h hs)
  cases hr : Raw.shrinkTo c t m with
  | error f => rw [hr] at hc; exact hc
  | ok r =>
    rw [hr] at hc
    simp only [OkOrCap] at hc ⊢
    exact ⟨hc.1, shrinkTo_small hs hr, hc.2⟩

/-- non-vacuity of `overflow_reported`: the historical failing input (14 parked/stored elements,
    `usize::MAX - 15`) -/
example : USIZE ≤ (14 : Nat) + (2 ^ 64 - 14) := by decide

end Griddle.C10
