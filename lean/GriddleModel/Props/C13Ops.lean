/-
  C13 (continued) — single-set operations (`SetOps` in `GriddleModel/Set.lean`).

  A set is observed through membership AND through the object that stands for each value
  (`reprOf : value → Option object`).  From any state with the invariant, any oracle:

    * `set_insert_spec`  — `insert(v)` returns `true` iff `v` was absent; afterwards `v` is a member; a value that
      was already there KEEPS its representative (the argument is dropped); nobody else is touched;
    * `set_remove_spec`  — `remove` / `take`: the value is gone, reported iff it was there, `take` hands back the
      stored object, nobody else is touched;
    * `set_replace_inv`, `set_get_or_insert_inv` — `replace` and `get_or_insert*` keep the invariant (one element
      per value), report occupied iff the value was there, and conserve every object
      (`C06.ledger_entry_chain` instantiated);
    * `set_get_spec` — `get` / `contains` answer by the reference.
-/
import GriddleModel.Set
import GriddleModel.Props.C12
import GriddleModel.Props.C06Entry
namespace Griddle.C13

open SetOps

/-- the reference view of a set: which object stands for value `k` -/
def reprOf (m : Map) (k : Nat) : Option Nat := (absOf m k).map (·.kid)

theorem set_insert_spec (c : Cfg) (hR : 0 < c.R) (m : Map) (k kid : Nat) (o : Orc) (h : Inv c.R m) :
    OkOrCap (SetOps.insert c m k kid o) (fun r =>
      Inv c.R r.1 ∧
      (r.2.ret = .optV none ↔ reprOf m k = none) ∧
      reprOf r.1 k = some ((reprOf m k).getD kid) ∧
      (∀ k', k' ≠ k → reprOf r.1 k' = reprOf m k')) := by
  unfold SetOps.insert
  have hs := Map.insert_spec c hR m (unitE k kid) o h
  cases hr : Map.insert c m (unitE k kid) o with
  | error f => rw [hr] at hs; exact hs
  | ok r =>
    rw [hr] at hs
    simp only [OkOrCap] at hs ⊢
    obtain ⟨hi, ha, hret, _⟩ := hs
    have hk : (unitE k kid).k = k := rfl
    rw [hk] at ha hret
    refine ⟨hi, ?_, ?_, ?_⟩
    · rw [hret]
      unfold reprOf
      cases absOf m k <;> simp
    · unfold reprOf
      rw [ha k]
      cases hm : absOf m k with
      | none => simp [specIns, unitE]
      | some e => simp [specUpd, hm]
    · intro k' hne
      unfold reprOf
      rw [ha k']
      cases hm : absOf m k with
      | none => simp [specIns, unitE, hne]
      | some e => simp [specUpd, hne]

theorem set_remove_spec {R : Nat} (hR : 0 < R) (m : Map) (k : Nat) (o : Orc) (h : Inv R m) :
    ∃ m' out, SetOps.remove m k o = .ok (m', out) ∧ Inv R m' ∧
      reprOf m' k = none ∧ (∀ k', k' ≠ k → reprOf m' k' = reprOf m k') ∧
      (out.ret = .optKV none ↔ reprOf m k = none) ∧
      (∀ e, absOf m k = some e → out.returned = e.ids) := by
  obtain ⟨m', out, hr, hi, ha, hret, _, _, _, _, hretd, _⟩ := Map.removeEntry_spec hR m k o h
  refine ⟨m', out, hr, hi, ?_, ?_, ?_, ?_⟩
  · unfold reprOf; rw [ha k]; simp [specDel]
  · intro k' hne; unfold reprOf; rw [ha k']; simp [specDel, hne]
  · rw [hret]; unfold reprOf; cases absOf m k <;> simp
  · intro e he; rw [hretd, he]

/-- `remove` / `take` of the LAST element parked in the old table release that table in the same call (C03 for sets:
    this is what distinguishes them from `retain`) -/
theorem set_remove_releases {R : Nat} (hR : 0 < R) (m : Map) (k : Nat) (o : Orc) (h : Inv R m)
    (ol : Old) (hlo : m.lo = some ol) (hin : ∃ x, x ∈ ol.ents ∧ x.k = k) (hlast : ol.ents.length = 1) :
    ∃ m' out, SetOps.remove m k o = .ok (m', out) ∧ m'.lo = none ∧ out.cost.frees = 1 := by
  obtain ⟨m', out, hr, _, _, _, _, _, _, _, _, hrel⟩ := Map.removeEntry_spec hR m k o h
  exact ⟨m', out, hr, (hrel ol hlo hin hlast).1, (hrel ol hlo hin hlast).2⟩

theorem set_get_spec {R : Nat} (m : Map) (k : Nat) (h : Inv R m) :
    (SetOps.get m k).ret = .optKV (absOf m k) := by
  unfold SetOps.get Map.get
  simp only
  rw [find_eq_abs h k]

/-- `replace(v)`: the chain it runs is applicable, so the invariant — one element per value — holds afterwards, the
    entry was occupied iff the value was there, and every object is stored, handed back or dropped exactly once -/
theorem set_replace_inv (c : Cfg) (hR : 0 < c.R) (m : Map) (k kid : Nat) (o : Orc) (h : Inv c.R m) :
    OkOrCap (SetOps.replace c m k kid o) (fun r =>
      Inv c.R r.1 ∧ (keysOf r.1.ents).Nodup ∧ ∃ seen, r.2.ret = .chain (absOf m k).isSome seen) := by
  unfold SetOps.replace
  cases hf : m.find k with
  | some p =>
    apply C12.one_element_per_key c hR false 1 m k kid _ o h
    simp only [C12.chainApplicable, Map.lookupState, hf, Applicable, and_true]
    exact ⟨by simp, fun _ _ _ _ => trivial⟩
  | none =>
    apply C12.one_element_per_key c hR false 1 m k kid _ o h
    simp only [C12.chainApplicable, Map.lookupState, hf, Applicable, and_true]
    exact ⟨by simp, fun _ _ _ _ => trivial⟩

theorem set_get_or_insert_inv (c : Cfg) (hR : 0 < c.R) (m : Map) (k kid : Nat) (lzy : Bool) (o : Orc) (h : Inv c.R m) :
    OkOrCap (SetOps.getOrInsert c m k kid lzy o) (fun r =>
      Inv c.R r.1 ∧ (keysOf r.1.ents).Nodup ∧ ∃ seen, r.2.ret = .chain (absOf m k).isSome seen) := by
  unfold SetOps.getOrInsert
  apply C12.one_element_per_key c hR true 1 m k 0 _ o h
  simp only [C12.chainApplicable, Applicable, and_true]
  cases Map.lookupState true m k 0 <;> exact ⟨by simp, fun _ _ _ _ => trivial⟩

/-- **`replace(v)` on a value that is there** exchanges its representative — the stored object is handed back, the
    argument takes its place — and touches nothing else: both tables, every counter and every other element stay -/
theorem set_replace_occupied (c : Cfg) (m : Map) (k kid : Nat) (o : Orc) {R : Nat} (h : Inv R m)
    {loc : Loc} {e : Entry} (hf : m.find k = some (loc, e)) :
    ∃ out, SetOps.replace c m k kid o = .ok (Map.setKidAt m loc kid, out) ∧
      out.returned = [e.kid] ∧ out.cost.dropped = [] ∧ out.cost.moved = 0 ∧ out.cost.allocs = 0 ∧
      Inv R (Map.setKidAt m loc kid) ∧ SetOps.repr (Map.setKidAt m loc kid) k = some kid := by
  have hv := valueAt_of_find h hf
  obtain ⟨hi, hf'⟩ := setKidAt_spec h hf kid
  unfold SetOps.replace
  simp only [hf]
  unfold Map.entryChain Map.lookupState
  simp only [hf, Map.chainLoop, Map.chainStep, hv, Bool.false_eq_true, if_false]
  refine ⟨_, rfl, rfl, ?_, rfl, rfl, hi, ?_⟩
  · simp
  · unfold SetOps.repr
    rw [hf']
    rfl

/-- non-vacuity: `insert` of a value that is there keeps object 10 and drops the argument 20; `replace` stores 30
    and hands 10 back; `get_or_insert` of an absent value stores its argument -/
example :
    let m : Map := { main := { buckets := 8, ents := [unitE 1 10], gl := 6 }, lo := none }
    ((match SetOps.insert { R := 8 } m 1 20 {} with
      | .ok (m', out) => (SetOps.repr m' 1, out.cost.dropped) | .error _ => (none, [])),
     (match SetOps.replace { R := 8 } m 1 30 {} with
      | .ok (m', out) => (SetOps.repr m' 1, out.returned) | .error _ => (none, [])),
     (match SetOps.getOrInsert { R := 8 } m 2 40 false {} with
      | .ok (m', _) => (SetOps.repr m' 1, SetOps.repr m' 2) | .error _ => (none, none)))
    = ((some 10, [20]), (some 30, [10]), (some 10, some 40)) := by decide

end Griddle.C13
