/-
  C08 (continued) — the iterators step by step (`GriddleModel/Iter.lean`).

  For every map state satisfying the invariant, every order in which hashbrown visits the main table, and
  every number of pulls `n`:

    * `RIt.run_spec`   — `RawIter` (behind `iter`, `iter_mut`, `keys`, `values`, `values_mut`): pulled `n`
      times it never faults, the `size_hint()` read before the `k`-th pull is exactly
      `(total - k, Some(total - k))`, the elements returned are the first `n` of
      `main ++ old (cursor order)`, each flagged with the table it lives in, and what is left is the rest;
    * `DIt.run_spec`   — the same for `RawIntoIter` / `RawDrain` with `old ++ main`;
    * `RIt.fused` / `DIt.fused` — once `next` has returned `None` it returns `None` forever, with
      `size_hint() = (0, Some(0))`;
    * `iter_steps_of_inv`, `drain_steps_of_inv` — the machines started on a map with `Inv` are in agreement
      (that is where I2, cursor = elements left, is used), and the sequence they produce is the one
      `Map.iter` / `Map.drain` describe;
    * `stale_cursor_faults` (non-vacuity) — with a cursor that claims one element too many, the very same
      machine reports the over-read.
-/
import GriddleModel.Iter
import GriddleModel.Lemmas.Kernel
import GriddleModel.Props.C08
namespace Griddle.C08

open It

/-- counter = elements left -/
def HIt.Agrees (i : HIt) : Prop := i.items = i.rest.length

theorem HIt.next_nil {i : HIt} (h : HIt.Agrees i) (hr : i.rest = []) : i.next = .ok (none, i) := by
  unfold HIt.Agrees at h
  unfold It.HIt.next
  simp [h, hr]

theorem HIt.next_cons {i : HIt} {e : Entry} {r : List Entry} (h : HIt.Agrees i) (hr : i.rest = e :: r) :
    i.next = .ok (some e, { rest := r, items := r.length }) := by
  unfold HIt.Agrees at h
  unfold It.HIt.next
  simp [h, hr]

theorem HIt.fresh_agrees (es : List Entry) : HIt.Agrees (It.HIt.fresh es) := rfl

/-! ### `RawIter` -/

def RIt.Agrees (i : RIt) : Prop :=
  HIt.Agrees i.table ∧ ∀ lo, i.leftovers = some lo → HIt.Agrees lo

/-- everything the iterator has still to yield, with the `in_main` flag -/
def RIt.all (i : RIt) : List (Entry × Bool) :=
  i.table.rest.map (fun e => (e, true)) ++
    (match i.leftovers with | some lo => lo.rest.map (fun e => (e, false)) | none => [])

theorem RIt.sizeHint_exact {i : RIt} (h : RIt.Agrees i) :
    i.sizeHint = ((RIt.all i).length, some (RIt.all i).length) := by
  obtain ⟨ht, hl⟩ := h
  unfold HIt.Agrees at ht
  unfold It.RIt.sizeHint RIt.all
  cases hlo : i.leftovers with
  | none => simp [It.HIt.sizeHint, ht]
  | some lo =>
    have := hl lo hlo
    unfold HIt.Agrees at this
    simp [ht, this]

/-- one pull, nothing left -/
theorem RIt.next_done {i : RIt} (h : RIt.Agrees i) (ha : RIt.all i = []) :
    i.next = .ok (none, i) := by
  obtain ⟨⟨tr, ti⟩, lo⟩ := i
  obtain ⟨ht, hl⟩ := h
  simp only [HIt.Agrees] at ht hl
  subst ht
  cases tr with
  | cons e r => simp [RIt.all] at ha
  | nil =>
    cases lo with
    | none => simp [It.RIt.next, It.HIt.next]
    | some l =>
      obtain ⟨lr, li⟩ := l
      have hli := hl _ rfl
      simp only at hli
      subst hli
      cases lr with
      | cons e r => simp [RIt.all] at ha
      | nil => simp [It.RIt.next, It.HIt.next]

/-- one pull, something left -/
theorem RIt.next_some {i : RIt} (h : RIt.Agrees i) {y : Entry × Bool} {ys : List (Entry × Bool)}
    (ha : RIt.all i = y :: ys) :
    ∃ j, i.next = .ok (some y, j) ∧ RIt.Agrees j ∧ RIt.all j = ys := by
  obtain ⟨⟨tr, ti⟩, lo⟩ := i
  obtain ⟨ht, hl⟩ := h
  simp only [HIt.Agrees] at ht hl
  subst ht
  cases tr with
  | cons e r =>
    simp only [RIt.all, List.map_cons, List.cons_append, List.cons.injEq] at ha
    refine ⟨{ table := { rest := r, items := r.length }, leftovers := lo }, ?_, ⟨rfl, hl⟩, ha.2⟩
    simp [It.RIt.next, It.HIt.next, ← ha.1]
  | nil =>
    cases lo with
    | none => simp [RIt.all] at ha
    | some l =>
      obtain ⟨lr, li⟩ := l
      have hli := hl _ rfl
      simp only at hli
      subst hli
      cases lr with
      | nil => simp [RIt.all] at ha
      | cons e r =>
        simp only [RIt.all, List.map_nil, List.nil_append, List.map_cons, List.cons.injEq] at ha
        refine ⟨{ table := { rest := [], items := 0 }, leftovers := some { rest := r, items := r.length } }, ?_,
          ⟨rfl, ?_⟩, ?_⟩
        · simp [It.RIt.next, It.HIt.next, ← ha.1]
        · intro lo' hlo'
          cases hlo'
          rfl
        · simp only [RIt.all, List.map_nil, List.nil_append]
          exact ha.2

/-- **every step of `RawIter`**: no fault, exact `size_hint` before each pull, the first `n` elements of
    `main ++ old`, and the rest is still there -/
theorem RIt.run_spec : ∀ (n : Nat) (i : RIt), RIt.Agrees i →
    ∃ j, It.RIt.run n i = .ok ((List.range n).map (fun k => ((RIt.all i).length - k, some ((RIt.all i).length - k))),
                               (RIt.all i).take n, j)
      ∧ RIt.Agrees j ∧ RIt.all j = (RIt.all i).drop n := by
  intro n
  induction n with
  | zero => intro i h; exact ⟨i, by simp [It.RIt.run], h, by simp⟩
  | succ n ih =>
    intro i h
    have hsz := RIt.sizeHint_exact h
    cases ha : RIt.all i with
    | nil =>
      obtain ⟨j, hj, hja, hjall⟩ := ih i h
      refine ⟨j, ?_, hja, by rw [hjall, ha]; simp⟩
      unfold It.RIt.run
      rw [RIt.next_done h ha]; dsimp only; rw [hj, hsz, ha]
      simp [List.range_succ_eq_map, Function.comp_def]
    | cons y ys =>
      obtain ⟨i', hn, hi', hall'⟩ := RIt.next_some h ha
      obtain ⟨j, hj, hja, hjall⟩ := ih i' hi'
      refine ⟨j, ?_, hja, by rw [hjall, hall']; simp⟩
      unfold It.RIt.run
      rw [hn]; dsimp only; rw [hj, hsz, ha, hall']
      simp [List.range_succ_eq_map, Function.comp_def]

/-- **fused**: after the last element `next` is `None` forever and the hint is `(0, Some(0))` -/
theorem RIt.fused {i : RIt} (h : RIt.Agrees i) (ha : RIt.all i = []) :
    ∀ n, It.RIt.run n i = .ok (List.replicate n (0, some 0), [], i) := by
  intro n
  induction n with
  | zero => rfl
  | succ n ih =>
    unfold It.RIt.run
    rw [RIt.next_done h ha]; dsimp only; rw [ih, RIt.sizeHint_exact h, ha]
    rfl

/-! ### `RawIntoIter` / `RawDrain` -/

def DIt.Agrees (i : DIt) : Prop :=
  HIt.Agrees i.table ∧ ∀ lo, i.leftovers = some lo → HIt.Agrees lo

/-- old table first, then the main table -/
def DIt.all (i : DIt) : List Entry :=
  (match i.leftovers with | some lo => lo.rest | none => []) ++ i.table.rest

theorem DIt.sizeHint_exact {i : DIt} (h : DIt.Agrees i) :
    i.sizeHint = ((DIt.all i).length, some (DIt.all i).length) := by
  obtain ⟨ht, hl⟩ := h
  unfold HIt.Agrees at ht
  unfold It.DIt.sizeHint DIt.all
  cases hlo : i.leftovers with
  | none => simp [It.HIt.sizeHint, ht]
  | some lo =>
    have := hl lo hlo
    unfold HIt.Agrees at this
    simp [ht, this, Nat.add_comm]

theorem DIt.next_done {i : DIt} (h : DIt.Agrees i) (ha : DIt.all i = []) :
    ∃ j, i.next = .ok (none, j) ∧ DIt.Agrees j ∧ DIt.all j = [] := by
  obtain ⟨⟨tr, ti⟩, lo⟩ := i
  obtain ⟨ht, hl⟩ := h
  simp only [HIt.Agrees] at ht hl
  subst ht
  cases lo with
  | none =>
    simp only [DIt.all, List.nil_append] at ha
    subst ha
    exact ⟨{ table := { rest := [], items := 0 }, leftovers := none }, by simp [It.DIt.next, It.HIt.next],
      ⟨rfl, by intro lo h; cases h⟩, rfl⟩
  | some l =>
    obtain ⟨lr, li⟩ := l
    have hli := hl _ rfl
    simp only at hli
    subst hli
    simp only [DIt.all] at ha
    obtain ⟨h1, h2⟩ := List.append_eq_nil_iff.1 ha
    subst h1
    subst h2
    exact ⟨{ table := { rest := [], items := 0 }, leftovers := none }, by simp [It.DIt.next, It.HIt.next],
      ⟨rfl, by intro lo h; cases h⟩, rfl⟩

theorem DIt.next_some {i : DIt} (h : DIt.Agrees i) {y : Entry} {ys : List Entry} (ha : DIt.all i = y :: ys) :
    ∃ j, i.next = .ok (some y, j) ∧ DIt.Agrees j ∧ DIt.all j = ys := by
  obtain ⟨⟨tr, ti⟩, lo⟩ := i
  obtain ⟨ht, hl⟩ := h
  simp only [HIt.Agrees] at ht hl
  subst ht
  cases lo with
  | none =>
    simp only [DIt.all, List.nil_append] at ha
    subst ha
    exact ⟨{ table := { rest := ys, items := ys.length }, leftovers := none }, by simp [It.DIt.next, It.HIt.next],
      ⟨rfl, by intro lo h; cases h⟩, rfl⟩
  | some l =>
    obtain ⟨lr, li⟩ := l
    have hli := hl _ rfl
    simp only at hli
    subst hli
    cases lr with
    | cons e r =>
      simp only [DIt.all, List.cons_append, List.cons.injEq] at ha
      refine ⟨{ table := { rest := tr, items := tr.length }, leftovers := some { rest := r, items := r.length } }, ?_,
        ⟨rfl, ?_⟩, ha.2⟩
      · simp [It.DIt.next, It.HIt.next, ← ha.1]
      · intro lo' hlo'
        cases hlo'
        rfl
    | nil =>
      simp only [DIt.all, List.nil_append] at ha
      subst ha
      exact ⟨{ table := { rest := ys, items := ys.length }, leftovers := none }, by simp [It.DIt.next, It.HIt.next],
        ⟨rfl, by intro lo h; cases h⟩, rfl⟩

/-- **every step of `RawIntoIter` / `RawDrain`** -/
theorem DIt.run_spec : ∀ (n : Nat) (i : DIt), DIt.Agrees i →
    ∃ j, It.DIt.run n i = .ok ((List.range n).map (fun k => ((DIt.all i).length - k, some ((DIt.all i).length - k))),
                               (DIt.all i).take n, j)
      ∧ DIt.Agrees j ∧ DIt.all j = (DIt.all i).drop n := by
  intro n
  induction n with
  | zero => intro i h; exact ⟨i, by simp [It.DIt.run], h, by simp⟩
  | succ n ih =>
    intro i h
    have hsz := DIt.sizeHint_exact h
    cases ha : DIt.all i with
    | nil =>
      obtain ⟨i', hn, hi', hall'⟩ := DIt.next_done h ha
      obtain ⟨j, hj, hja, hjall⟩ := ih i' hi'
      refine ⟨j, ?_, hja, by rw [hjall, hall']; simp⟩
      unfold It.DIt.run
      rw [hn]; dsimp only; rw [hj, hsz, ha, hall']
      simp [List.range_succ_eq_map, Function.comp_def]
    | cons y ys =>
      obtain ⟨i', hn, hi', hall'⟩ := DIt.next_some h ha
      obtain ⟨j, hj, hja, hjall⟩ := ih i' hi'
      refine ⟨j, ?_, hja, by rw [hjall, hall']; simp⟩
      unfold It.DIt.run
      rw [hn]; dsimp only; rw [hj, hsz, ha, hall']
      simp [List.range_succ_eq_map, Function.comp_def]

/-- **fused** -/
theorem DIt.fused {i : DIt} (h : DIt.Agrees i) (ha : DIt.all i = []) :
    ∀ n, ∃ j, It.DIt.run n i = .ok (List.replicate n (0, some 0), [], j) ∧ DIt.all j = [] := by
  intro n
  obtain ⟨j, hj, _, hall⟩ := DIt.run_spec n i h
  refine ⟨j, ?_, by rw [hall, ha]; simp⟩
  rw [hj, ha]
  simp [List.map_const']

/-! ### started on a map -/

/-- on a map satisfying the invariant the iterator `RawTable::iter()` builds is in agreement — I2 — and what it
    will yield is the main table in hashbrown's order, then the old table in cursor order -/
theorem iter_steps_of_inv {R : Nat} (m : Map) (mainOrder : List Entry) (h : Inv R m) :
    RIt.Agrees (It.RIt.ofMap m mainOrder) ∧
    RIt.all (It.RIt.ofMap m mainOrder) =
      mainOrder.map (fun e => (e, true)) ++ (match m.lo with | some o => o.ents.map (fun e => (e, false)) | none => []) := by
  refine ⟨⟨HIt.fresh_agrees _, ?_⟩, ?_⟩
  · intro lo hlo
    unfold It.RIt.ofMap at hlo
    cases hm : m.lo with
    | none => rw [hm] at hlo; simp at hlo
    | some o =>
      rw [hm] at hlo
      simp only [Option.map_some, Option.some.injEq] at hlo
      subst hlo
      exact h.agree o hm
  · unfold RIt.all It.RIt.ofMap It.HIt.fresh
    cases m.lo <;> rfl

theorem drain_steps_of_inv {R : Nat} (m : Map) (mainOrder : List Entry) (h : Inv R m) :
    DIt.Agrees (It.DIt.ofMap m mainOrder) ∧
    DIt.all (It.DIt.ofMap m mainOrder) = (match m.lo with | some o => o.ents | none => []) ++ mainOrder := by
  refine ⟨⟨HIt.fresh_agrees _, ?_⟩, ?_⟩
  · intro lo hlo
    unfold It.DIt.ofMap at hlo
    cases hm : m.lo with
    | none => rw [hm] at hlo; simp at hlo
    | some o =>
      rw [hm] at hlo
      simp only [Option.map_some, Option.some.injEq] at hlo
      subst hlo
      exact h.agree o hm
  · unfold DIt.all It.DIt.ofMap It.HIt.fresh
    cases m.lo <;> rfl

/-- **C08, per step, on any map with the invariant**: pulled `n` times, `iter()` reports before the `k`-th pull
    exactly `len - k` still to come and hands out the first `n` elements of main ++ old -/
theorem iter_every_step {R : Nat} (m : Map) (mainOrder : List Entry) (h : Inv R m)
    (hlen : mainOrder.length = m.main.ents.length) (n : Nat) :
    ∃ j, It.RIt.run n (It.RIt.ofMap m mainOrder) =
      .ok ((List.range n).map (fun k => (m.len - k, some (m.len - k))),
           (mainOrder.map (fun e => (e, true)) ++
             (match m.lo with | some o => o.ents.map (fun e => (e, false)) | none => [])).take n, j) := by
  obtain ⟨ha, hall⟩ := iter_steps_of_inv m mainOrder h
  obtain ⟨j, hj, _, _⟩ := RIt.run_spec n _ ha
  refine ⟨j, ?_⟩
  rw [hj, hall]
  have : (mainOrder.map (fun e => (e, true)) ++
      (match m.lo with | some o => o.ents.map (fun e => (e, false)) | none => [])).length = m.len := by
    unfold Raw.len
    cases m.lo <;> simp [hlen]
  rw [this]

theorem drain_every_step {R : Nat} (m : Map) (mainOrder : List Entry) (h : Inv R m)
    (hlen : mainOrder.length = m.main.ents.length) (n : Nat) :
    ∃ j, It.DIt.run n (It.DIt.ofMap m mainOrder) =
      .ok ((List.range n).map (fun k => (m.len - k, some (m.len - k))),
           ((match m.lo with | some o => o.ents | none => []) ++ mainOrder).take n, j) := by
  obtain ⟨ha, hall⟩ := drain_steps_of_inv m mainOrder h
  obtain ⟨j, hj, _, _⟩ := DIt.run_spec n _ ha
  refine ⟨j, ?_⟩
  rw [hj, hall]
  have : ((match m.lo with | some o => o.ents | none => []) ++ mainOrder).length = m.len := by
    unfold Raw.len
    cases m.lo <;> simp [hlen, Nat.add_comm]
  rw [this]

/-- **the whole-call description and the step machine say the same**: for a visiting order of the admissible shape,
    what `Map.iter` returns is the main table in that order followed by the old table in cursor order — the sequence
    `iter_every_step` shows the machine to hand out -/
theorem iter_seq_eq_machine {R : Nat} (m : Map) (order : List Nat) (h : Inv R m)
    (hok : Map.iterOrderOk m order = true) :
    order.filterMap (fun k => (m.find k).map (·.2))
      = It.mainInOrder m (order.take m.main.ents.length) ++ (match m.lo with | some o => o.ents | none => []) := by
  unfold Map.iterOrderOk at hok
  simp only [Bool.and_eq_true, decide_eq_true_eq, List.all_eq_true] at hok
  obtain ⟨⟨⟨hlen, hnd⟩, hall⟩, hold⟩ := hok
  have hsplit : order = order.take m.main.ents.length ++ order.drop m.main.ents.length :=
    (List.take_append_drop _ _).symm
  conv_lhs => rw [hsplit, List.filterMap_append]
  have hmain : (order.take m.main.ents.length).filterMap (fun k => (m.find k).map (·.2))
      = It.mainInOrder m (order.take m.main.ents.length) := by
    unfold It.mainInOrder
    apply List.filterMap_congr
    intro k hk
    have := hall k hk
    unfold Raw.find
    unfold HB.find? at this ⊢
    cases hf : m.main.ents.find? (fun e => e.k == k) with
    | none => rw [hf] at this; cases this
    | some x => simp
  rw [hmain]
  congr 1
  cases hlo : m.lo with
  | none =>
    simp only [hlo] at hold
    rw [hold]
    rfl
  | some o =>
    simp only [hlo] at hold
    have hag := h.agree o hlo
    rw [hag, List.take_length] at hold
    rw [hold]
    have : (o.ents.map (·.k)).filterMap (fun k => (m.find k).map (·.2))
        = (keysOf o.ents).filterMap (fun k => o.ents.find? (fun e => e.k == k)) := by
      apply List.filterMap_congr
      intro k hk
      have hnot : m.main.ents.find? (fun e => e.k == k) = none := by
        rw [find_key_none]; intro hm; exact h.disjoint hlo hm hk
      unfold Raw.find HB.find?
      simp only [hnot, hlo]
      cases o.ents.find? (fun e => e.k == k) <;> rfl
    rw [this, filterMap_find_keys (h.old_nodup hlo)]

/-- … so pulling the machine `len()` times yields exactly what `Map.iter` returns, with an exact hint before every pull -/
theorem iter_machine_yields_iter {R : Nat} (m : Map) (o : Orc) (h : Inv R m) (hok : Map.iterOrderOk m o.calls = true) :
    ∃ hs ys j, It.RIt.run m.len (It.RIt.ofMap m (It.mainInOrder m (o.calls.take m.main.ents.length))) = .ok (hs, ys, j) ∧
      Map.iter m o = .ok { ret := .ents (ys.map (·.1)) } ∧
      hs = (List.range m.len).map (fun k => (m.len - k, some (m.len - k))) := by
  have hlenMain : (It.mainInOrder m (o.calls.take m.main.ents.length)).length = m.main.ents.length := by
    have hp := iter_seq_eq_machine m o.calls h hok
    have hperm := iter_perm m o.calls h hok
    have h1 := hperm.length_eq
    rw [hp] at h1
    simp only [List.length_append, Raw.ents] at h1
    cases hlo : m.lo <;> simp only [hlo] at h1 <;> omega
  obtain ⟨j, hj⟩ := iter_every_step m _ h hlenMain m.len
  have hall : ((It.mainInOrder m (o.calls.take m.main.ents.length)).map (fun e => (e, true)) ++
      (match m.lo with | some o => o.ents.map (fun e => (e, false)) | none => [])).length = m.len := by
    unfold Raw.len
    cases m.lo <;> simp [hlenMain]
  rw [List.take_of_length_le (Nat.le_of_eq hall)] at hj
  refine ⟨_, _, j, hj, ?_, rfl⟩
  unfold Map.iter
  simp only [hok, Bool.not_true, Bool.false_eq_true, if_false]
  rw [iter_seq_eq_machine m o.calls h hok]
  have hfst : ((It.mainInOrder m (o.calls.take m.main.ents.length)).map (fun e => (e, true)) ++
      (match m.lo with | some o => o.ents.map (fun e => (e, false)) | none => [])).map (·.1)
      = It.mainInOrder m (o.calls.take m.main.ents.length) ++ (match m.lo with | some o => o.ents | none => []) := by
    cases m.lo <;> simp [Function.comp_def]
  rw [hfst]

/-- non-vacuity of the fault: a cursor claiming 2 elements over an old table that holds 1 makes the second
    pull of the old table an over-read — the machine says so — while the agreeing cursor runs clean -/
example :
    let stale : RIt := { table := It.HIt.fresh [], leftovers := some { rest := [⟨1, 0, 5, 0⟩], items := 2 } }
    let good : RIt := { table := It.HIt.fresh [], leftovers := some { rest := [⟨1, 0, 5, 0⟩], items := 1 } }
    (match It.RIt.run 2 stale with | .error (.ub _) => true | _ => false) = true ∧
    (match It.RIt.run 2 good with | .ok (hs, ys, _) => (hs, ys.length) | .error _ => ([], 0)) = ([(1, some 1), (0, some 0)], 1) := by
  decide

end Griddle.C08
