/-
  C06 — Every stored key and value is dropped exactly once; nothing leaks.

  Object identities (`kid`, `vid`) are ghost fields of the model's entries; `Cost.dropped` lists
  the objects the map dropped during a call, `Out.returned` those it handed back.  Conservation:
      stored after ⊎ handed back ⊎ dropped  =  stored before ⊎ passed in        (as multisets)
  Together with "no identity is stored twice" (distinct keys, and `ids_nodup` for identities when
  the caller passes fresh objects) this gives: never both, never twice, nothing leaks.

  PARTIAL: proved for insert (new key / overwrite in either table, including the carried elements —
  moved, never copied), removals, clear, growth / carry / carry_all, dropping the map; the
  iterator-drop cases (drain / drain_filter / into_iter prefixes) and the entry API's displaced
  keys rest on the lock-step of per-call dropped / returned ids.
-/
import GriddleModel.Lemmas.Steps
namespace Griddle.C06

/-- `insert`: conservation of key and value objects, whichever table held the key. -/
theorem ledger_insert (c : Cfg) (hR : 0 < c.R) (m : Map) (e : Entry) (o : Orc) (h : Inv c.R m) :
    OkOrCap (Map.insert c m e o) (fun r =>
      (idsOf r.1.ents ++ r.2.returned ++ r.2.cost.dropped).Perm (idsOf m.ents ++ e.ids)) :=
  (Map.insert_spec c hR m e o h).mono (fun _ hs => hs.2.2.2.2.2.2.2.2.2)

/-- `remove_entry`: the stored key and value objects are handed back, nothing is dropped. -/
theorem ledger_remove {R : Nat} (hR : 0 < R) (m : Map) (k : Nat) (o : Orc) (h : Inv R m) :
    ∃ m' out, Map.removeEntry m k o = .ok (m', out) ∧ out.cost.dropped = [] ∧
      (idsOf m'.ents ++ out.returned).Perm (idsOf m.ents) := by
  unfold Map.removeEntry
  cases hf : m.find k with
  | none => exact ⟨m, _, rfl, rfl, by simp⟩
  | some p =>
    obtain ⟨loc, e⟩ := p
    obtain ⟨t', cost, hr, _, hp, _, _, _, _, _, cd, _⟩ := removeAt_spec hR h hf (decide (0 < o.empt))
    simp only [hr]
    refine ⟨t', _, rfl, by simp [cd], ?_⟩
    have := idsOf_perm hp
    rw [idsOf_cons] at this
    simp only [Entry.ids]
    refine (List.perm_append_comm).trans ?_
    simpa using this

/-- `clear`: everything stored is dropped, exactly once. -/
theorem ledger_clear {R : Nat} (t : Raw) (h : Inv R t) :
    (Raw.clear t).1.ents = [] ∧ (Raw.clear t).2.dropped.Perm (idsOf t.ents) :=
  ⟨(clear_spec t h).2.1, (clear_spec t h).2.2.2.2.1⟩

/-- `carry` moves elements between the tables: the stored objects are the same, none dropped. -/
theorem ledger_carry (c : Cfg) (hR : 0 < c.R) (t : Raw) (hits : Nat) (h : Inv c.R t) :
    OkOr (Raw.carry c t hits) (fun r => (idsOf r.1.ents).Perm (idsOf t.ents) ∧ r.2.2.dropped = []) := by
  have hs := carry_inv c hR t hits h
  cases hr : Raw.carry c t hits with
  | error f => rw [hr] at hs; exact hs
  | ok r => rw [hr] at hs; simp only [OkOr] at hs ⊢; exact ⟨idsOf_perm hs.2.1, hs.2.2.2.2.2.2⟩

/-- growth / `reserve` (incl. `carry_all` mid-resize) / `shrink_to`: same objects, none dropped. -/
theorem ledger_reserve (c : Cfg) (hR : 0 < c.R) (t : Raw) (n hits : Nat) (perm : List Nat) (h : Inv c.R t) :
    OkOrCap (Raw.reserve c t n hits perm) (fun r => (idsOf r.1.ents).Perm (idsOf t.ents) ∧ r.2.dropped = []) :=
  (reserve_spec c hR t n hits perm h).mono (fun _ hs => ⟨idsOf_perm hs.2.1, hs.2.2.2.2⟩)

theorem ledger_shrink (c : Cfg) (hR : 0 < c.R) (t : Raw) (n : Nat) (h : Inv c.R t) (hs : t.len + t.len + 1 < USIZE) :
    OkOrCap (Raw.shrinkTo c t n) (fun r => (idsOf r.1.ents).Perm (idsOf t.ents) ∧ r.2.dropped = []) :=
  (shrinkTo_spec c hR t n h hs).mono (fun _ hs => ⟨idsOf_perm hs.2.1, hs.2.2.2.2.1⟩)

/-- dropping the map drops exactly what it still stores (both tables) and frees its tables -/
theorem ledger_drop (m : Map) : (Map.dropAll m).dropped.Perm (idsOf m.ents) := by
  unfold Map.dropAll Raw.ents
  cases hlo : m.lo with
  | none => simp [HB.freeCost, idsOf]
  | some o =>
    simp only [Old.dropCost, HB.freeCost, Cost.add_dropped, List.append_nil, idsOf_append]
    exact List.perm_append_comm

/-- identities stay distinct: if the caller passes fresh objects, no identity is ever stored twice -/
theorem ids_nodup_insert_new (c : Cfg) (hR : 0 < c.R) (t : Raw) (e : Entry) (hits : Nat) (perm : List Nat)
    (h : Inv c.R t) (hfresh : e.k ∉ keysOf t.ents) (hids : (idsOf (e :: t.ents)).Nodup) :
    OkOrCap (Raw.insert c t e hits perm) (fun r => (idsOf r.1.ents).Nodup) :=
  (Raw.insert_spec c hR t e hits perm h hfresh).mono (fun _ hs => (idsOf_perm hs.2.1).nodup_iff.2 hids)

end Griddle.C06
