/-
  C06 — Every stored key and value is dropped exactly once; nothing leaks.

  Object identities (`kid`, `vid`) are ghost fields of the model's entries; `Cost.dropped` lists
  the objects the map dropped during a call, `Out.returned` those it handed back.  Conservation:
      stored after ⊎ handed back ⊎ dropped  =  stored before ⊎ passed in        (as multisets)
  Together with "no identity is stored twice" (distinct keys, and `ids_nodup` for identities when
  the caller passes fresh objects) this gives: never both, never twice, nothing leaks.

  PARTIAL: proved for insert (new key / overwrite in either table, including the carried elements —
  moved, never copied), removals, clear, growth / carry / carry_all, dropping the map, `retain`
  and `drain_filter` (pulled any number of times, then dropped or forgotten); `drain` / `into_iter`
  prefixes and the entry API's displaced keys rest on the lock-step of per-call dropped / returned
  ids.  Under an injected panic: `C07.insert_call_hash_panic_safe`,
  `C07.replace_call_closure_panic_safe`.
-/
import GriddleModel.Lemmas.Steps
import GriddleModel.Lemmas.Ledger
namespace Griddle.C06

/-- `insert`: conservation of key and value objects, whichever table held the key. -/
theorem ledger_insert (c : Cfg) (hR : 0 < c.R) (m : Map) (e : Entry) (o : Orc) (h : Inv c.R m) :
    OkOrCap (Map.insert c m e o) (fun r =>
      (idsOf r.1.ents ++ r.2.returned ++ r.2.cost.dropped).Perm (idsOf m.ents ++ e.ids)) :=
  (Map.insert_spec c hR m e o h).mono (fun _ hs => hs.2.2.2.2.2.2.2.2.2)

/-- `remove_entry`: the stored key and value objects are handed back, nothing is dropped. -/
theorem ledger_remove {R : Nat} (hR : 0 < R) (m : Map) (k : Nat) (o : Orc) (h : Inv R m) :
    ∃ m' out, Map.removeEntry m k o = .ok (m', out) ∧ out.cost.dropped = [] ∧
      (idsOf m'.ents ++ out.returned).Perm (idsOf m.ents) := by
  unfold Map.removeEntry
  cases hf : m.find k with
  | none => exact ⟨m, _, rfl, rfl, by simp⟩
  | some p =>
    obtain ⟨loc, e⟩ := p
    obtain ⟨t', cost, hr, _, hp, _, _, _, _, _, cd, _⟩ := removeAt_spec hR h hf (decide (0 < o.empt))
    simp only [hr]
    refine ⟨t', _, rfl, by simp [cd], ?_⟩
    have := idsOf_perm hp
    rw [idsOf_cons] at this
    simp only [Entry.ids]
    refine (List.perm_append_comm).trans ?_
    simpa using this

/-- `clear`: everything stored is dropped, exactly once. -/
theorem ledger_clear {R : Nat} (t : Raw) (h : Inv R t) :
    (Raw.clear t).1.ents = [] ∧ (Raw.clear t).2.dropped.Perm (idsOf t.ents) :=
  ⟨(clear_spec t h).2.1, (clear_spec t h).2.2.2.2.1⟩

/-- `carry` moves elements between the tables: the stored objects are the same, none dropped. -/
theorem ledger_carry (c : Cfg) (hR : 0 < c.R) (t : Raw) (hits : Nat) (h : Inv c.R t) :
    OkOr (Raw.carry c t hits) (fun r => (idsOf r.1.ents).Perm (idsOf t.ents) ∧ r.2.2.dropped = []) := by
  have hs := carry_inv c hR t hits h
  cases hr : Raw.carry c t hits with
  | error f => rw [hr] at hs; exact hs
  | ok r => rw [hr] at hs; simp only [OkOr] at hs ⊢; exact ⟨idsOf_perm hs.2.1, hs.2.2.2.2.2.2⟩

/-- growth / `reserve` (incl. `carry_all` mid-resize) / `shrink_to`: same objects, none dropped. -/
theorem ledger_reserve (c : Cfg) (hR : 0 < c.R) (t : Raw) (n hits : Nat) (perm : List Nat) (h : Inv c.R t) :
    OkOrCap (Raw.reserve c t n hits perm) (fun r => (idsOf r.1.ents).Perm (idsOf t.ents) ∧ r.2.dropped = []) :=
  (reserve_spec c hR t n hits perm h).mono (fun _ hs => ⟨idsOf_perm hs.2.1, hs.2.2.2.2⟩)

theorem ledger_shrink (c : Cfg) (hR : 0 < c.R) (t : Raw) (n : Nat) (h : Inv c.R t) (hs : t.len + t.len + 1 < USIZE) :
    OkOrCap (Raw.shrinkTo c t n) (fun r => (idsOf r.1.ents).Perm (idsOf t.ents) ∧ r.2.dropped = []) :=
  (shrinkTo_spec c hR t n h hs).mono (fun _ hs => ⟨idsOf_perm hs.2.1, hs.2.2.2.2.1⟩)

/-- dropping the map drops exactly what it still stores (both tables) and frees its tables -/
theorem ledger_drop (m : Map) : (Map.dropAll m).dropped.Perm (idsOf m.ents) := by
  unfold Map.dropAll Raw.ents
  cases hlo : m.lo with
  | none => simp [HB.freeCost, idsOf]
  | some o =>
    simp only [Old.dropCost, HB.freeCost, Cost.add_dropped, List.append_nil, idsOf_append]
    exact List.perm_append_comm

/-- identities stay distinct: if the caller passes fresh objects, no identity is ever stored twice -/
theorem ids_nodup_insert_new (c : Cfg) (hR : 0 < c.R) (t : Raw) (e : Entry) (hits : Nat) (perm : List Nat)
    (h : Inv c.R t) (hfresh : e.k ∉ keysOf t.ents) (hids : (idsOf (e :: t.ents)).Nodup) :
    OkOrCap (Raw.insert c t e hits perm) (fun r => (idsOf r.1.ents).Nodup) :=
  (Raw.insert_spec c hR t e hits perm h hfresh).mono (fun _ hs => (idsOf_perm hs.2.1).nodup_iff.2 hids)

/-- `retain(f)`: every object is still stored or was dropped by the call, exactly once; nothing is
    handed back. -/
theorem ledger_retain {R : Nat} (hR : 0 < R) (m : Map) (p : Pred) (o : Orc) (h : Inv R m) :
    OkOr (Map.retain m p o) (fun r =>
      (idsOf r.1.ents ++ r.2.cost.dropped).Perm (idsOf m.ents) ∧ r.2.returned = []) := by
  unfold Map.retain
  cases hok : Map.iterOrderOk m o.calls with
  | false => simp [OkOr]
  | true =>
    simp only [Bool.not_true, Bool.false_eq_true, if_false]
    obtain ⟨hpl, hnd, _⟩ := placed_of_iterOrderOk m o.calls h hok
    obtain ⟨m', c', hr, _⟩ := retainLoop_spec hR p m.main.ents.length o.calls 0 m o.empt {} h hnd hpl
    have hl := retainLoop_ledger hR p m.main.ents.length o.calls 0 m o.empt {} m' c' h hnd hpl hr
    rw [hr]
    simp only [OkOr]
    refine ⟨?_, trivial⟩
    simpa using hl

/-- `drain_filter(f)` pulled `take` times, then dropped or forgotten: every object is still stored,
    was handed to the caller (the yielded pairs), or was dropped by the iterator's destructor —
    exactly one of the three. -/
theorem ledger_drain_filter {R : Nat} (hR : 0 < R) (m : Map) (p : Pred) (take : Nat) (forget : Bool) (o : Orc)
    (h : Inv R m) :
    OkOr (Map.drainFilter m p take forget o) (fun r =>
      (idsOf r.1.ents ++ r.2.returned ++ r.2.cost.dropped).Perm (idsOf m.ents) ∧
      (forget = true → r.2.cost.dropped = [])) := by
  unfold Map.drainFilter
  cases hok : Map.iterOrderOk m o.calls with
  | false => simp [OkOr]
  | true =>
    simp only [Bool.not_true, Bool.false_eq_true, if_false]
    obtain ⟨hpl, hnd, hcov⟩ := placed_of_iterOrderOk m o.calls h hok
    obtain ⟨m1, ys, c1, ro, pre, hr, hks, hi, ha, hy, hpl1, _, htk, _⟩ :=
      drainFilterLoop_spec hR p m.main.ents.length o.calls 0 m o.empt (some take) [] {} h hnd hpl
    obtain ⟨hl1, hd1⟩ := drainFilterLoop_ledger hR p m.main.ents.length o.calls 0 m o.empt (some take) [] {}
      m1 ys c1 ro h hnd hpl hr
    rw [hr]
    dsimp only
    have hd1' : c1.dropped = [] := hd1
    have hl1' : (idsOf m1.ents ++ idsOf ys).Perm (idsOf m.ents) := by simpa [idsOf] using hl1
    cases forget with
    | true =>
      simp only [if_true, OkOr]
      refine ⟨?_, fun _ => hd1'⟩
      rw [hd1', List.append_nil]; exact hl1'
    | false =>
      simp only [Bool.false_eq_true, if_false]
      have hlen : o.calls.length - ro.length = 0 + pre.length := by rw [hks]; simp
      rw [hlen]
      have hndro : ro.Nodup := by rw [hks] at hnd; exact (List.nodup_append.1 hnd).2.1
      obtain ⟨m2, ys2, c2, ro2, pre2, hr2, _⟩ :=
        drainFilterLoop_spec hR p m.main.ents.length ro (0 + pre.length) m1
          (o.empt - (ys.filter (fun e => (m.main.find? e.k).isSome)).length) none [] {} hi hndro hpl1
      obtain ⟨hl2, hd2⟩ := drainFilterLoop_ledger hR p m.main.ents.length ro (0 + pre.length) m1
        (o.empt - (ys.filter (fun e => (m.main.find? e.k).isSome)).length) none [] {} m2 ys2 c2 ro2 hi hndro hpl1 hr2
      rw [hr2]
      simp only [OkOr]
      refine ⟨?_, fun hc => (by cases hc)⟩
      have hd2' : c2.dropped = [] := hd2
      have hl2' : (idsOf m2.ents ++ idsOf ys2).Perm (idsOf m1.ents) := by simpa [idsOf] using hl2
      simp only [Cost.add_dropped, hd1', hd2', List.nil_append]
      -- I(m2) ++ I(ys) ++ I(ys2) ~ (I(m2) ++ I(ys2)) ++ I(ys) ~ I(m1) ++ I(ys) ~ I(m)
      have s1 : (idsOf m2.ents ++ idsOf ys ++ idsOf ys2).Perm ((idsOf m2.ents ++ idsOf ys2) ++ idsOf ys) := by
        simp only [List.append_assoc]
        exact List.Perm.append_left _ List.perm_append_comm
      exact s1.trans ((List.Perm.append_right _ hl2').trans hl1')

end Griddle.C06
