/-
  C07 (continued) — whole calls under an injected, caught panic.

  `GriddleModel.Panic` defines `Map.insertFused`, `Map.retainFusedOut`, `Map.replaceFusedOut`: the
  calls the fault lock-step replays against the real crate (`finsert` / `fretain` / `freplace`
  lines: the crate runs under a `Hash` implementation or closure that panics on its `fuse`-th
  invocation, the panic is caught, and the model's state must equal the crate's).  Here: for every
  invariant state, every fuse position and every oracle, what such a call leaves behind.
-/
import GriddleModel.Props.C07
namespace Griddle.C07

theorem HB.insertNoGrow_ents {t : HB} {e : Entry} {b : Bool} {t' : HB} (h : t.insertNoGrow e b = .ok t') :
    t'.ents = e :: t.ents := by
  unfold HB.insertNoGrow at h
  split at h
  · split at h
    · cases h; rfl
    · cases h
  · split at h
    · cases h
    · cases h; rfl

/-- the element a fused `carry` loses was in the old table, and the main table only gains -/
theorem carryLoopFused_lost (n : Nat) : ∀ (main : HB) (o : Old) (fuse hits : Nat) (r : HB × Option Old × Option Entry),
    carryLoopFused main o n fuse hits = .ok r →
    (∀ x, r.2.2 = some x → x ∈ o.ents) ∧ (∃ pre, r.1.ents = pre ++ main.ents) := by
  induction n with
  | zero =>
    intro main o fuse hits r h
    unfold carryLoopFused at h
    split at h <;> (cases h; exact ⟨fun x hx => (by cases hx), ⟨[], rfl⟩⟩)
  | succ n ih =>
    intro main o fuse hits r h
    unfold carryLoopFused at h
    split at h
    · cases h; exact ⟨fun x hx => (by cases hx), ⟨[], rfl⟩⟩
    · split at h
      · cases h
      · rename_i e rest heq
        split at h
        · cases h
          refine ⟨fun x hx => ?_, ⟨[], rfl⟩⟩
          cases hx; rw [heq]; exact List.mem_cons_self
        · split at h
          · cases h
          · rename_i main' hm
            obtain ⟨a, pre, hp⟩ := ih _ _ _ _ _ h
            refine ⟨fun x hx => ?_, ?_⟩
            · have := a x hx
              rw [heq]; exact List.mem_cons_of_mem _ this
            · rw [hp, HB.insertNoGrow_ents hm]; exact ⟨pre ++ [e], by simp⟩

theorem carryFused_lost (c : Cfg) (t : Raw) (fuse hits : Nat) (r : Raw × Option Entry)
    (h : Raw.carryFused c t fuse hits = .ok r) :
    (∀ x, r.2 = some x → x ∈ oldEnts t) ∧ (∀ x ∈ t.main.ents, x ∈ r.1.main.ents) ∧
    (t.lo = none → r.2 = none) := by
  unfold Raw.carryFused at h
  cases hlo : t.lo with
  | none =>
    rw [hlo] at h; cases h
    exact ⟨fun x hx => (by cases hx), fun x hx => hx, fun _ => rfl⟩
  | some o =>
    rw [hlo] at h
    dsimp only at h
    cases hres : carryLoopFused t.main o c.R fuse hits with
    | error f => rw [hres] at h; cases h
    | ok q =>
      obtain ⟨m, lo', lost⟩ := q
      rw [hres] at h
      cases h
      obtain ⟨a, pre, hp⟩ := carryLoopFused_lost c.R t.main o fuse hits _ hres
      refine ⟨fun x hx => ?_, fun x hx => ?_, fun hc => (by cases hc)⟩
      · have := a x hx
        simpa [oldEnts, hlo] using this
      · show x ∈ m.ents
        rw [hp]; exact List.mem_append_right _ hx

/-- griddle's `insert_no_grow` with a fused `carry`: the new element is in, the invariant holds,
    at most one element — of the old table — is lost. -/
theorem Raw.insertNoGrowFused_spec (c : Cfg) (hR : 0 < c.R) (t : Raw) (e : Entry) (fuse hits : Nat)
    (h : Inv c.R t) (hroom : 0 < t.main.gl) (hfresh : e.k ∉ keysOf t.ents) :
    OkOr (Raw.insertNoGrowFused c t e fuse hits) (fun r =>
      Inv c.R r.1 ∧ (optList r.2 ++ r.1.ents).Perm (e :: t.ents) ∧ e ∈ r.1.ents ∧
      (∀ x, r.2 = some x → x ∈ oldEnts t) ∧ (t.lo = none → r.2 = none)) := by
  unfold Raw.insertNoGrowFused
  have hins := HB.insertNoGrow_spec t.main e (decide (0 < hits)) h.wf hroom
  have hsafe := insert_hash_panic_safe c hR t e fuse hits h hroom hfresh
  cases hres : t.main.insertNoGrow e (decide (0 < hits)) with
  | error f => rw [hres] at hins; exact hins
  | ok m =>
    rw [hres] at hins hsafe
    simp only [OkOr] at hins
    obtain ⟨hb, he, hwf', hgl1, hgl2⟩ := hins
    dsimp only at hsafe ⊢
    cases hlo : t.lo with
    | none =>
      simp only [Option.isSome, Bool.false_eq_true, if_false, OkOr]
      have hents' : Raw.ents { main := m, lo := none } = e :: t.ents := by simp [Raw.ents, he, hlo]
      refine ⟨?_, by simp [optList, hents'], by rw [hents']; exact List.mem_cons_self,
        fun x hx => (by cases hx), fun _ => (by triv)⟩
      refine ⟨hwf', fun o ho => (by cases ho), fun o ho => (by cases ho), ?_⟩
      rw [hents']; simp only [keysOf, List.map_cons, List.nodup_cons]; exact ⟨hfresh, h.nodup⟩
    | some ol =>
      rw [hlo] at hsafe
      simp only [Option.isSome, if_true]
      cases hr : Raw.carryFused c { main := m, lo := some ol } fuse (hits - 1) with
      | error f => rw [hr] at hsafe; exact hsafe
      | ok r =>
        rw [hr] at hsafe
        simp only [OkOr] at hsafe ⊢
        obtain ⟨l1, l2, l3⟩ := carryFused_lost c { main := m, lo := some ol } fuse (hits - 1) r hr
        refine ⟨hsafe.1, hsafe.2, ?_, fun x hx => ?_, fun hc => (by cases hc)⟩
        · have : e ∈ r.1.main.ents := l2 e (by show e ∈ m.ents; rw [he]; exact List.mem_cons_self)
          unfold Raw.ents; exact List.mem_append_left _ this
        · have := l1 x hx
          simpa [oldEnts, hlo] using this

/-- `RawTable::insert` of an absent key with a fused `carry` (growing first if the table is full). -/
theorem Raw.insertFused_spec (c : Cfg) (hR : 0 < c.R) (t : Raw) (e : Entry) (fuse hits : Nat) (perm : List Nat)
    (h : Inv c.R t) (hfresh : e.k ∉ keysOf t.ents) :
    OkOrCap (Raw.insertFused c t e fuse hits perm) (fun r =>
      Inv c.R r.1 ∧ (optList r.2.1 ++ r.1.ents).Perm (e :: t.ents) ∧ e ∈ r.1.ents ∧
      (∀ x, r.2.1 = some x → x ∈ t.ents) ∧
      r.2.2.allocs ≤ 1 ∧ r.2.2.dropped = [] ∧ r.2.2.hashes = 0) := by
  unfold Raw.insertFused
  by_cases hgl : t.main.gl = 0
  · simp only [hgl, if_true]
    have hlo : t.lo = none := by
      cases hlo : t.lo with
      | none => rfl
      | some o => have := (h.head o hlo).2; omega
    simp only [hlo, Option.isSome, Bool.false_eq_true, if_false]
    unfold Raw.grow
    have hg := tryGrow_spec c t 1 perm hlo h.main_nodup
    match hgr : Raw.tryGrow c t 1 perm with
    | .error f => rw [hgr] at hg; simp only [OkOr] at hg; simp only [OkOrCap]; exact Or.inl hg
    | .ok (t1, some .overflow, c1) => simp [OkOrCap]
    | .ok (t1, some .alloc, c1) => simp [OkOrCap]
    | .ok (t1, none, c1) =>
      rw [hgr] at hg
      simp only [OkOr] at hg
      obtain ⟨g1, g2, g3, g4, g5, g6, g7, g8, g9, g10, g11, _⟩ := hg
      simp only
      have hi1 : Inv c.R t1 := by
        refine ⟨g2, fun o ho => (g5 o ho).1, fun o ho => ?_, ?_⟩
        · have := g5 o ho
          rw [this.2.1]
          have hm : 1 ≤ max 1 (ceilDiv t.main.ents.length c.R) := Nat.le_max_left _ _
          omega
        · exact (keysOf_perm g4).nodup_iff.2 h.nodup
      have hroom1 : 0 < t1.main.gl := by
        have hm : 1 ≤ max 1 (ceilDiv t.main.ents.length c.R) := Nat.le_max_left _ _
        omega
      have hfresh1 : e.k ∉ keysOf t1.ents := by
        intro hin; exact hfresh ((keysOf_perm g4).mem_iff.1 hin)
      have hs := Raw.insertNoGrowFused_spec c hR t1 e fuse hits hi1 hroom1 hfresh1
      match hin : Raw.insertNoGrowFused c t1 e fuse hits with
      | .error f => rw [hin] at hs; simp only [OkOr] at hs; simp only [OkOrCap]; exact Or.inl hs
      | .ok (t2, lost) =>
        rw [hin] at hs
        simp only [OkOr] at hs
        obtain ⟨s1, s2, s3, s4, _⟩ := hs
        simp only [OkOrCap]
        refine ⟨s1, s2.trans (List.Perm.cons e g4), s3, fun x hx => ?_, g8, g11, g9⟩
        have hx1 : x ∈ oldEnts t1 := s4 x hx
        have hx2 : x ∈ t1.ents := by
          unfold oldEnts at hx1; unfold Raw.ents
          cases hl1 : t1.lo with
          | none => rw [hl1] at hx1; cases hx1
          | some o1 => rw [hl1] at hx1; exact List.mem_append_right _ hx1
        exact g4.mem_iff.1 hx2
  · simp only [hgl, if_false]
    have hs := Raw.insertNoGrowFused_spec c hR t e fuse hits h (Nat.pos_of_ne_zero hgl) hfresh
    match hin : Raw.insertNoGrowFused c t e fuse hits with
    | .error f => rw [hin] at hs; simp only [OkOr] at hs; simp only [OkOrCap]; exact Or.inl hs
    | .ok (t2, lost) =>
      rw [hin] at hs
      simp only [OkOr] at hs
      obtain ⟨s1, s2, s3, s4, _⟩ := hs
      simp only [OkOrCap]
      refine ⟨s1, s2, s3, fun x hx => ?_, by simp, (by triv), (by triv)⟩
      have hx1 : x ∈ oldEnts t := s4 x hx
      unfold oldEnts at hx1; unfold Raw.ents
      cases hl1 : t.lo with
      | none => rw [hl1] at hx1; cases hx1
      | some o1 => rw [hl1] at hx1; exact List.mem_append_right _ hx1

/-- the contents an uninterrupted `insert(e)` leaves, as a list (in no particular order) -/
def insertedEnts (m : Map) (e : Entry) : List Entry :=
  match absOf m e.k with
  | some _ => m.ents.map (updVal e.k e.v e.vid)
  | none => e :: m.ents

/-- **`HashMap::insert` under a `Hash` that panics on its `fuse`-th invocation** (any invariant
    state, any fuse position, any oracle).  Either the fuse is never reached and the call *is* the
    ordinary `insert`; or the panic is caught and the map satisfies the invariant (so `len()` =
    iterated entries, every entry is found by `get`, the cursor agrees, later histories refine the
    reference map), nothing is handed back, every object is either still stored or was dropped
    exactly once, and the contents are what the uninterrupted call would have left minus exactly
    one element — which, for a new key, is one of the previous elements (the new one stays).
    A panic at invocation 0 (hashing the key handed in) changes nothing at all. -/
theorem insert_call_hash_panic_safe (c : Cfg) (hR : 0 < c.R) (m : Map) (e : Entry) (fuse : Nat) (o : Orc)
    (h : Inv c.R m) :
    OkOrCap (Map.insertFused c m e fuse o) (fun r =>
      Inv c.R r.1 ∧
      (r.2.2 = false → Map.insert c m e o = .ok (r.1, r.2.1)) ∧
      (r.2.2 = true →
        r.2.1.returned = [] ∧
        (idsOf r.1.ents ++ r.2.1.cost.dropped).Perm (idsOf m.ents ++ e.ids) ∧
        (fuse = 0 → r.1 = m) ∧
        (0 < fuse → ∃ lost, (lost :: r.1.ents).Perm (insertedEnts m e) ∧
            (absOf m e.k = none → lost ∈ m.ents)))) := by
  have hplain : OkOrCap (match Map.insert c m e o with
        | .error f => (.error f : Except Fault (Map × Out × Bool))
        | .ok (m', out) => .ok (m', out, false)) (fun r =>
      Inv c.R r.1 ∧
      (r.2.2 = false → Map.insert c m e o = .ok (r.1, r.2.1)) ∧
      (r.2.2 = true →
        r.2.1.returned = [] ∧
        (idsOf r.1.ents ++ r.2.1.cost.dropped).Perm (idsOf m.ents ++ e.ids) ∧
        (fuse = 0 → r.1 = m) ∧
        (0 < fuse → ∃ lost, (lost :: r.1.ents).Perm (insertedEnts m e) ∧
            (absOf m e.k = none → lost ∈ m.ents)))) := by
    have hs := Map.insert_spec c hR m e o h
    cases hi : Map.insert c m e o with
    | error f => rw [hi] at hs; exact hs
    | ok r =>
      obtain ⟨m', out⟩ := r
      rw [hi] at hs
      simp only [OkOrCap] at hs ⊢
      exact ⟨hs.1, fun _ => (by triv), fun hc => (by cases hc)⟩
  unfold Map.insertFused
  dsimp only
  by_cases hf0 : fuse = 0
  · subst hf0
    simp only [if_true, OkOrCap]
    refine ⟨h, fun hc => (by cases hc), fun _ => ⟨(by triv), ?_, fun _ => (by triv), fun hpos => (by omega)⟩⟩
    exact List.Perm.refl _
  · rw [if_neg hf0]
    have hpos : 0 < fuse := Nat.pos_of_ne_zero hf0
    have habs := find_eq_abs h e.k
    cases hf : m.find e.k with
    | none =>
      rw [hf] at habs
      simp only [Option.map] at habs
      have hfresh : e.k ∉ keysOf m.ents := (absOf_none_iff m e.k).1 habs.symm
      simp only
      have hs := Raw.insertFused_spec c hR m e (fuse - 1) o.hits o.perm h hfresh
      match hin : Raw.insertFused c m e (fuse - 1) o.hits o.perm with
      | .error f => rw [hin] at hs; exact hs
      | .ok (m2, none, gc) => exact hplain
      | .ok (m2, some lost, gc) =>
        rw [hin] at hs
        simp only [OkOrCap] at hs ⊢
        obtain ⟨s1, s2, s3, s4, s5, s6, s7⟩ := hs
        simp only [optList, List.singleton_append] at s2
        refine ⟨s1, fun hc => (by cases hc), fun _ => ⟨(by triv), ?_, fun h0 => absurd h0 hf0, fun _ => ⟨lost, ?_, fun _ => s4 lost rfl⟩⟩⟩
        · have hp := idsOf_perm s2
          simp only [idsOf_cons] at hp
          simp only [Cost.add_dropped, s6, List.nil_append, Entry.ids]
          -- I(m2) ++ [lk, lv] ~ lk :: lv :: I(m2) ~ ek :: ev :: I(m) ~ I(m) ++ [ek, ev]
          refine (List.perm_append_comm).trans ?_
          refine (hp : ([lost.kid, lost.vid] ++ idsOf m2.ents).Perm _).trans ?_
          exact (List.perm_append_comm (l₁ := [e.kid, e.vid]) (l₂ := idsOf m.ents))
        · unfold insertedEnts; rw [← habs]; exact s2
    | some p =>
      obtain ⟨loc, old⟩ := p
      rw [hf] at habs
      have hfs := (find_some_iff h e.k loc old).1 hf
      obtain ⟨hok, hlk, hor⟩ := hfs
      simp only
      rcases hor with ⟨hm, hin⟩ | ⟨hm, ol, hol, hin⟩
      · simp only [hm, if_true]; exact hplain
      · simp only [hm, Bool.false_eq_true, if_false]
        have hknin : e.k ∉ keysOf m.main.ents := by
          intro hmem; exact h.disjoint hol hmem (by rw [← hok]; exact List.mem_map_of_mem hin)
        have hinv : Inv c.R { m with lo := m.lo.map (fun ol => { ol with ents := ol.ents.map (updVal e.k e.v e.vid) }) } :=
          h.map_old (updVal e.k e.v e.vid) (updVal_k _ _ _)
        have hsplit : Raw.isSplit { m with lo := m.lo.map (fun ol => { ol with ents := ol.ents.map (updVal e.k e.v e.vid) }) } = true := by
          simp [Raw.isSplit, hol]
        have hdb : (c.debug && !Raw.isSplit { m with lo := m.lo.map (fun ol => { ol with ents := ol.ents.map (updVal e.k e.v e.vid) }) }) = false := by
          rw [hsplit]; simp
        have hm1 : ({ m with lo := m.lo.map (fun ol => { ol with ents := ol.ents.map (fun x =>
                  if x.k == e.k then { x with v := e.v, vid := e.vid } else x) }) } : Raw)
            = { m with lo := m.lo.map (fun ol => { ol with ents := ol.ents.map (updVal e.k e.v e.vid) }) } := rfl
        rw [hm1]
        simp only [hdb, Bool.false_eq_true, if_false]
        have hcs := carry_hash_panic_safe_inv c hR _ (fuse - 1) o.hits hinv
        match hcr : Raw.carryFused c { m with lo := m.lo.map (fun ol => { ol with ents := ol.ents.map (updVal e.k e.v e.vid) }) } (fuse - 1) o.hits with
        | .error f => rw [hcr] at hcs; simp only [OkOr] at hcs; simp only [OkOrCap]; exact Or.inl hcs
        | .ok (m2, none) => exact hplain
        | .ok (m2, some lost) =>
          rw [hcr] at hcs
          simp only [OkOr] at hcs
          simp only [OkOrCap]
          obtain ⟨c1, c2, _⟩ := hcs
          simp only [optList, List.singleton_append] at c2
          have hents1 : Raw.ents { m with lo := m.lo.map (fun ol => { ol with ents := ol.ents.map (updVal e.k e.v e.vid) }) }
              = m.main.ents ++ ol.ents.map (updVal e.k e.v e.vid) := by simp [Raw.ents, hol]
          have hents0 : m.ents = m.main.ents ++ ol.ents := by simp [Raw.ents, hol]
          refine ⟨c1, fun hc => (by cases hc), fun _ => ⟨(by triv), ?_, fun h0 => absurd h0 hf0, fun _ => ⟨lost, ?_, fun hn => ?_⟩⟩⟩
          · have hup := idsOf_updVal (h.old_nodup hol) hin e.v e.vid
            rw [hok] at hup
            have hp2 := idsOf_perm c2
            rw [hents1, idsOf_append, idsOf_cons] at hp2
            rw [hents0, idsOf_append]
            simp only [Entry.ids]
            have h1 : (idsOf (ol.ents.map (updVal e.k e.v e.vid)) ++ [old.vid]).Perm (idsOf ol.ents ++ [e.vid]) := by
              refine (List.perm_append_comm).trans ?_
              refine hup.trans ?_
              exact (List.perm_append_comm (l₁ := [e.vid]) (l₂ := idsOf ol.ents))
            generalize idsOf (ol.ents.map (updVal e.k e.v e.vid)) = A at h1 hp2 ⊢
            generalize idsOf ol.ents = B at h1 ⊢
            generalize idsOf m.main.ents = C at hp2 ⊢
            generalize idsOf m2.ents = D at hp2 ⊢
            -- D ++ [ek, ov, lk, lv] ~ (lk :: lv :: D) ++ [ek, ov] ~ (C ++ A) ++ [ek, ov] ~ C ++ (A ++ [ov]) ++ [ek]
            --   ~ C ++ (B ++ [ev]) ++ [ek] ~ (C ++ B) ++ [ek, ev]
            have s0 : (D ++ [e.kid, old.vid, lost.kid, lost.vid]).Perm ((lost.kid :: lost.vid :: D) ++ [e.kid, old.vid]) := by
              have : (D ++ ([e.kid, old.vid] ++ [lost.kid, lost.vid])).Perm (([lost.kid, lost.vid] ++ D) ++ [e.kid, old.vid]) := by
                refine (List.Perm.append_left D (List.perm_append_comm)).trans ?_
                rw [← List.append_assoc]
                exact List.Perm.append_right _ (List.perm_append_comm)
              simpa using this
            have s1 : ((lost.kid :: lost.vid :: D) ++ [e.kid, old.vid]).Perm ((C ++ A) ++ [e.kid, old.vid]) :=
              List.Perm.append_right _ hp2
            have s2 : ((C ++ A) ++ [e.kid, old.vid]).Perm (C ++ (A ++ [old.vid]) ++ [e.kid]) := by
              simp only [List.append_assoc]
              apply List.Perm.append_left
              apply List.Perm.append_left
              exact List.Perm.swap old.vid e.kid []
            have s3 : (C ++ (A ++ [old.vid]) ++ [e.kid]).Perm (C ++ (B ++ [e.vid]) ++ [e.kid]) :=
              List.Perm.append_right _ (List.Perm.append_left _ h1)
            have s4 : (C ++ (B ++ [e.vid]) ++ [e.kid]).Perm ((C ++ B) ++ [e.kid, e.vid]) := by
              simp only [List.append_assoc]
              apply List.Perm.append_left
              apply List.Perm.append_left
              exact List.Perm.swap e.kid e.vid []
            exact s0.trans (s1.trans (s2.trans (s3.trans s4)))
          · unfold insertedEnts; rw [← habs]
            simp only [Option.map]
            rw [hents0, List.map_append, map_updVal_absent hknin, ← hents1]
            exact c2
          · rw [← habs] at hn; cases hn

/-- **`retain` whose closure panics on entering its `fuse`-th call**, as the lock-step replays it:
    the fuse fires iff the map has that many elements; the visits before it completed, nothing
    else was touched; the invariant holds. -/
theorem retain_call_closure_panic_safe {R : Nat} (hR : 0 < R) (m : Map) (p : Pred) (fuse : Nat) (o : Orc)
    (h : Inv R m) :
    OkOr (Map.retainFusedOut m p fuse o) (fun r =>
      Inv R r.1 ∧ absOf r.1 = specRetain p (absOf m) (o.calls.take fuse) ∧
      (r.2.2 = true ↔ fuse < o.calls.length) ∧ r.2.1.returned = []) := by
  unfold Map.retainFusedOut
  have hs := retain_closure_panic_safe hR m p fuse o h
  cases hr : Map.retainFused m p fuse o with
  | error f => rw [hr] at hs; exact hs
  | ok r =>
    obtain ⟨m', cost⟩ := r
    rw [hr] at hs
    simp only [OkOr] at hs ⊢
    exact ⟨hs.1, hs.2, by simp, (by triv)⟩

/-- **`entry(k)` + `replace_entry_with` with a panicking closure**, as the lock-step replays it:
    the closure runs iff the key is present; then exactly that element is lost (dropped by the
    unwinding together with the key handed to `entry`), and every object is stored or dropped
    exactly once; the invariant holds. -/
theorem replace_call_closure_panic_safe {R : Nat} (hR : 0 < R) (m : Map) (k kid : Nat) (o : Orc) (h : Inv R m) :
    OkOr (Map.replaceFusedOut m k kid o) (fun r =>
      Inv R r.1 ∧ (r.2.2 = true ↔ (absOf m k).isSome) ∧
      (∀ k', absOf r.1 k' = specDel (absOf m) k k') ∧
      (idsOf r.1.ents ++ r.2.1.cost.dropped).Perm (kid :: idsOf m.ents)) := by
  unfold Map.replaceFusedOut
  obtain ⟨m', lost, hr, hi, hp, hl⟩ := replace_closure_panic_safe hR m k o h
  rw [hr]
  have habs := find_eq_abs h k
  cases lost with
  | none =>
    simp only [OkOr]
    have hn : absOf m k = none := hl.1 rfl
    simp only [optList, List.nil_append] at hp
    refine ⟨hi, by simp [hn], fun k' => ?_, ?_⟩
    · rw [absOf_perm hp h.nodup k']
      unfold specDel
      by_cases hk : k' = k
      · subst hk; simp [hn]
      · simp [hk]
    · have := idsOf_perm hp
      exact (List.perm_append_comm).trans (List.Perm.cons kid this)
  | some e =>
    simp only [OkOr]
    have hsome : absOf m k ≠ none := fun hc => by have := hl.2 hc; cases this
    simp only [optList, List.singleton_append] at hp
    have hek : e.k = k := by
      -- the element erased is the one `find` returned
      unfold Map.replaceFused at hr
      cases hf : m.find k with
      | none => rw [hf] at hr; cases hr
      | some q =>
        obtain ⟨loc, e'⟩ := q
        rw [hf] at hr
        dsimp only at hr
        cases he : Raw.eraseAt m loc (decide (0 < o.empt)) with
        | error f => rw [he] at hr; cases hr
        | ok z =>
          rw [he] at hr
          cases hr
          exact ((find_some_iff h k loc e).1 hf).1
    refine ⟨hi, ?_, fun k' => ?_, ?_⟩
    · constructor
      · intro _; cases hq : absOf m k with
        | none => exact absurd hq hsome
        | some _ => rfl
      · intro _; triv
    · rw [← hek]; exact abs_of_cons_perm hp h.nodup k'
    · have := idsOf_perm hp
      rw [idsOf_cons] at this
      simp only [Entry.ids]
      -- I(m') ++ [kid, ek, ev] ~ kid :: (ek :: ev :: I(m')) ~ kid :: I(m)
      refine (List.perm_append_comm).trans ?_
      exact List.Perm.cons kid this

/-- non-vacuity: a fuse at invocation 2 of an inserting call fires inside `carry`, after the new
    element and one relocated element went in; the element in flight (key 2, objects 3 and 4) is lost -/
example :
    let m : Map := { main := { buckets := 16, ents := [], gl := 14 },
                     lo := some { buckets := 4, ents := [⟨1, 1, 1, 2⟩, ⟨2, 3, 1, 4⟩, ⟨3, 5, 1, 6⟩], cursor := 3 } }
    (match Map.insertFused { R := 8 } m ⟨9, 7, 0, 8⟩ 2 {} with
     | .ok (m', out, fired) => (fired, m'.main.ents.map (·.k), (oldList m'.lo).map (·.k), out.cost.dropped)
     | .error _ => (false, [], [], [])) = (true, [1, 9], [3], [3, 4]) := by decide

/-- keys that a `drain_filter` loop does not visit stay where they are -/
theorem drainFilterLoop_frame {R : Nat} (hR : 0 < R) (p : Pred) (nMain : Nat) :
    ∀ (ks : List Nat) (i : Nat) (m : Map) (empt : Nat) (take : Option Nat) (acc : List Entry) (cost : Cost)
      (r : Map × List Entry × Cost × List Nat),
      Inv R m → ks.Nodup → Placed nMain i ks m →
      Map.drainFilterLoop p nMain ks i m empt take acc cost = .ok r →
      ∀ (extra : List Nat) (j : Nat), (∀ k ∈ ks, k ∉ extra) → Placed nMain j extra m → Placed nMain j extra r.1 := by
  intro ks
  induction ks with
  | nil =>
    intro i m empt take acc cost r _ _ _ hr extra j _ hp
    unfold Map.drainFilterLoop at hr
    cases hr; exact hp
  | cons k rest ih =>
    intro i m empt take acc cost r h hnd ⟨hp1, hp2⟩ hr extra j hdis hpe
    rw [List.nodup_cons] at hnd
    unfold Map.drainFilterLoop at hr
    by_cases ht0 : take = some 0
    · simp only [ht0, if_true] at hr
      cases hr; exact hpe
    · simp only [ht0, if_false] at hr
      obtain ⟨b1, b2, b3, b4, b5, b6, b7⟩ := bump_spec h p.add hp1
      have hkx : k ∉ extra := hdis k List.mem_cons_self
      have hdis' : ∀ k' ∈ rest, k' ∉ extra := fun k' hk' => hdis k' (List.mem_cons_of_mem _ hk')
      have hplaced1 : Placed nMain (i + 1) rest (Map.bump m (Map.locOfIndex nMain i k) p.add) :=
        Placed.of_keep k (fun k' _ hin => by rw [b2]; exact hin) (fun k' _ hin => by rw [b3]; exact hin)
          rest (i + 1) hnd.1 hp2
      have hpe1 : Placed nMain j extra (Map.bump m (Map.locOfIndex nMain i k) p.add) :=
        Placed.of_keep k (fun k' _ hin => by rw [b2]; exact hin) (fun k' _ hin => by rw [b3]; exact hin)
          extra j hkx hpe
      cases htest : p.test k with
      | false =>
        simp only [htest, Bool.false_eq_true, if_false] at hr
        exact ih (i + 1) _ empt take acc cost r b1 hnd.2 hplaced1 hr extra j hdis' hpe1
      | true =>
        simp only [htest, if_true] at hr
        have hp1' : PlacedAt nMain i k (Map.bump m (Map.locOfIndex nMain i k) p.add) := by
          unfold PlacedAt at hp1 ⊢
          split
          · rename_i hlt; simp only [hlt, if_true] at hp1; rw [b2]; exact hp1
          · rename_i hlt; simp only [hlt, if_false] at hp1; rw [b3]; exact hp1
        obtain ⟨e1, hf1⟩ := find_of_placed b1 hp1'
        obtain ⟨m2, rc, he, hi2, _⟩ := removeAt_spec hR b1 hf1 (decide (0 < empt))
        rw [he] at hr
        dsimp only at hr
        have htab := removeAt_tables he
        have hlk : (Map.locOfIndex nMain i k).k = k := rfl
        have hplaced2 : Placed nMain (i + 1) rest m2 :=
          Placed.of_keep k (fun k' hk' hin => htab.1 k' (by rw [hlk]; exact hk') hin)
            (fun k' hk' hin => htab.2 k' (by rw [hlk]; exact hk') hin) rest (i + 1) hnd.1 hplaced1
        have hpe2 : Placed nMain j extra m2 :=
          Placed.of_keep k (fun k' hk' hin => htab.1 k' (by rw [hlk]; exact hk') hin)
            (fun k' hk' hin => htab.2 k' (by rw [hlk]; exact hk') hin) extra j hkx hpe1
        exact ih (i + 1) m2 _ _ _ _ r hi2 hnd.2 hplaced2 hr extra j hdis' hpe2

theorem placed_suffix {nMain : Nat} {m : Raw} : ∀ (pre suf : List Nat) (i : Nat),
    Placed nMain i (pre ++ suf) m → Placed nMain (i + pre.length) suf m := by
  intro pre
  induction pre with
  | nil => intro suf i h; simpa using h
  | cons a rest ih =>
    intro suf i h
    have := ih suf (i + 1) h.2
    simp only [List.length_cons]
    rw [show i + (rest.length + 1) = i + 1 + rest.length by omega]
    exact this

/-- **`drain_filter` whose closure panics on entering its `fuse`-th call** (pulled until then; the
    panic is caught).  The fuse fires iff the map has that many elements; the invariant holds; the
    element the closure panicked on is exactly as it was; every other element was visited once:
    the matching ones are gone, the others carry the closure's mutation.  Nothing is handed back
    (what had been yielded is dropped by the unwinding). -/
theorem drain_filter_call_closure_panic_safe {R : Nat} (hR : 0 < R) (m : Map) (p : Pred) (fuse : Nat) (o : Orc)
    (h : Inv R m) :
    OkOr (Map.drainFilterFusedOut m p fuse o) (fun r =>
      Inv R r.1 ∧ (r.2.2 = true ↔ fuse < o.calls.length) ∧ r.2.1.returned = [] ∧
      (∀ k, absOf r.1 k =
        if o.calls[fuse]? = some k then absOf m k
        else (if p.test k then none else (absOf m k).map (bumpE k p.add)))) := by
  unfold Map.drainFilterFusedOut
  cases hok : Map.iterOrderOk m o.calls with
  | false => simp [OkOr]
  | true =>
    simp only [Bool.not_true, Bool.false_eq_true, if_false]
    obtain ⟨hpl, hnd, hcov⟩ := placed_of_iterOrderOk m o.calls h hok
    -- the list splits around the panicking call
    have hsplit : o.calls = o.calls.take fuse ++ o.calls.drop fuse := (List.take_append_drop _ _).symm
    have hndpre : (o.calls.take fuse).Nodup := List.Nodup.sublist (List.take_sublist _ _) hnd
    have hndpost : (o.calls.drop (fuse + 1)).Nodup := List.Nodup.sublist (List.drop_sublist _ _) hnd
    have hplpre : Placed m.main.ents.length 0 (o.calls.take fuse) m :=
      placed_prefix (o.calls.take fuse) (o.calls.drop fuse) 0 (by rw [← hsplit]; exact hpl)
    have hsplit1 : o.calls = o.calls.take (fuse + 1) ++ o.calls.drop (fuse + 1) := (List.take_append_drop _ _).symm
    have hplpost0 : Placed m.main.ents.length (0 + (o.calls.take (fuse + 1)).length) (o.calls.drop (fuse + 1)) m :=
      placed_suffix (o.calls.take (fuse + 1)) (o.calls.drop (fuse + 1)) 0 (by rw [← hsplit1]; exact hpl)
    obtain ⟨m1, ys1, c1, ro1, pre1, hr1, hks1, hi1, ha1, _, _, hnone1, _, _⟩ :=
      drainFilterLoop_spec hR p m.main.ents.length (o.calls.take fuse) 0 m o.empt none [] {} h hndpre hplpre
    have hro1 : ro1 = [] := hnone1 rfl
    rw [hro1, List.append_nil] at hks1
    rw [hr1]
    dsimp only
    -- disjointness of the two parts
    have hdisj : ∀ k ∈ o.calls.take fuse, k ∉ o.calls.drop (fuse + 1) := by
      intro k hk1 hk2
      have hnd' := hnd
      rw [hsplit] at hnd'
      have hk2' : k ∈ o.calls.drop fuse := (List.drop_sublist_drop_left o.calls (Nat.le_succ fuse)).subset hk2
      exact (List.nodup_append.1 hnd').2.2 k hk1 k hk2' rfl
    by_cases hlt : fuse < o.calls.length
    · -- the fuse fires
      have hlen1 : (o.calls.take (fuse + 1)).length = fuse + 1 := by rw [List.length_take]; omega
      rw [hlen1, Nat.zero_add] at hplpost0
      have hplpost : Placed m.main.ents.length (fuse + 1) (o.calls.drop (fuse + 1)) m1 :=
        drainFilterLoop_frame hR p m.main.ents.length (o.calls.take fuse) 0 m o.empt none [] {} _ h hndpre hplpre hr1
          (o.calls.drop (fuse + 1)) (fuse + 1) hdisj hplpost0
      obtain ⟨m2, ys2, c2, ro2, pre2, hr2, hks2, hi2, ha2, _, _, hnone2, _, _⟩ :=
        drainFilterLoop_spec hR p m.main.ents.length (o.calls.drop (fuse + 1)) (fuse + 1) m1
          (o.empt - (ys1.filter (fun e => (m.main.find? e.k).isSome)).length) none [] {} hi1 hndpost hplpost
      have hro2 : ro2 = [] := hnone2 rfl
      rw [hro2, List.append_nil] at hks2
      rw [hr2]
      simp only [OkOr]
      refine ⟨hi2, by simp [hlt], (by triv), fun k => ?_⟩
      rw [ha2, ha1, ← hks1, ← hks2]
      have hget : o.calls[fuse]? = some (o.calls[fuse]'hlt) := List.getElem?_eq_getElem hlt
      -- where `k` sits relative to the call list
      have hmid : o.calls.drop fuse = o.calls[fuse]'hlt :: o.calls.drop (fuse + 1) := (List.drop_eq_getElem_cons hlt)
      have hkj_pre : o.calls[fuse]'hlt ∉ o.calls.take fuse := by
        intro hin
        have hnd' := hnd
        rw [hsplit] at hnd'
        exact (List.nodup_append.1 hnd').2.2 _ hin _ (by rw [hmid]; exact List.mem_cons_self) rfl
      have hkj_post : o.calls[fuse]'hlt ∉ o.calls.drop (fuse + 1) := by
        intro hin
        have hnd' : (o.calls.drop fuse).Nodup := List.Nodup.sublist (List.drop_sublist _ _) hnd
        rw [hmid, List.nodup_cons] at hnd'
        exact hnd'.1 hin
      unfold specDrain
      by_cases hkj : k = o.calls[fuse]'hlt
      · subst hkj
        simp [hget, hkj_pre, hkj_post]
      · have hne : ¬ (o.calls[fuse]? = some k) := by
          rw [hget]; intro hc; injection hc with hc; exact hkj hc.symm
        simp only [hne, if_false]
        by_cases hpost : k ∈ o.calls.drop (fuse + 1)
        · have hnpre : k ∉ o.calls.take fuse := fun hin => hdisj k hin hpost
          simp [hpost, hnpre]
        · simp only [hpost, if_false]
          by_cases hpre : k ∈ o.calls.take fuse
          · simp [hpre]
          · simp only [hpre, if_false]
            -- not visited at all, and not the panicking key: `k` is not in the map
            have hnin : k ∉ o.calls := by
              intro hin
              rw [hsplit, List.mem_append, hmid, List.mem_cons] at hin
              rcases hin with h1 | h2 | h3
              · exact hpre h1
              · exact hkj h2
              · exact hpost h3
            have : absOf m k = none := (absOf_none_iff m k).2 (fun hin => hnin ((hcov k).2 hin))
            rw [this]; split <;> rfl
    · -- the fuse is never reached: an ordinary drain_filter run to its end
      have hge : o.calls.length ≤ fuse := Nat.le_of_not_lt hlt
      have hdrop : o.calls.drop (fuse + 1) = [] := List.drop_eq_nil_of_le (by omega)
      have htake : o.calls.take fuse = o.calls := List.take_of_length_le hge
      rw [hdrop]
      simp only [Map.drainFilterLoop, OkOr]
      refine ⟨hi1, by simp [hlt], (by triv), fun k => ?_⟩
      rw [ha1, ← hks1, htake]
      have hget : o.calls[fuse]? = none := List.getElem?_eq_none hge
      simp only [hget, reduceCtorEq, if_false]
      unfold specDrain
      by_cases hk : k ∈ o.calls
      · simp [hk]
      · simp only [hk, if_false]
        have : absOf m k = none := (absOf_none_iff m k).2 (fun hin => hk ((hcov k).2 hin))
        rw [this]; split <;> rfl

/-- **A panicking `or_insert_with*` / `and_modify` closure changes nothing.**  The closure of an inserting entry
    call is reached exactly when the key is absent, that of a modifying call exactly when it is present; the map
    afterwards is the map before (so `Inv`, contents, both tables, the cursor), and the only object the unwinding
    drops is the key handed to `entry` — no element is lost, which is stronger than the "at most the element handed
    to the closure" C07 allows. -/
theorem entry_call_closure_panic_safe {R : Nat} (m : Map) (k kid : Nat) (raw inserting : Bool) (h : Inv R m) :
    let r := Map.entryFused m k kid raw inserting
    r.1 = m ∧ Inv R r.1 ∧
    (r.2.2 = true ↔ (if inserting then absOf m k = none else (absOf m k).isSome)) ∧
    (∀ k', absOf r.1 k' = absOf m k') ∧
    (idsOf r.1.ents ++ r.2.1.cost.dropped).Perm (idsOf m.ents ++ (if raw then [] else [kid])) := by
  have habs := find_eq_abs h k
  refine ⟨rfl, h, ?_, fun _ => rfl, List.Perm.refl _⟩
  simp only [Map.entryFused]
  cases hf : m.find k with
  | none =>
    rw [hf] at habs
    simp only [Option.map_none] at habs
    cases inserting <;> simp [← habs]
  | some p =>
    rw [hf] at habs
    simp only [Option.map_some] at habs
    cases inserting <;> simp [← habs]

/-- **A panicking `Eq` changes nothing**: whichever of `insert`, `remove`, `get`, `get_mut`, `entry(k).or_insert(v)`
    it interrupts, the map afterwards is the map before — every element still there, found, with the value it had —
    and the only objects dropped are the ones the caller passed by value (none for the lookups and `remove`). -/
theorem eq_panic_safe {R : Nat} (c : Cfg) (kind : Nat) (m : Map) (e : Entry) (o : Orc) (h : Inv R m) :
    ∃ out, Map.eqFused c kind m e true o = .ok (m, out, true) ∧ Inv R m ∧
      out.returned = [] ∧ out.cost.allocs = 0 ∧ out.cost.moved = 0 ∧
      (out.cost.dropped = e.ids ∨ out.cost.dropped = []) ∧
      (idsOf m.ents ++ out.returned ++ out.cost.dropped).Perm (idsOf m.ents ++ (if kind = 0 ∨ kind = 3 then e.ids else [])) := by
  unfold Map.eqFused
  simp only [if_true]
  refine ⟨_, rfl, h, rfl, rfl, rfl, ?_, ?_⟩
  · by_cases hk : kind = 0 ∨ kind = 3 <;> simp [hk]
  · simp

end Griddle.C07
