/-
  C08 — Every iterator yields each live element exactly once, with exact length.

  In the model an iterator is the sequence it yields.  `iter()` (and `iter_mut`, `keys`, `values`,
  `values_mut`: projections of the same sequence, so `keys()` and `values()` enumerate in the same
  order by construction) visits the main table in *some* order (oracle) and then the old table in
  cursor order — `iterOrderOk` is exactly that shape, which the lock-step validates against the
  order the real iterator produced.  The theorems: any sequence of that shape is a permutation of
  the stored entries (each exactly once, nothing else), its length is `len()` (so the remaining
  length after `j` steps is `len() - j`), and `drain` — consumed, dropped early or forgotten, at
  any prefix — leaves an empty map satisfying the invariant (hence fully usable, by C01).
-/
import Batteries.Data.List.Perm
import GriddleModel.Lemmas.Steps
namespace Griddle.C08

/-- looking every key of a duplicate-free table up, in table order, reproduces the table -/
theorem filterMap_find_keys {es : List Entry} (hnd : (keysOf es).Nodup) :
    (keysOf es).filterMap (fun k => es.find? (fun e => e.k == k)) = es := by
  induction es with
  | nil => rfl
  | cons a rest ih =>
    simp only [keysOf, List.map_cons, List.nodup_cons] at hnd
    have hrest : (keysOf rest).filterMap (fun k => (a :: rest).find? (fun e => e.k == k))
        = (keysOf rest).filterMap (fun k => rest.find? (fun e => e.k == k)) := by
      apply List.filterMap_congr
      intro k hk
      have hne : a.k ≠ k := by intro heq; apply hnd.1; rw [heq]; exact hk
      have : (a.k == k) = false := by simpa using hne
      simp only [List.find?, this]
    show (a.k :: keysOf rest).filterMap (fun k => (a :: rest).find? (fun e => e.k == k)) = a :: rest
    rw [List.filterMap_cons]
    have hself : (a :: rest).find? (fun e => e.k == a.k) = some a := by simp [List.find?]
    rw [hself]
    simp only
    rw [hrest, ih hnd.2]

/-- a duplicate-free list of keys of `es`, as long as `es`, looks up to a permutation of `es` -/
theorem filterMap_find_perm {es : List Entry} {ks : List Nat} (hnd : (keysOf es).Nodup)
    (hks : ks.Nodup) (hlen : ks.length = es.length)
    (hall : ∀ k ∈ ks, (es.find? (fun e => e.k == k)).isSome) :
    (ks.filterMap (fun k => es.find? (fun e => e.k == k))).Perm es := by
  have hR : (ks.filterMap (fun k => es.find? (fun e => e.k == k))).Nodup := by
    apply List.Nodup.filterMap _ hks
    intro a a' b hb hb'
    have h1 := find_key_some (Option.mem_def.1 hb)
    have h2 := find_key_some (Option.mem_def.1 hb')
    rw [← h1.2, ← h2.2]
  have hsub : (ks.filterMap (fun k => es.find? (fun e => e.k == k))) ⊆ es := by
    intro x hx
    obtain ⟨k, _, hk⟩ := List.mem_filterMap.1 hx
    exact (find_key_some hk).1
  have hlen' : (ks.filterMap (fun k => es.find? (fun e => e.k == k))).length = ks.length := by
    clear hR hsub hks hlen
    induction ks with
    | nil => rfl
    | cons k rest ih =>
      have := hall k (List.mem_cons_self)
      cases hf : es.find? (fun e => e.k == k) with
      | none => rw [hf] at this; cases this
      | some x =>
        simp only [List.filterMap_cons, hf, List.length_cons]
        rw [ih (fun k' hk' => hall k' (List.mem_cons_of_mem _ hk'))]
  exact (List.subperm_of_subset hR hsub).perm_of_length_le (by omega)

/-- **`iter()` yields each stored entry exactly once and nothing else**, in every resize phase:
    any visiting order of the shape the real iterator has is a permutation of the contents. -/
theorem iter_perm {R : Nat} (m : Map) (order : List Nat) (h : Inv R m)
    (hok : Map.iterOrderOk m order = true) :
    (order.filterMap (fun k => (m.find k).map (·.2))).Perm m.ents := by
  unfold Map.iterOrderOk at hok
  simp only [Bool.and_eq_true, decide_eq_true_eq, List.all_eq_true] at hok
  obtain ⟨⟨⟨hlen, hnd⟩, hall⟩, hold⟩ := hok
  have hsplit : order = order.take m.main.ents.length ++ order.drop m.main.ents.length :=
    (List.take_append_drop _ _).symm
  rw [hsplit, List.filterMap_append]
  -- main part: `find` answers from the main table
  have hmain : (order.take m.main.ents.length).filterMap (fun k => (m.find k).map (·.2))
      = (order.take m.main.ents.length).filterMap (fun k => m.main.ents.find? (fun e => e.k == k)) := by
    apply List.filterMap_congr
    intro k hk
    have := hall k hk
    unfold Raw.find
    unfold HB.find? at this ⊢
    cases hf : m.main.ents.find? (fun e => e.k == k) with
    | none => rw [hf] at this; cases this
    | some x => simp
  rw [hmain]
  have hp1 := filterMap_find_perm h.main_nodup hnd hlen hall
  -- old part: the old table, in cursor order
  cases hlo : m.lo with
  | none =>
    simp only [hlo] at hold
    rw [hold]
    simp only [List.filterMap_nil, List.append_nil, Raw.ents, hlo]
    exact hp1
  | some o =>
    simp only [hlo] at hold
    have hag := h.agree o hlo
    rw [hag, List.take_length] at hold
    rw [hold]
    have hold2 : (o.ents.map (·.k)).filterMap (fun k => (m.find k).map (·.2)) = o.ents := by
      have : (o.ents.map (·.k)).filterMap (fun k => (m.find k).map (·.2))
          = (keysOf o.ents).filterMap (fun k => o.ents.find? (fun e => e.k == k)) := by
        apply List.filterMap_congr
        intro k hk
        have hnot : m.main.ents.find? (fun e => e.k == k) = none := by
          rw [find_key_none]; intro hm; exact h.disjoint hlo hm hk
        unfold Raw.find HB.find?
        simp only [hnot, hlo]
        cases o.ents.find? (fun e => e.k == k) <;> rfl
      rw [this, filterMap_find_keys (h.old_nodup hlo)]
    rw [hold2]
    simp only [Raw.ents, hlo]
    exact List.Perm.append_right _ hp1

/-- **`drain()` / `into_iter()` visit each stored entry exactly once** too: their order (old table
    in cursor order first, then some enumeration of the main table) is a permutation of the contents. -/
theorem drain_perm {R : Nat} (m : Map) (order : List Nat) (h : Inv R m)
    (hok : Map.drainOrderOk m order = true) :
    (order.filterMap (fun k => (m.find k).map (·.2))).Perm m.ents := by
  unfold Map.drainOrderOk at hok
  simp only [Bool.and_eq_true, decide_eq_true_eq, List.all_eq_true] at hok
  obtain ⟨⟨⟨hold, hlen⟩, hnd⟩, hall⟩ := hok
  -- the main part: `find` answers from the main table
  have hmainpart : ∀ (part : List Nat), (∀ k ∈ part, (m.main.find? k).isSome = true) →
      part.filterMap (fun k => (m.find k).map (·.2))
        = part.filterMap (fun k => m.main.ents.find? (fun e => e.k == k)) := by
    intro part hp
    apply List.filterMap_congr
    intro k hk
    have := hp k hk
    unfold Raw.find
    unfold HB.find? at this ⊢
    cases hf : m.main.ents.find? (fun e => e.k == k) with
    | none => rw [hf] at this; cases this
    | some x => simp
  cases hlo : m.lo with
  | none =>
    simp only [hlo, List.length_nil, List.take_zero, List.drop_zero] at hold hlen hnd hall
    rw [hmainpart order hall]
    simp only [Raw.ents, hlo, List.append_nil]
    exact filterMap_find_perm h.main_nodup hnd hlen hall
  | some o =>
    simp only [hlo] at hold hlen hnd hall
    have hag := h.agree o hlo
    rw [hag, List.take_length] at hold hlen hnd hall
    have hsplit : order = order.take (o.ents.map (·.k)).length ++ order.drop (o.ents.map (·.k)).length :=
      (List.take_append_drop _ _).symm
    rw [hsplit, List.filterMap_append, hold, hmainpart _ hall]
    have hold2 : (o.ents.map (·.k)).filterMap (fun k => (m.find k).map (·.2)) = o.ents := by
      have : (o.ents.map (·.k)).filterMap (fun k => (m.find k).map (·.2))
          = (keysOf o.ents).filterMap (fun k => o.ents.find? (fun e => e.k == k)) := by
        apply List.filterMap_congr
        intro k hk
        have hnot : m.main.ents.find? (fun e => e.k == k) = none := by
          rw [find_key_none]; intro hm; exact h.disjoint hlo hm hk
        unfold Raw.find HB.find?
        simp only [hnot, hlo]
        cases o.ents.find? (fun e => e.k == k) <;> rfl
      rw [this, filterMap_find_keys (h.old_nodup hlo)]
    rw [hold2]
    simp only [Raw.ents, hlo]
    have hp1 := filterMap_find_perm h.main_nodup hnd hlen hall
    exact (List.Perm.append_left _ hp1).trans List.perm_append_comm

/-- exact length: the iterator yields `len()` items, so after `j` calls `len() - j` remain
    (`size_hint` / `len()` of the iterator), and nothing after that -/
theorem iter_length {R : Nat} (m : Map) (order : List Nat) (h : Inv R m)
    (hok : Map.iterOrderOk m order = true) (j : Nat) :
    ((order.filterMap (fun k => (m.find k).map (·.2))).drop j).length = m.len - j := by
  rw [List.length_drop, (iter_perm m order h hok).length_eq, Raw.len_eq]

/-- the sequence `Map.iter` returns is the one characterised above -/
theorem iter_returns {R : Nat} (m : Map) (o : Orc) (h : Inv R m) :
    OkOr (Map.iter m o) (fun out => ∃ es, out.ret = .ents es ∧ es.Perm m.ents ∧ es.length = m.len) := by
  unfold Map.iter
  cases hok : Map.iterOrderOk m o.calls with
  | false => simp [OkOr]
  | true =>
    simp only [Bool.not_true, Bool.false_eq_true, if_false, OkOr]
    have hp := iter_perm m o.calls h hok
    exact ⟨_, rfl, hp, by rw [hp.length_eq, Raw.len_eq]⟩

theorem overCount_false {R : Nat} (m : Map) (h : Inv R m) : Map.overCount m = false := by
  unfold Map.overCount
  cases hlo : m.lo with
  | none => rfl
  | some ol => simp [h.agree ol hlo]

/-- **After `drain` the map is empty and usable** — whether the iterator was consumed, dropped
    early or forgotten, at any prefix `take`. -/
theorem drain_leaves_empty {R : Nat} (m : Map) (take : Nat) (forget : Bool) (o : Orc) (h : Inv R m) :
    OkOr (Map.drain m take forget o) (fun r =>
      Inv R r.1 ∧ r.1.ents = [] ∧ r.1.lo = none ∧ r.1.len = 0) := by
  unfold Map.drain
  split
  · simp [OkOr]
  · split
    · -- the over-read guard: unreachable under the agreement invariant
      rename_i hbad
      rw [overCount_false m h] at hbad
      cases hbad
    · dsimp only
      cases forget
      · simp only [Bool.false_eq_true, if_false, OkOr]
        refine ⟨⟨?_, ?_, ?_, ?_⟩, ?_, trivial, ?_⟩
        · simp [HB.clearNoDrop, HB.WF]
        · intro o' ho'; cases ho'
        · intro o' ho'; cases ho'
        · simp [Raw.ents, HB.clearNoDrop, keysOf]
        · simp [Raw.ents, HB.clearNoDrop]
        · simp [Raw.len, HB.clearNoDrop]
      · simp only [if_true, OkOr]
        refine ⟨⟨?_, ?_, ?_, ?_⟩, ?_, trivial, ?_⟩
        · simp [HB.new, HB.WF, fullCap]
        · intro o' ho'; cases ho'
        · intro o' ho'; cases ho'
        · simp [Raw.ents, HB.new, keysOf]
        · simp [Raw.ents, HB.new]
        · simp [Raw.len, HB.new]

/-- what `drain` yields is a prefix of a permutation of the contents: old table (cursor order)
    first, then the main table; its length is `min take len()` -/
theorem drain_yields {R : Nat} (m : Map) (take : Nat) (forget : Bool) (o : Orc) (h : Inv R m) :
    OkOr (Map.drain m take forget o) (fun r =>
      ∃ all : List Entry, (∀ e ∈ all, e ∈ m.ents) ∧ r.2.ret = .ents (all.take take)) := by
  unfold Map.drain
  split
  · simp [OkOr]
  · split
    · rename_i hbad
      rw [overCount_false m h] at hbad
      cases hbad
    · dsimp only
      have hmem : ∀ e ∈ o.calls.filterMap (fun k => (m.find k).map (·.2)), e ∈ m.ents := by
        intro e he
        obtain ⟨k, _, hk⟩ := List.mem_filterMap.1 he
        cases hf : m.find k with
        | none => rw [hf] at hk; cases hk
        | some p =>
          obtain ⟨loc, e'⟩ := p
          rw [hf] at hk; simp at hk; subst hk
          exact (find_loc h hf).2.2
      cases forget <;> simp only [Bool.false_eq_true, if_false, if_true, OkOr] <;> exact ⟨_, hmem, rfl⟩

/-- `into_iter()` pulled `take` times then dropped: what it yields are stored entries (a prefix of
    the old-table-first sequence); everything else is dropped with the map — nothing is kept. -/
theorem into_iter_yields {R : Nat} (m : Map) (take : Nat) (o : Orc) (h : Inv R m) :
    OkOr (Map.intoIter m take o) (fun out =>
      ∃ all : List Entry, (∀ e ∈ all, e ∈ m.ents) ∧ out.ret = .ents (all.take take) ∧
        out.returned = idsOf (all.take take)) := by
  unfold Map.intoIter
  split
  · simp [OkOr]
  · split
    · rename_i hbad
      rw [overCount_false m h] at hbad
      cases hbad
    · dsimp only
      have hmem : ∀ e ∈ o.calls.filterMap (fun k => (m.find k).map (·.2)), e ∈ m.ents := by
        intro e he
        obtain ⟨k, _, hk⟩ := List.mem_filterMap.1 he
        cases hf : m.find k with
        | none => rw [hf] at hk; cases hk
        | some p =>
          obtain ⟨loc, e'⟩ := p
          rw [hf] at hk; simp at hk; subst hk
          exact (find_loc h hf).2.2
      simp only [OkOr]
      exact ⟨_, hmem, rfl, rfl⟩

/-- `drain` pulled `take` times, then dropped: the yielded entries are a prefix of a permutation of
    the contents — **each stored entry at most once, all of them if pulled to the end** — and every
    object is either handed to the caller or dropped by the iterator's destructor, exactly once. -/
theorem drain_exact {R : Nat} (m : Map) (take : Nat) (o : Orc) (h : Inv R m) :
    OkOr (Map.drain m take false o) (fun r =>
      ∃ all : List Entry, all.Perm m.ents ∧ r.2.ret = .ents (all.take take) ∧
        r.2.returned = idsOf (all.take take) ∧ r.2.cost.dropped = idsOf (all.drop take) ∧ r.1.ents = []) := by
  unfold Map.drain
  cases hok : Map.drainOrderOk m o.calls with
  | false => simp [OkOr]
  | true =>
    simp only [Bool.not_true, Bool.false_eq_true, if_false, overCount_false m h, OkOr]
    refine ⟨_, drain_perm m o.calls h hok, rfl, rfl, ?_, by simp [Raw.ents, HB.clearNoDrop]⟩
    cases hlo : m.lo with
    | none => simp [idsOf]
    | some ol => simp [Old.freeCost, h.agree ol hlo, idsOf]

/-- the same for `into_iter` (the map is consumed: nothing stays stored) -/
theorem into_iter_exact {R : Nat} (m : Map) (take : Nat) (o : Orc) (h : Inv R m) :
    OkOr (Map.intoIter m take o) (fun out =>
      ∃ all : List Entry, all.Perm m.ents ∧ out.ret = .ents (all.take take) ∧
        out.returned = idsOf (all.take take) ∧ out.cost.dropped = idsOf (all.drop take)) := by
  unfold Map.intoIter
  cases hok : Map.drainOrderOk m o.calls with
  | false => simp [OkOr]
  | true =>
    simp only [Bool.not_true, Bool.false_eq_true, if_false, overCount_false m h, OkOr]
    refine ⟨_, drain_perm m o.calls h hok, rfl, rfl, ?_⟩
    cases hlo : m.lo with
    | none => simp [HB.freeCost, idsOf]
    | some ol => simp [Old.freeCost, HB.freeCost, h.agree ol hlo, idsOf]

end Griddle.C08
