/-
  C14 — Observable behaviour depends only on contents, not on layout or history.

  `==` is decided by the abstract contents alone (`eq_iff_same_contents`): two maps in ANY two
  states satisfying the invariant — any capacities, resize phases, tombstone patterns, iteration
  orders, hasher states — compare equal iff they denote the same key→value function.  Hence it is
  reflexive, symmetric and transitive and false whenever some key or value differs.  `len`, `get`
  and the iterators are functions of the contents by C01 / C08.
-/
import Batteries.Data.List.Perm
import GriddleModel.Lemmas.Steps
namespace Griddle.C14

/-- the value a map associates with a key -/
def valOf (t : Raw) (k : Nat) : Option Nat := (absOf t k).map (·.v)

theorem mem_keys_iff_abs (t : Raw) (k : Nat) : k ∈ keysOf t.ents ↔ (absOf t k).isSome := by
  have := absOf_none_iff t k
  cases h : absOf t k with
  | none => simp [this.1 h]
  | some x =>
    simp only [Option.isSome, iff_true]
    apply Classical.byContradiction
    intro hn; rw [this.2 hn] at h; cases h

theorem abs_mem {R : Nat} {t : Raw} (h : Inv R t) {e : Entry} (he : e ∈ t.ents) : absOf t e.k = some e :=
  find_key_of_mem h.nodup he

theorem abs_some_mem {t : Raw} {k : Nat} {e : Entry} (h : absOf t k = some e) : e ∈ t.ents ∧ e.k = k :=
  find_key_some h

theorem find_of_abs {R : Nat} {t : Raw} (h : Inv R t) {k : Nat} {e : Entry} (ha : absOf t k = some e) :
    ∃ loc, t.find k = some (loc, e) := by
  have := find_eq_abs h k
  rw [ha] at this
  cases hf : t.find k with
  | none => rw [hf] at this; cases this
  | some p => obtain ⟨loc, e'⟩ := p; rw [hf] at this; simp at this; exact ⟨loc, by rw [this]⟩

/-- **`==` is decided by contents alone.** -/
theorem eq_iff_same_contents {R R' : Nat} (a b : Map) (ha : Inv R a) (hb : Inv R' b) :
    Map.eq a b = true ↔ ∀ k, valOf a k = valOf b k := by
  unfold Map.eq
  rw [Bool.and_eq_true, List.all_eq_true, Raw.len_eq, Raw.len_eq]
  constructor
  · rintro ⟨hlen, hall⟩
    have hlen : a.ents.length = b.ents.length := by simpa using hlen
    -- every entry of `a` has a counterpart in `b`
    have hsub : ∀ e ∈ a.ents, ∃ e', absOf b e.k = some e' ∧ e'.v = e.v := by
      intro e he
      have := hall e he
      cases hf : b.find e.k with
      | none => rw [hf] at this; cases this
      | some p =>
        obtain ⟨loc, e'⟩ := p
        rw [hf] at this
        have hab := find_eq_abs hb e.k
        rw [hf] at hab
        exact ⟨e', hab.symm, by simpa using this⟩
    have hksub : keysOf a.ents ⊆ keysOf b.ents := by
      intro k hk
      simp only [keysOf, List.mem_map] at hk
      obtain ⟨e, he, rfl⟩ := hk
      obtain ⟨e', he', _⟩ := hsub e he
      rw [mem_keys_iff_abs, he']; rfl
    have hperm : (keysOf a.ents).Perm (keysOf b.ents) :=
      (List.subperm_of_subset ha.nodup hksub).perm_of_length_le (by simp [keysOf, hlen])
    intro k
    unfold valOf
    cases hak : absOf a k with
    | some e =>
      obtain ⟨hin, hk⟩ := abs_some_mem hak
      obtain ⟨e', he', hv⟩ := hsub e hin
      rw [hk] at he'
      simp [he', hv]
    | none =>
      have hnk : k ∉ keysOf a.ents := (absOf_none_iff a k).1 hak
      have : k ∉ keysOf b.ents := fun h => hnk (hperm.mem_iff.2 h)
      rw [(absOf_none_iff b k).2 this]
  · intro hval
    have hkeys : ∀ k, k ∈ keysOf a.ents ↔ k ∈ keysOf b.ents := by
      intro k
      rw [mem_keys_iff_abs, mem_keys_iff_abs]
      have := hval k
      unfold valOf at this
      cases h1 : absOf a k <;> cases h2 : absOf b k <;> simp_all
    have hperm : (keysOf a.ents).Perm (keysOf b.ents) :=
      (List.perm_ext_iff_of_nodup ha.nodup hb.nodup).2 hkeys
    refine ⟨?_, ?_⟩
    · have := hperm.length_eq
      simpa [keysOf] using this
    · intro e he
      have hae := abs_mem ha he
      have := hval e.k
      unfold valOf at this
      rw [hae] at this
      cases hbe : absOf b e.k with
      | none => rw [hbe] at this; cases this
      | some e' =>
        rw [hbe] at this
        obtain ⟨loc, hf⟩ := find_of_abs hb hbe
        rw [hf]
        simp at this
        simp [this]

theorem eq_refl {R : Nat} (a : Map) (ha : Inv R a) : Map.eq a a = true :=
  (eq_iff_same_contents a a ha ha).2 (fun _ => rfl)

theorem eq_symm {R R' : Nat} (a b : Map) (ha : Inv R a) (hb : Inv R' b) :
    Map.eq a b = Map.eq b a := by
  have h1 := eq_iff_same_contents a b ha hb
  have h2 := eq_iff_same_contents b a hb ha
  cases hab : Map.eq a b <;> cases hba : Map.eq b a
  · rfl
  · have := h2.1 hba; exact absurd (h1.2 (fun k => (this k).symm)) (by simp [hab])
  · have := h1.1 hab; exact absurd (h2.2 (fun k => (this k).symm)) (by simp [hba])
  · rfl

theorem eq_trans {R : Nat} (a b c : Map) (ha : Inv R a) (hb : Inv R b) (hc : Inv R c)
    (hab : Map.eq a b = true) (hbc : Map.eq b c = true) : Map.eq a c = true :=
  (eq_iff_same_contents a c ha hc).2 (fun k =>
    ((eq_iff_same_contents a b ha hb).1 hab k).trans ((eq_iff_same_contents b c hb hc).1 hbc k))

/-- `==` is false whenever some key or value differs -/
theorem ne_of_differs {R : Nat} (a b : Map) (ha : Inv R a) (hb : Inv R b) (k : Nat) (hd : valOf a k ≠ valOf b k) :
    Map.eq a b = false := by
  cases h : Map.eq a b with
  | false => rfl
  | true => exact absurd ((eq_iff_same_contents a b ha hb).1 h k) hd

/-- layout independence: two states with permuted storage (different tables, orders) denote the
    same contents, hence are equal under `==` -/
theorem eq_of_perm {R : Nat} (a b : Map) (ha : Inv R a) (hb : Inv R b) (hp : a.ents.Perm b.ents) :
    Map.eq a b = true :=
  (eq_iff_same_contents a b ha hb).2 (fun k => by unfold valOf; rw [absOf_perm hp hb.nodup k])

/-- non-vacuity: the same two pairs, once in one table, once split across two, compare equal -/
example : Map.eq { main := { buckets := 4, ents := [⟨1, 0, 5, 0⟩, ⟨2, 0, 6, 0⟩], gl := 1 }, lo := none }
                 { main := { buckets := 8, ents := [⟨2, 9, 6, 9⟩], gl := 5 },
                   lo := some { buckets := 4, ents := [⟨1, 7, 5, 7⟩], cursor := 1 } } = true := by decide

end Griddle.C14
