/-
  C02 — Per-call resize work is bounded by a constant independent of map size.

  No hypothesis of these theorems mentions the size of the map or its history: the bounds hold
  for every state satisfying the invariant.  Instantiated at `R = 8`: a key-adding `insert` moves
  ≤ 8 elements, computes ≤ 9 hashes (≤ 10 for the raw-entry path that hashes the key twice, see
  C12), allocates ≤ 1 table; lookups, removals and in-place updates hash once, allocate nothing,
  move nothing.
-/
import GriddleModel.Lemmas.Steps
import GriddleModel.Lemmas.Entry
namespace Griddle.C02

/-- `insert` (new key, overwrite in the main table, or overwrite of an element still in the old
    table): moved ≤ R, hashes = 1 + moved ≤ R + 1, allocations ≤ 1; an overwrite allocates nothing;
    an overwrite in the main table moves nothing. -/
theorem insert_cost (c : Cfg) (hR : 0 < c.R) (m : Map) (e : Entry) (o : Orc) (h : Inv c.R m) :
    OkOrCap (Map.insert c m e o) (fun r =>
      r.2.cost.moved ≤ c.R ∧ r.2.cost.hashes ≤ c.R + 1 ∧ r.2.cost.hashes = 1 + r.2.cost.moved ∧
      r.2.cost.allocs ≤ 1 ∧ ((absOf m e.k).isSome → r.2.cost.allocs = 0)) :=
  (Map.insert_spec c hR m e o h).mono (fun r hs => by
    obtain ⟨_, _, _, h4, h5, h6, h7, _⟩ := hs
    exact ⟨h4, by omega, h5, h6, h7⟩)

/-- the production constant: 8 moves, 9 hashes, 1 allocation -/
theorem insert_cost_R8 (c : Cfg) (hc : c.R = 8) (m : Map) (e : Entry) (o : Orc) (h : Inv c.R m) :
    OkOrCap (Map.insert c m e o) (fun r =>
      r.2.cost.moved ≤ 8 ∧ r.2.cost.hashes ≤ 10 ∧ r.2.cost.allocs ≤ 1) :=
  (insert_cost c (by omega) m e o h).mono (fun r hs => by
    obtain ⟨h1, h2, _, h4, _⟩ := hs
    exact ⟨by omega, by omega, h4⟩)

/-- lookups: one hash, no allocation, nothing moved, state untouched -/
theorem lookup_cost {R : Nat} (m : Map) (k : Nat) (h : Inv R m) :
    (Map.get m k).cost.hashes = 1 ∧ (Map.get m k).cost.allocs = 0 ∧ (Map.get m k).cost.moved = 0 := by
  rw [(Map.get_spec m k h).2]; exact ⟨rfl, rfl, rfl⟩

/-- in-place update through `get_mut`: one hash, no allocation, nothing moved -/
theorem getMut_cost {R : Nat} (m : Map) (k add : Nat) (h : Inv R m) :
    (Map.getMut m k add).2.cost.hashes = 1 ∧ (Map.getMut m k add).2.cost.allocs = 0 ∧
    (Map.getMut m k add).2.cost.moved = 0 := by
  rw [(Map.getMut_spec m k add h).2.2.2.1]; exact ⟨rfl, rfl, rfl⟩

/-- removals: one hash, no allocation, nothing moved -/
theorem remove_cost {R : Nat} (hR : 0 < R) (m : Map) (k : Nat) (o : Orc) (h : Inv R m) :
    ∃ m' out, Map.removeEntry m k o = .ok (m', out) ∧
      out.cost.hashes = 1 ∧ out.cost.allocs = 0 ∧ out.cost.moved = 0 := by
  obtain ⟨m', out, hr, _, _, _, h1, h2, h3, _⟩ := Map.removeEntry_spec hR m k o h
  exact ⟨m', out, hr, h1, h2, h3⟩

/-- `reserve` on a map that is not mid-resize moves nothing either (the proportional work is
    confined to `reserve` / `try_reserve` mid-resize, `shrink_to*`, `clone*`) -/
theorem reserve_unsplit_moves_nothing (c : Cfg) (t : Raw) (n : Nat) (perm : List Nat)
    (hlo : t.lo = none) (hnd : (keysOf t.main.ents).Nodup) :
    OkOr (Raw.tryGrow c t n perm) (fun r => r.2.2.moved = 0 ∧ r.2.2.hashes = 0 ∧ r.2.2.allocs ≤ 1) := by
  have hg := tryGrow_spec c t n perm hlo hnd
  cases hr : Raw.tryGrow c t n perm with
  | error f => rw [hr] at hg; exact hg
  | ok r =>
    obtain ⟨t', e, cost⟩ := r
    rw [hr] at hg
    simp only [OkOr] at hg ⊢
    cases e with
    | some e => simp only at hg; rw [hg.2]; exact ⟨rfl, rfl, Nat.zero_le _⟩
    | none => simp only at hg; exact ⟨hg.2.2.2.2.2.2.2.2.2.1, hg.2.2.2.2.2.2.2.2.1, hg.2.2.2.2.2.2.2.1⟩

/-- The costliest key-adding path: `raw_entry_mut().from_key(&k)` (one hash) on an absent key,
    then `RawVacantEntryMut::insert(k, v)` (hashes the key again), plus the carry: at most
    `R + 2` hash computations, `R` moves, one allocation — 10 / 8 / 1 for `R = 8`. -/
theorem raw_entry_insert_cost (c : Cfg) (hR : 0 < c.R) (m : Map) (k kid v vid add : Nat) (o : Orc)
    (h : Inv c.R m) (habs : m.find k = none) :
    OkOrCap (Map.entryChain c true 1 m k kid [.vacInsert true kid v vid add] o) (fun r =>
      r.2.cost.hashes ≤ c.R + 2 ∧ r.2.cost.moved ≤ c.R ∧ r.2.cost.allocs ≤ 1) := by
  unfold Map.entryChain Map.lookupState
  simp only [habs, Map.chainLoop, Map.chainStep, if_true, Bool.false_eq_true, if_false, Option.getD]
  generalize o.digit (c.R + 2) = o'
  have hfresh : k ∉ keysOf m.ents := (find_none_iff h k).1 habs
  have hs := Raw.insert_spec c hR m { k := k, kid := kid, v := v + add, vid := vid } o'.hits o'.perm h hfresh
  generalize Raw.insert c m { k := k, kid := kid, v := v + add, vid := vid } o'.hits o'.perm = res at hs ⊢
  cases res with
  | error f => simpa [OkOrCap] using hs
  | ok r =>
    obtain ⟨m', hh, cost⟩ := r
    simp only [OkOrCap] at hs ⊢
    obtain ⟨_, _, h3, h4, h5, _⟩ := hs
    simp only [if_true, Bool.false_eq_true, if_false, Cost.add_hashes, Cost.add_moved, Cost.add_allocs]
    refine ⟨by omega, by omega, by omega⟩

/-- `entry(k).or_insert(v)` / `VacantEntry::insert` on an absent key: the key is hashed once
    (the entry keeps the hash), so at most `R + 1` hashes. -/
theorem entry_insert_cost (c : Cfg) (hR : 0 < c.R) (m : Map) (k kid v vid add : Nat) (o : Orc)
    (h : Inv c.R m) (habs : m.find k = none) :
    OkOrCap (Map.entryChain c false 1 m k kid [.vacInsert false 0 v vid add] o) (fun r =>
      r.2.cost.hashes ≤ c.R + 1 ∧ r.2.cost.moved ≤ c.R ∧ r.2.cost.allocs ≤ 1) := by
  unfold Map.entryChain Map.lookupState
  simp only [habs, Map.chainLoop, Map.chainStep, if_true, Bool.false_eq_true, if_false, Option.getD]
  generalize o.digit (c.R + 2) = o'
  have hfresh : k ∉ keysOf m.ents := (find_none_iff h k).1 habs
  have hs := Raw.insert_spec c hR m { k := k, kid := kid, v := v + add, vid := vid } o'.hits o'.perm h hfresh
  generalize Raw.insert c m { k := k, kid := kid, v := v + add, vid := vid } o'.hits o'.perm = res at hs ⊢
  cases res with
  | error f => simpa [OkOrCap] using hs
  | ok r =>
    obtain ⟨m', hh, cost⟩ := r
    simp only [OkOrCap] at hs ⊢
    obtain ⟨_, _, h3, h4, h5, _⟩ := hs
    simp only [Cost.add_hashes, Cost.add_moved, Cost.add_allocs]
    refine ⟨by omega, by omega, by omega⟩

end Griddle.C02
