/-
  C17 — Behaviour is identical in debug and release builds.

  `Cfg.debug` is the build profile (debug assertions + overflow checks).  In the model it guards:
  the `debug_assert!(self.leftovers.is_none())` of `try_grow`, the `debug_assert!(is_split())` of
  `HashMap::insert`, and the overflow check of `shrink_to`'s unchecked additions (the repaired
  `reserve` / `try_reserve` / `try_grow` use checked additions in both profiles).  These theorems
  show the flag is inert: every call and every history gives the same result, the same panic and
  the same final state for both values — the two debug assertions are unreachable by construction
  of their callers, the overflow check whenever `2·len()+1` fits `usize`.
-/
import GriddleModel.Lemmas.Steps
import GriddleModel.Props.C05
import GriddleModel.Lemmas.Small
namespace Griddle.C17

def withDebug (c : Cfg) (b : Bool) : Cfg := { c with debug := b }

theorem tryGrow_profile (c : Cfg) (b : Bool) (t : Raw) (extra : Nat) (perm : List Nat) (hlo : t.lo = none) :
    Raw.tryGrow (withDebug c b) t extra perm = Raw.tryGrow c t extra perm := by
  unfold Raw.tryGrow withDebug
  simp [hlo, HB.tryWithCapacity, allocCheck]

theorem grow_profile (c : Cfg) (b : Bool) (t : Raw) (extra : Nat) (perm : List Nat) (hlo : t.lo = none) :
    Raw.grow (withDebug c b) t extra perm = Raw.grow c t extra perm := by
  unfold Raw.grow; rw [tryGrow_profile c b t extra perm hlo]

theorem carry_profile (c : Cfg) (b : Bool) (t : Raw) (hits : Nat) :
    Raw.carry (withDebug c b) t hits = Raw.carry c t hits := rfl

theorem insertNoGrow_profile (c : Cfg) (b : Bool) (t : Raw) (e : Entry) (hits : Nat) :
    Raw.insertNoGrow (withDebug c b) t e hits = Raw.insertNoGrow c t e hits := rfl

theorem rawInsert_profile (c : Cfg) (b : Bool) (t : Raw) (e : Entry) (hits : Nat) (perm : List Nat) :
    Raw.insert (withDebug c b) t e hits perm = Raw.insert c t e hits perm := by
  unfold Raw.insert
  by_cases hgl : t.main.gl = 0
  · simp only [hgl, if_true]
    cases hlo : t.lo with
    | some o => simp
    | none =>
      simp only [Option.isSome, Bool.false_eq_true, if_false]
      have : ({ main := t.main, lo := none } : Raw) = t := by cases t; simp_all
      rw [grow_profile c b t 1 perm hlo]
      cases Raw.grow c t 1 perm with
      | error f => rfl
      | ok r => simp only [insertNoGrow_profile]
  · simp only [hgl, if_false, insertNoGrow_profile]

theorem carryAll_profile (c : Cfg) (b : Bool) (t : Raw) (hits : Nat) :
    Raw.carryAll (withDebug c b) t hits = Raw.carryAll c t hits := by
  unfold Raw.carryAll
  have hloop : ∀ n main ents hits cost, Raw.carryAllLoop (withDebug c b) main n ents hits cost
      = Raw.carryAllLoop c main n ents hits cost := by
    intro n
    induction n with
    | zero => intro main ents hits cost; rfl
    | succ n ih =>
      intro main ents hits cost
      cases ents with
      | nil => rfl
      | cons e rest =>
        simp only [Raw.carryAllLoop]
        have : main.insertGrowable (withDebug c b) e (decide (0 < hits)) = main.insertGrowable c e (decide (0 < hits)) := by
          unfold HB.insertGrowable withDebug
          simp [HB.tryWithCapacity, allocCheck]
        rw [this]
        cases main.insertGrowable c e (decide (0 < hits)) with
        | error f => rfl
        | ok r => simp only [ih]
  cases t.lo with
  | none => rfl
  | some o => simp only [hloop]

theorem carryAll_lo (c : Cfg) (t t1 : Raw) (hits h1 : Nat) (c1 : Cost) (h : Raw.carryAll c t hits = .ok (t1, h1, c1))
    (hlo : t.lo.isSome) : t1.lo = none := by
  unfold Raw.carryAll at h
  cases hl : t.lo with
  | none => rw [hl] at hlo; cases hlo
  | some o =>
    rw [hl] at h
    simp only at h
    cases hc : Raw.carryAllLoop c t.main o.cursor o.ents hits {} with
    | error f => rw [hc] at h; cases h
    | ok r => rw [hc] at h; injection h with h; injection h with h _; rw [← h]

theorem reserve_profile (c : Cfg) (b : Bool) (t : Raw) (n hits : Nat) (perm : List Nat) :
    Raw.reserve (withDebug c b) t n hits perm = Raw.reserve c t n hits perm := by
  unfold Raw.reserve
  cases hlo : t.lo with
  | none =>
    simp only [Option.isSome, Bool.false_eq_true, if_false]
    rw [grow_profile c b t n perm hlo]
  | some o =>
    simp only [Option.isSome, if_true]
    rw [carryAll_profile]
    cases hca : Raw.carryAll c t hits with
    | error f => rfl
    | ok r =>
      obtain ⟨t1, h1, c1⟩ := r
      have := carryAll_lo c t t1 hits h1 c1 hca (by simp [hlo])
      simp only [grow_profile c b t1 n perm this]

theorem tryReserve_profile (c : Cfg) (b : Bool) (t : Raw) (n hits : Nat) (perm : List Nat) :
    Raw.tryReserve (withDebug c b) t n hits perm = Raw.tryReserve c t n hits perm := by
  unfold Raw.tryReserve
  cases hlo : t.lo with
  | none =>
    simp only [Option.isSome, Bool.false_eq_true, if_false]
    rw [tryGrow_profile c b t n perm hlo]
  | some o =>
    simp only [Option.isSome, if_true]
    rw [carryAll_profile]
    cases hca : Raw.carryAll c t hits with
    | error f => rfl
    | ok r =>
      obtain ⟨t1, h1, c1⟩ := r
      have := carryAll_lo c t t1 hits h1 c1 hca (by simp [hlo])
      simp only [tryGrow_profile c b t1 n perm this]

/-- `find` reports "old table" only when there is one -/
theorem find_old_split (m : Raw) (k : Nat) (loc : Loc) (e : Entry) (h : m.find k = some (loc, e))
    (hl : loc.inMain = false) : m.lo.isSome = true := by
  unfold Raw.find at h
  cases hm : m.main.find? k with
  | some x => rw [hm] at h; injection h with h; injection h with h1 _; rw [← h1] at hl; cases hl
  | none =>
    rw [hm] at h
    cases hlo : m.lo with
    | none => rw [hlo] at h; cases h
    | some o => rfl

theorem mapInsert_profile (c : Cfg) (b : Bool) (m : Map) (e : Entry) (o : Orc) :
    Map.insert (withDebug c b) m e o = Map.insert c m e o := by
  unfold Map.insert
  cases hf : m.find e.k with
  | none => simp only [rawInsert_profile]
  | some p =>
    obtain ⟨loc, old⟩ := p
    dsimp only
    cases hl : loc.inMain with
    | true => simp
    | false =>
      have hs := find_old_split m e.k loc old hf hl
      have hsplit : Raw.isSplit { m with lo := m.lo.map (fun ol => { ol with ents := ol.ents.map (fun x =>
          if x.k == e.k then { x with v := e.v, vid := e.vid } else x) }) } = true := by
        unfold Raw.isSplit; cases hlo : m.lo <;> simp_all
      simp only [Bool.false_eq_true, if_false, Bool.not_false, if_true, hsplit, Bool.not_true, Bool.and_false,
        carry_profile]

theorem hbShrink_profile (c : Cfg) (b : Bool) (t : HB) (n : Nat) :
    HB.shrinkTo (withDebug c b) t n = HB.shrinkTo c t n := rfl

theorem shrinkTo_profile (c : Cfg) (b : Bool) (t : Raw) (n : Nat) (hsmall : t.len + t.len + 1 < USIZE) (hR : 0 < c.R) :
    Raw.shrinkTo (withDebug c b) t n = Raw.shrinkTo c t n := by
  have hml : t.main.ents.length ≤ t.len := by unfold Raw.len; omega
  have key : ∀ c' : Cfg, c'.R = c.R → (∀ m k, HB.shrinkTo c' m k = HB.shrinkTo c m k) →
      Raw.shrinkTo c' t n = Raw.shrinkTo { c with debug := false } t n := by
    intro c' hr hsh
    unfold Raw.shrinkTo
    cases ht : t.lo with
    | none =>
      dsimp only
      have h1 : decide (USIZE ≤ t.main.ents.length + 0) = false := by simp; omega
      simp only [h1, Bool.and_false, Bool.false_eq_true, if_false, hsh]
      rfl
    | some o =>
      dsimp only
      by_cases h0 : o.ents.length = 0
      · simp only [h0, if_true]
        have h1 : decide (USIZE ≤ t.main.ents.length + 0) = false := by simp; omega
        simp only [h1, Bool.and_false, Bool.false_eq_true, if_false, hsh]
        rfl
      · simp only [h0, if_false, hr]
        have hcd := ceilDiv_le_self o.ents.length c.R hR
        have h1 : decide (USIZE ≤ t.main.ents.length + (o.ents.length + ceilDiv o.ents.length c.R)) = false := by
          unfold Raw.len at hsmall; simp only [ht] at hsmall; simp; omega
        simp only [h1, Bool.and_false, Bool.false_eq_true, if_false, hsh]
        rfl
  rw [key (withDebug c b) rfl (fun m k => rfl), key c rfl (fun m k => rfl)]

/-- **One call behaves identically in both build profiles.** -/
theorem step_profile_independent (c : Cfg) (hR : 0 < c.R) (b : Bool) (m : Map) (op : Op) (o : Orc) (hp : pre m op) :
    step (withDebug c b) m op o = step c m op o := by
  cases op with
  | insert e => exact mapInsert_profile c b m e o
  | get k => rfl
  | getMut k add => rfl
  | remove k => rfl
  | clear => rfl
  | reserve n => show Map.reserve _ m n o = Map.reserve c m n o; unfold Map.reserve; rw [reserve_profile]
  | tryReserve n => show Map.tryReserve _ m n o = Map.tryReserve c m n o; unfold Map.tryReserve; rw [tryReserve_profile]
  | shrinkTo n => show Map.shrinkTo _ m n = Map.shrinkTo c m n; unfold Map.shrinkTo; rw [shrinkTo_profile c b m n hp hR]

/-- **Every history behaves identically in both build profiles**: same results, same panics,
    same final state. -/
theorem run_profile_independent (c : Cfg) (hR : 0 < c.R) (b : Bool) (orcs : Nat → Orc) :
    ∀ (ops : List Op) (m : Map), runPre c m ops orcs → run (withDebug c b) m ops orcs = run c m ops orcs := by
  intro ops
  induction ops with
  | nil => intro m _; rfl
  | cons op rest ih =>
    intro m hpre
    unfold run
    rw [step_profile_independent c hR b m op (orcs rest.length) hpre.1]
    cases hs : step c m op (orcs rest.length) with
    | error f => rfl
    | ok r =>
      obtain ⟨m', out⟩ := r
      simp only
      rw [ih m' (hpre.2 m' out hs)]

/-- **… with no side condition**: from any state with the two invariants (in particular from a
    fresh map) both profiles run every history identically. -/
theorem run_profile_independent_unconditional (c : Cfg) (hR : 0 < c.R) (b : Bool) (orcs : Nat → Orc)
    (ops : List Op) (m : Map) (h : Inv c.R m) (hs : Small m) :
    run (withDebug c b) m ops orcs = run c m ops orcs :=
  run_profile_independent c hR b orcs ops m (runPre_of_small c hR orcs ops m h hs)

theorem extendLoop_profile (c : Cfg) (b : Bool) (orc : Map → Nat → Orc) :
    ∀ (items : List Entry) (m : Map) (cost : Cost),
      Map.extendLoop (withDebug c b) orc m items cost = Map.extendLoop c orc m items cost := by
  intro items
  induction items with
  | nil => intro m cost; rfl
  | cons e rest ih =>
    intro m cost
    unfold Map.extendLoop
    rw [mapInsert_profile]
    cases Map.insert c m e (orc m rest.length) with
    | error f => rfl
    | ok r => obtain ⟨m', out⟩ := r; exact ih m' _

/-- **`extend` behaves identically in both build profiles, whatever the iterator claims about its length** — the
    hint is rounded without an addition that could overflow, so there is nothing for an overflow check to catch; an
    unsatisfiable hint is `reserve`'s capacity-overflow panic in both.  (Before the repair `f47003f` the code
    computed `(hint + 1) / 2`: a debug build panicked on a hint of `usize::MAX`, a release build reserved 0.) -/
theorem extend_profile_independent (c : Cfg) (b : Bool) (m : Map) (items : List Entry) (hint : Nat)
    (orc : Map → Nat → Orc) :
    Map.extend (withDebug c b) m items hint orc = Map.extend c m items hint orc := by
  unfold Map.extend Map.reserve
  simp only [reserve_profile, extendLoop_profile]

end Griddle.C17
