/-
  C05 — No undefined behaviour is reachable through the safe API.   (PARTIAL: protocol level)

  In the model every precondition of hashbrown's `unsafe` API that griddle must meet is an explicit
  `Fault.ub` (insert_no_grow with room; buckets handed to erase / remove / replace_bucket_with are
  full buckets of the table they are routed to; the cached iterator is never advanced past the
  elements that remain; `into_iter_from` is given an iterator whose count matches).  These theorems
  show no such fault — and no undocumented panic — is reachable from a state satisfying the
  invariant, whatever the oracle, and that the cached cursor's count equals the number of elements
  still in the old table after removals by every route.

  What a functional model cannot exhibit is the wild read itself; that part rests on the
  correspondence run (hook read-out of the cursor, canary/ledger elements, both build profiles).
-/
import GriddleModel.Lemmas.Steps
import GriddleModel.Lemmas.RawOps3
namespace Griddle.C05

theorem OkOrCap.not_ub {α : Type} {r : Except Fault α} {P : α → Prop} (h : OkOrCap r P) (w : String) :
    r ≠ .error (.ub w) := by
  intro heq; subst heq
  simp only [OkOrCap] at h
  rcases h with ⟨w', h⟩ | h | h <;> cases h

theorem OkOrCap.panic_documented {α : Type} {r : Except Fault α} {P : α → Prop} (h : OkOrCap r P)
    (k : PanicKind) (heq : r = .error (.panic k)) : k = .capacityOverflow := by
  subst heq
  simp only [OkOrCap] at h
  rcases h with ⟨w', h⟩ | h | h
  · cases h
  · injection h with h
  · cases h

/-- No call of the core API reaches undefined behaviour from an invariant state. -/
theorem step_no_ub (c : Cfg) (hR : 0 < c.R) (m : Map) (op : Op) (o : Orc) (h : Inv c.R m) (hp : pre m op)
    (w : String) : step c m op o ≠ .error (.ub w) :=
  OkOrCap.not_ub (step_refines c hR m op o h hp) w

/-- …nor any panic other than the documented capacity overflow (so no `assert!`,
    `unreachable!`, arithmetic-overflow or debug-assertion panic: no outcome relies on one). -/
theorem step_panic_documented (c : Cfg) (hR : 0 < c.R) (m : Map) (op : Op) (o : Orc) (h : Inv c.R m)
    (hp : pre m op) (k : PanicKind) (heq : step c m op o = .error (.panic k)) : k = .capacityOverflow :=
  OkOrCap.panic_documented (step_refines c hR m op o h hp) k heq

/-- No history reaches undefined behaviour. -/
theorem run_no_ub (c : Cfg) (hR : 0 < c.R) (orcs : Nat → Orc) (ops : List Op) (m : Map) (h : Inv c.R m)
    (hpre : runPre c m ops orcs) (w : String) : run c m ops orcs ≠ .error (.ub w) :=
  OkOrCap.not_ub (run_refines c hR orcs ops m h hpre) w

/-- After every call the cached position agrees exactly with the elements still in the old table. -/
theorem step_cursor_agrees (c : Cfg) (hR : 0 < c.R) (m : Map) (op : Op) (o : Orc) (h : Inv c.R m) (hp : pre m op) :
    OkOrCap (step c m op o) (fun r => ∀ ol, r.1.lo = some ol → ol.cursor = ol.ents.length) :=
  (step_refines c hR m op o h hp).mono (fun _ hs => hs.1.agree)

/-- Removal by `remove` / entry removal / `drain_filter` (`remove(bucket)`): the bucket handed over
    is a full bucket of the right table, the cursor is told before the removal; agreement kept. -/
theorem remove_route_agrees {R : Nat} (hR : 0 < R) {t : Raw} (h : Inv R t) {k : Nat} {loc : Loc} {e : Entry}
    (hf : t.find k = some (loc, e)) (b : Bool) :
    ∃ t' cost, Raw.removeAt t loc b = .ok (t', e, cost) ∧
      ∀ ol, t'.lo = some ol → ol.cursor = ol.ents.length := by
  obtain ⟨t', cost, hr, hi, _⟩ := removeAt_spec hR h hf b
  exact ⟨t', cost, hr, hi.agree⟩

/-- Removal by `retain` (`erase(bucket)`): same, and the emptied old table stays parked. -/
theorem erase_route_agrees {R : Nat} (hR : 0 < R) {t : Raw} (h : Inv R t) {k : Nat} {loc : Loc} {e : Entry}
    (hf : t.find k = some (loc, e)) (b : Bool) :
    ∃ t' cost, Raw.eraseAt t loc b = .ok (t', cost) ∧
      ∀ ol, t'.lo = some ol → ol.cursor = ol.ents.length := by
  obtain ⟨t', cost, hr, hi, _⟩ := eraseAt_spec hR h hf b
  exact ⟨t', cost, hr, hi.agree⟩

/-- Removal by `replace_entry_with(.. None)`: the state it leaves is the one `erase` leaves
    (this is the repaired ordering: the cursor hears of the removal *before* the bucket is vacated). -/
theorem replace_route_agrees {R : Nat} (hR : 0 < R) {t : Raw} (h : Inv R t) {k : Nat} {loc : Loc} {e : Entry}
    (hf : t.find k = some (loc, e)) (b : Bool) :
    ∃ t', (Raw.replaceAt t loc none b).map (·.1) = .ok t' ∧
      ∀ ol, t'.lo = some ol → ol.cursor = ol.ents.length := by
  obtain ⟨t', cost, hr, hi, _⟩ := eraseAt_spec hR h hf b
  refine ⟨t', ?_, hi.agree⟩
  rw [replaceAt_none_state, hr]; rfl

/-- `carry` never advances the cached iterator past the remaining elements, and never inserts
    into a main table without room. -/
theorem carry_no_ub (c : Cfg) (hR : 0 < c.R) (t : Raw) (hits : Nat) (h : Inv c.R t) (w : String) :
    Raw.carry c t hits ≠ .error (.ub w) := by
  have := carry_inv c hR t hits h
  intro heq; rw [heq] at this
  simp only [OkOr] at this
  obtain ⟨w', hw⟩ := this; cases hw

/-- non-vacuity: in a state that VIOLATES the agreement invariant (count one too high, the
    situation the unrepaired `replace_entry_with` produced after a panicking closure) the model does
    report the over-read — the `ub` faults are not vacuous. -/
example : Raw.carry { R := 8 } { main := { buckets := 16, ents := [], gl := 14 },
                                 lo := some { buckets := 4, ents := [⟨1, 1, 1, 2⟩], cursor := 2 } } 0
    = .error (.ub "cached iterator advanced past the last element of the old table") := by
  decide

end Griddle.C05
