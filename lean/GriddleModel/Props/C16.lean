/-
  C16 — Serde round-trip preserves the collection.

  For every state satisfying the invariant (every resize phase, incl. empty), every iteration
  order of the shape the real iterator has, every size hint (honest, absent or lying) and every
  oracle: serialisation emits the exact length followed by each element exactly once, in
  iteration order; deserialising that stream yields a map with exactly the same entries;
  `deserialize_in_place` yields exactly the stream's entries whatever the destination held
  (no hypothesis on its contents; any resize phase).
-/
import GriddleModel.Serde
import GriddleModel.Props.C08
import GriddleModel.Props.C01
import GriddleModel.Props.C01Extend
namespace Griddle.C16
open Serde

/-- serialisation: exact length, then each stored element exactly once -/
theorem ser_tokens {R : Nat} (m : Map) (order : List Nat) (h : Inv R m) (hok : Map.iterOrderOk m order = true) :
    (serialize m order).1 = (serialize m order).2.length ∧ (serialize m order).2.Perm m.ents := by
  have hp := C08.iter_perm m order h hok
  exact ⟨by simp only [serialize]; rw [hp.length_eq, Raw.len_eq], hp⟩

/-- inserting a stream of entries with distinct keys, none of them present: afterwards a key maps
    to its stream entry if it has one, else to what it mapped to before -/
theorem insertAll_spec (c : Cfg) (hR : 0 < c.R) (orcs : Nat → Orc) :
    ∀ (tokens : List Entry) (m : Map), Inv c.R m → (keysOf tokens).Nodup →
      (∀ e ∈ tokens, absOf m e.k = none) →
      OkOrCap (insertAll c m tokens orcs) (fun m' =>
        Inv c.R m' ∧ ∀ k, absOf m' k = (match lookupIn tokens k with | some e => some e | none => absOf m k)) := by
  intro tokens
  induction tokens with
  | nil => intro m h _ _; simp only [insertAll, OkOrCap, lookupIn, List.find?]; exact ⟨h, fun _ => trivial⟩
  | cons e rest ih =>
    intro m h hnd hfresh
    simp only [keysOf, List.map_cons, List.nodup_cons] at hnd
    unfold insertAll
    have hs := Map.insert_spec c hR m e (orcs rest.length) h
    cases hr : Map.insert c m e (orcs rest.length) with
    | error f => rw [hr] at hs; exact hs
    | ok r =>
      obtain ⟨m1, out⟩ := r
      rw [hr] at hs
      simp only [OkOrCap] at hs
      obtain ⟨hi1, ha1, _⟩ := hs
      have he : absOf m e.k = none := hfresh e List.mem_cons_self
      rw [he] at ha1
      simp only at ha1
      dsimp only
      have hfresh1 : ∀ x ∈ rest, absOf m1 x.k = none := by
        intro x hx
        rw [ha1 x.k]
        unfold specIns
        have hne : x.k ≠ e.k := by
          intro heq; apply hnd.1; rw [← heq]; exact List.mem_map_of_mem hx
        simp only [hne, if_false]
        exact hfresh x (List.mem_cons_of_mem _ hx)
      have h2 := ih m1 hi1 hnd.2 hfresh1
      cases hr2 : insertAll c m1 rest orcs with
      | error f => rw [hr2] at h2; exact h2
      | ok m2 =>
        rw [hr2] at h2
        simp only [OkOrCap] at h2 ⊢
        refine ⟨h2.1, fun k => ?_⟩
        rw [h2.2 k, ha1 k]
        unfold specIns lookupIn
        simp only [List.find?]
        by_cases hk : k = e.k
        · subst hk
          have : rest.find? (fun x => x.k == e.k) = none := find_key_none.2 hnd.1
          simp [this]
        · have : (e.k == k) = false := by simpa using (fun h => hk h.symm)
          simp only [this, hk, if_false]

/-- **Round trip**: deserialising what serialisation emitted gives a map with exactly the same
    entries (any hint), satisfying the invariant. -/
theorem de_ser (c : Cfg) (hR : 0 < c.R) (m : Map) (order : List Nat) (hint : Option Nat) (orcs : Nat → Orc)
    (h : Inv c.R m) (hok : Map.iterOrderOk m order = true) :
    OkOrCap (deserialize c (serialize m order).2 hint orcs) (fun m' =>
      Inv c.R m' ∧ ∀ k, absOf m' k = absOf m k) := by
  unfold deserialize Map.withCapacity
  have hw := C01.inv_withCapacity c (cautious hint)
  cases hr : Raw.withCapacity c (cautious hint) with
  | error f => rw [hr] at hw; exact hw
  | ok r =>
    obtain ⟨m0, cost⟩ := r
    rw [hr] at hw
    simp only [OkOrCap] at hw
    obtain ⟨hi0, he0, _⟩ := hw
    dsimp only
    have hp := (ser_tokens m order h hok).2
    have hnd : (keysOf (serialize m order).2).Nodup := (keysOf_perm hp).nodup_iff.2 h.nodup
    have habs0 : ∀ k, absOf m0 k = none := by intro k; unfold absOf; rw [he0]; rfl
    refine (insertAll_spec c hR orcs _ m0 hi0 hnd (fun e _ => habs0 e.k)).mono (fun m' hs => ⟨hs.1, fun k => ?_⟩)
    rw [hs.2 k, habs0 k]
    have := lookupIn_perm hp h.nodup k
    rw [this]
    unfold absOf lookupIn
    cases m.ents.find? (fun e => e.k == k) <;> rfl

/-- **`deserialize_in_place` replaces the previous contents entirely**, whatever they were. -/
theorem de_in_place (c : Cfg) (hR : 0 < c.R) (place : Map) (tokens : List Entry) (hint : Option Nat)
    (orcs : Nat → Orc) (h : Inv c.R place) (hnd : (keysOf tokens).Nodup) :
    OkOrCap (deserializeInPlace c place tokens hint orcs) (fun m' =>
      Inv c.R m' ∧ ∀ k, absOf m' k = lookupIn tokens k) := by
  unfold deserializeInPlace Map.clear Map.reserve
  have hc := clear_spec place h
  cases hcl : Raw.clear place with
  | mk m0 c0 =>
    rw [hcl] at hc
    obtain ⟨hi0, he0, _⟩ := hc
    dsimp only
    have hrs := reserve_spec c hR m0 (cautious hint) (orcs tokens.length).hits (orcs tokens.length).perm hi0
    cases hr : Raw.reserve c m0 (cautious hint) (orcs tokens.length).hits (orcs tokens.length).perm with
    | error f => rw [hr] at hrs; exact hrs
    | ok r =>
      obtain ⟨m1, c1⟩ := r
      rw [hr] at hrs
      simp only [OkOrCap] at hrs
      obtain ⟨hi1, hp1, _⟩ := hrs
      dsimp only
      have habs1 : ∀ k, absOf m1 k = none := by
        intro k
        rw [absOf_perm hp1 hi0.nodup k]
        unfold absOf; rw [he0]; rfl
      refine (insertAll_spec c hR orcs tokens m1 hi1 hnd (fun e _ => habs1 e.k)).mono (fun m' hs => ⟨hs.1, fun k => ?_⟩)
      rw [hs.2 k, habs1 k]
      cases lookupIn tokens k <;> rfl

/-- a stream is not a map: with keys repeated in it (and whatever the size hint says) inserting it is the reference
    map's fold of `insert` — the last value of a key wins, the key is stored once -/
theorem insertAll_fold (c : Cfg) (hR : 0 < c.R) (orcs : Nat → Orc) :
    ∀ (tokens : List Entry) (m : Map), Inv c.R m →
      OkOrCap (insertAll c m tokens orcs) (fun m' =>
        Inv c.R m' ∧ ∀ k, absOf m' k = C01.specExtend (absOf m) tokens k) := by
  intro tokens
  induction tokens with
  | nil => intro m h; simp only [insertAll, OkOrCap]; exact ⟨h, fun _ => rfl⟩
  | cons e rest ih =>
    intro m h
    unfold insertAll
    have hs := Map.insert_spec c hR m e (orcs rest.length) h
    cases hr : Map.insert c m e (orcs rest.length) with
    | error f => rw [hr] at hs; exact hs
    | ok r =>
      obtain ⟨m1, out⟩ := r
      rw [hr] at hs
      simp only [OkOrCap] at hs
      obtain ⟨hi1, ha1, _⟩ := hs
      dsimp only
      have h2 := ih m1 hi1
      cases hr2 : insertAll c m1 rest orcs with
      | error f => rw [hr2] at h2; exact h2
      | ok m2 =>
        rw [hr2] at h2
        simp only [OkOrCap] at h2 ⊢
        refine ⟨h2.1, fun k => ?_⟩
        rw [h2.2 k]
        have hfun : absOf m1 = (match absOf m e.k with
                                 | some _ => specUpd (absOf m) e.k e.v e.vid
                                 | none => specIns (absOf m) e) := by
          funext k'
          rw [ha1 k']
          cases absOf m e.k <;> rfl
        rw [hfun]
        rfl

/-- **deserialising ANY stream** — repeated keys, honest / absent / lying hint —: the invariant, and the contents
    of the reference map built by inserting the pairs in order -/
theorem de_stream (c : Cfg) (hR : 0 < c.R) (tokens : List Entry) (hint : Option Nat) (orcs : Nat → Orc) :
    OkOrCap (deserialize c tokens hint orcs) (fun m' =>
      Inv c.R m' ∧ ∀ k, absOf m' k = C01.specExtend (fun _ => none) tokens k) := by
  unfold deserialize Map.withCapacity
  have hw := C01.inv_withCapacity c (cautious hint)
  cases hr : Raw.withCapacity c (cautious hint) with
  | error f => rw [hr] at hw; exact hw
  | ok r =>
    obtain ⟨m0, cost⟩ := r
    rw [hr] at hw
    simp only [OkOrCap] at hw
    obtain ⟨hi0, he0, _⟩ := hw
    dsimp only
    have habs0 : absOf m0 = fun _ => none := by funext k; unfold absOf; rw [he0]; rfl
    refine (insertAll_fold c hR orcs tokens m0 hi0).mono (fun m' hs => ⟨hs.1, fun k => ?_⟩)
    rw [hs.2 k, habs0]

/-- non-vacuity: the stream (1,10) (2,20) (1,11) with a hint of 3 gives two entries, key 1 with the LAST value -/
example :
    (match deserialize { R := 8 } [⟨1, 1, 10, 2⟩, ⟨2, 3, 20, 4⟩, ⟨1, 5, 11, 6⟩] (some 3) (fun _ => {}) with
     | .ok m => (m.len, (m.find 1).map (fun p => p.2.v), (m.find 2).map (fun p => p.2.v))
     | .error _ => (0, none, none)) = (2, some 11, some 20) := by decide

end Griddle.C16
