/-
  C07 — A panic in user code never corrupts the map.     (PARTIAL)

  Proved on the model of unwinding (`GriddleModel.Panic`), for every state satisfying the
  invariant, every callback index and every oracle:
  * a `Hash` panic inside `carry` (hence inside any key-adding call, after its own insertion)
    leaves a state satisfying the invariant — so `len()` = number of iterated entries, every entry
    is found by `get`, the cached cursor agrees, and every later history behaves like the reference
    map (`C01.run_refines`) — and loses exactly the one element that was being relocated;
  * a closure panic inside `retain` / `drain_filter` at any call index leaves the state reached
    by the completed visits: invariant, nothing lost that the closure did not reject;
  * a closure panic inside `replace_entry_with` loses exactly the element handed to the closure;
  * lookups are pure in the model: a `Hash` / `Eq` panic there changes nothing.
  NOT modelled (rests on the fault-injection runs on the real crate): hashbrown's own unwind
  guards inside `shrink_to` / `reserve` (`resize_inner`), `clone` and `clone_from`.
-/
import GriddleModel.Panic
import GriddleModel.Lemmas.Retain
namespace Griddle.C07

macro "triv" : tactic => `(tactic| first | trivial | rfl)

def optList (o : Option Entry) : List Entry := match o with | some e => [e] | none => []
def oldList (o : Option Old) : List Entry := match o with | some o' => o'.ents | none => []

/-- what the unwinding leaves: a well-formed main table that received `moved` elements for at
    most `moved` units of headroom, an old table still in agreement with its cursor and shorter by
    `moved` (+1 if an element was lost), and nothing else lost or duplicated -/
def FusedPost (main : HB) (o : Old) (n : Nat) (r : HB × Option Old × Option Entry) : Prop :=
  r.1.buckets = main.buckets ∧ r.1.WF ∧
  main.ents.length ≤ r.1.ents.length ∧
  main.gl ≤ r.1.gl + (r.1.ents.length - main.ents.length) ∧
  r.1.ents.length - main.ents.length ≤ min n o.ents.length ∧
  (∀ o', r.2.1 = some o' → o'.cursor = o'.ents.length ∧
      o'.ents.length + (r.1.ents.length - main.ents.length) + (if r.2.2.isSome then 1 else 0) = o.ents.length) ∧
  (r.2.1 = none → r.2.2 = none) ∧
  (r.2.2 = none → (o.ents.length ≤ n → r.2.1 = none) ∧
      (n < o.ents.length → r.1.ents.length - main.ents.length = n)) ∧
  (optList r.2.2 ++ (r.1.ents ++ oldList r.2.1)).Perm (main.ents ++ o.ents)

theorem carryLoopFused_spec (n : Nat) : ∀ (main : HB) (o : Old) (fuse hits : Nat),
    main.WF → o.cursor = o.ents.length → min n o.ents.length ≤ main.gl →
    OkOr (carryLoopFused main o n fuse hits) (FusedPost main o n) := by
  induction n with
  | zero =>
    intro main o fuse hits hwf hag _
    unfold carryLoopFused
    by_cases hL : o.ents.length = 0
    · have hnil : o.ents = [] := List.eq_nil_of_length_eq_zero hL
      rw [if_pos hL]
      show FusedPost main o 0 (main, none, none)
      unfold FusedPost; dsimp only
      refine ⟨rfl, hwf, Nat.le_refl _, by omega, by omega, fun o' ho' => (by cases ho'), fun _ => rfl,
        fun _ => ⟨fun _ => rfl, fun hlt => by omega⟩, ?_⟩
      simp [optList, oldList, hnil]
    · rw [if_neg hL]
      show FusedPost main o 0 (main, some o, none)
      unfold FusedPost; dsimp only
      refine ⟨rfl, hwf, Nat.le_refl _, by omega, by omega, ?_, fun hc => (by cases hc),
        fun _ => ⟨fun hle => by omega, fun _ => by omega⟩, ?_⟩
      · intro o' ho'; cases ho'; exact ⟨hag, by simp⟩
      · simp [optList, oldList]
  | succ n ih =>
    intro main o fuse hits hwf hag hroom
    unfold carryLoopFused
    by_cases hc : o.cursor = 0
    · have hL : o.ents.length = 0 := by omega
      have hnil : o.ents = [] := List.eq_nil_of_length_eq_zero hL
      rw [if_pos hc]
      show FusedPost main o (n + 1) (main, none, none)
      unfold FusedPost; dsimp only
      refine ⟨rfl, hwf, Nat.le_refl _, by omega, by omega, fun o' ho' => (by cases ho'), fun _ => rfl,
        fun _ => ⟨fun _ => rfl, fun hlt => by omega⟩, ?_⟩
      simp [optList, oldList, hnil]
    · rw [if_neg hc]
      match hents : o.ents with
      | [] => rw [hents] at hag; simp at hag; omega
      | e :: rest =>
        have hlen : o.ents.length = rest.length + 1 := by rw [hents]; rfl
        dsimp only
        by_cases hf : fuse = 0
        · rw [if_pos hf]
          show FusedPost main o (n + 1) (main, some { o with ents := rest, cursor := o.cursor - 1 }, some e)
          unfold FusedPost; dsimp only
          refine ⟨rfl, hwf, Nat.le_refl _, by omega, by omega, ?_, fun hc => (by cases hc),
            fun hc => (by cases hc), ?_⟩
          · intro o' ho'; cases ho'
            refine ⟨?_, ?_⟩
            · show o.cursor - 1 = rest.length; omega
            · show rest.length + (main.ents.length - main.ents.length) + 1 = o.ents.length; omega
          · rw [hents]; simp only [optList, oldList, List.singleton_append]
            exact (List.perm_middle).symm
        · rw [if_neg hf]
          have hroom' : 0 < main.gl := by rw [hlen] at hroom; omega
          have hins := HB.insertNoGrow_spec main e (decide (0 < hits)) hwf hroom'
          match hres : main.insertNoGrow e (decide (0 < hits)) with
          | .error f => rw [hres] at hins; simpa [OkOr] using hins
          | .ok main' =>
            rw [hres] at hins
            simp only [OkOr] at hins
            obtain ⟨hb, he, hwf', hgl1, hgl2⟩ := hins
            dsimp only
            have hml : main'.ents.length = main.ents.length + 1 := by rw [he]; rfl
            have hrec := ih main' { o with ents := rest, cursor := o.cursor - 1 } (fuse - 1) (hits - 1) hwf'
              (by show o.cursor - 1 = rest.length; omega)
              (by show min n rest.length ≤ main'.gl; rw [hlen] at hroom; omega)
            cases hr : carryLoopFused main' { o with ents := rest, cursor := o.cursor - 1 } n (fuse - 1) (hits - 1) with
            | error f => rw [hr] at hrec; exact hrec
            | ok r =>
              rw [hr] at hrec
              simp only [OkOr, FusedPost] at hrec ⊢
              obtain ⟨h1, h2, h3, h4, h5, h6, h7, h8, h9⟩ := hrec
              refine ⟨by rw [h1, hb], h2, by omega, by omega, ?_, ?_, h7, ?_, ?_⟩
              · rw [hlen]; omega
              · intro o' ho'
                obtain ⟨a1, a2⟩ := h6 o' ho'
                refine ⟨a1, ?_⟩
                rw [hlen]; omega
              · intro hnone
                obtain ⟨b1, b2⟩ := h8 hnone
                refine ⟨fun hle => b1 (by rw [hlen] at hle; omega), fun hlt => ?_⟩
                have := b2 (by rw [hlen] at hlt; omega)
                omega
              · rw [he] at h9
                refine h9.trans ?_
                rw [hents]
                simp only [List.cons_append]
                exact (List.perm_middle).symm

/-- **A `Hash` panic while `carry` relocates elements** (at any call index, any oracle): the map
    still satisfies the invariant, and exactly the element being relocated is lost. -/
theorem carry_hash_panic_safe (c : Cfg) (hR : 0 < c.R) (t : Raw) (fuse hits : Nat)
    (hwf : t.main.WF) (hag : ∀ o, t.lo = some o → o.cursor = o.ents.length)
    (hhead : ∀ o, t.lo = some o → o.ents.length + ceilDiv o.ents.length c.R ≤ t.main.gl + 1)
    (hnd : (keysOf t.ents).Nodup) :
    OkOr (Raw.carryFused c t fuse hits) (fun r =>
      Inv c.R r.1 ∧ (optList r.2 ++ r.1.ents).Perm t.ents ∧
      r.1.main.buckets = t.main.buckets) := by
  unfold Raw.carryFused
  cases hlo : t.lo with
  | none =>
    simp only [OkOr]
    have : t = { main := t.main, lo := none } := by cases t; simp_all
    refine ⟨⟨hwf, ?_, ?_, hnd⟩, by simp [optList], by triv⟩
    · intro o ho; rw [hlo] at ho; cases ho
    · intro o ho; rw [hlo] at ho; cases ho
  | some o =>
    have hago := hag o hlo
    have hh := hhead o hlo
    have hroom : min c.R o.ents.length ≤ t.main.gl := by
      rcases Nat.eq_zero_or_pos o.ents.length with h0 | hpos
      · rw [h0]; simp
      · have := ceilDiv_pos o.ents.length c.R hR hpos
        have : min c.R o.ents.length ≤ o.ents.length := Nat.min_le_right _ _
        omega
    have hsp := carryLoopFused_spec c.R t.main o fuse hits hwf hago hroom
    dsimp only
    cases hres : carryLoopFused t.main o c.R fuse hits with
    | error f => rw [hres] at hsp; simpa [OkOr] using hsp
    | ok r =>
      obtain ⟨m, lo', lost⟩ := r
      rw [hres] at hsp
      simp only [OkOr, FusedPost] at hsp ⊢
      obtain ⟨h1, h2, h3, h4, h5, h6, h7, h8, h9⟩ := hsp
      have hents : t.ents = t.main.ents ++ o.ents := by simp [Raw.ents, hlo]
      have hperm : (optList lost ++ Raw.ents { main := m, lo := lo' }).Perm t.ents := by
        rw [hents]
        have : Raw.ents { main := m, lo := lo' } = m.ents ++ oldList lo' := by
          unfold Raw.ents oldList; cases lo' <;> rfl
        rw [this]; exact h9
      refine ⟨⟨h2, fun o' ho' => (h6 o' ho').1, ?_, ?_⟩, hperm, h1⟩
      · intro o' ho'
        obtain ⟨a1, a2⟩ := h6 o' ho'
        show o'.ents.length + ceilDiv o'.ents.length c.R ≤ m.gl ∧ 1 ≤ m.gl
        -- moved = elements that went into the main table; each cost at most one unit of headroom
        generalize hmv : m.ents.length - t.main.ents.length = moved at *
        have hle : o'.ents.length ≤ o.ents.length := by omega
        have hmono := ceilDiv_mono o'.ents.length o.ents.length c.R hle
        cases hl : lost with
        | some e =>
          -- an element was lost: it left the old table without using headroom
          rw [hl] at a2
          simp only [Option.isSome, if_true] at a2
          have hposL := ceilDiv_pos o.ents.length c.R hR (by omega)
          constructor <;> omega
        | none =>
          rw [hl] at a2
          simp only [Option.isSome, Bool.false_eq_true, if_false] at a2
          obtain ⟨b1, b2⟩ := h8 hl
          rcases Nat.lt_or_ge c.R o.ents.length with hlt | hge
          · have hm := b2 hlt
            have hcd := ceilDiv_sub o.ents.length c.R hR (by omega)
            have hol : o'.ents.length = o.ents.length - c.R := by omega
            rw [hol]
            have hpos' := ceilDiv_pos (o.ents.length - c.R) c.R hR (by omega)
            constructor <;> omega
          · have := b1 hge
            rw [this] at ho'; cases ho'
      · have := (keysOf_perm hperm).nodup_iff.2 hnd
        simp only [keysOf, List.map_append] at this
        exact (List.nodup_append.1 this).2.1

/-- from a state satisfying the invariant (the `carry` of an overwriting `insert`, or any `carry`) -/
theorem carry_hash_panic_safe_inv (c : Cfg) (hR : 0 < c.R) (t : Raw) (fuse hits : Nat) (h : Inv c.R t) :
    OkOr (Raw.carryFused c t fuse hits) (fun r =>
      Inv c.R r.1 ∧ (optList r.2 ++ r.1.ents).Perm t.ents ∧ r.1.main.buckets = t.main.buckets) :=
  carry_hash_panic_safe c hR t fuse hits h.wf h.agree
    (fun o ho => by have := (h.head o ho).1; omega) h.nodup

/-- **A `Hash` panic inside a key-adding `insert`** (after the new element went in, while `carry`
    relocates): the new element stays, the invariant holds, at most the element being relocated is
    lost. -/
theorem insert_hash_panic_safe (c : Cfg) (hR : 0 < c.R) (t : Raw) (e : Entry) (fuse hits : Nat)
    (h : Inv c.R t) (hroom : 0 < t.main.gl) (hfresh : e.k ∉ keysOf t.ents) :
    OkOr (match t.main.insertNoGrow e (decide (0 < hits)) with
          | .error f => .error f
          | .ok m => Raw.carryFused c { t with main := m } fuse (hits - 1)) (fun r =>
      Inv c.R r.1 ∧ (optList r.2 ++ r.1.ents).Perm (e :: t.ents)) := by
  have hins := HB.insertNoGrow_spec t.main e (decide (0 < hits)) h.wf hroom
  cases hres : t.main.insertNoGrow e (decide (0 < hits)) with
  | error f => rw [hres] at hins; exact hins
  | ok m =>
    rw [hres] at hins
    simp only [OkOr] at hins
    obtain ⟨hb, he, hwf', hgl1, hgl2⟩ := hins
    dsimp only
    have hents' : Raw.ents { t with main := m } = e :: t.ents := by simp [Raw.ents, he]
    have hnd' : (keysOf (Raw.ents { t with main := m })).Nodup := by
      rw [hents']; simp only [keysOf, List.map_cons, List.nodup_cons]; exact ⟨hfresh, h.nodup⟩
    have hs := carry_hash_panic_safe c hR { t with main := m } fuse (hits - 1) hwf'
      (fun o ho => h.agree o ho)
      (fun o ho => by
        have := h.head o ho
        show o.ents.length + ceilDiv o.ents.length c.R ≤ m.gl + 1; omega) hnd'
    cases hr : Raw.carryFused c { t with main := m } fuse (hits - 1) with
    | error f => rw [hr] at hs; exact hs
    | ok r =>
      rw [hr] at hs
      simp only [OkOr] at hs ⊢
      exact ⟨hs.1, by rw [← hents']; exact hs.2.1⟩

theorem placed_prefix {nMain : Nat} {m : Raw} : ∀ (pre suf : List Nat) (i : Nat),
    Placed nMain i (pre ++ suf) m → Placed nMain i pre m := by
  intro pre
  induction pre with
  | nil => intro _ _ _; trivial
  | cons k rest ih => intro suf i h; exact ⟨h.1, ih suf (i + 1) h.2⟩

/-- **A closure panic inside `retain`** at its `fuse`-th call: the visits before it completed;
    the invariant holds; the state denotes the map with exactly the rejected visited elements
    removed — nothing else is lost. -/
theorem retain_closure_panic_safe {R : Nat} (hR : 0 < R) (m : Map) (p : Pred) (fuse : Nat) (o : Orc) (h : Inv R m) :
    OkOr (Map.retainFused m p fuse o) (fun r =>
      Inv R r.1 ∧ absOf r.1 = specRetain p (absOf m) (o.calls.take fuse)) := by
  unfold Map.retainFused
  cases hok : Map.iterOrderOk m o.calls with
  | false => simp [OkOr]
  | true =>
    simp only [Bool.not_true, Bool.false_eq_true, if_false]
    obtain ⟨hpl, hnd, _⟩ := placed_of_iterOrderOk m o.calls h hok
    have hsplit : o.calls = o.calls.take fuse ++ o.calls.drop fuse := (List.take_append_drop _ _).symm
    have hpl' : Placed m.main.ents.length 0 (o.calls.take fuse) m :=
      placed_prefix (o.calls.take fuse) (o.calls.drop fuse) 0 (by rw [← hsplit]; exact hpl)
    have hnd' : (o.calls.take fuse).Nodup := List.Nodup.sublist (List.take_sublist _ _) hnd
    obtain ⟨m', c', hr, hi, ha, _⟩ :=
      retainLoop_spec hR p m.main.ents.length (o.calls.take fuse) 0 m o.empt {} h hnd' hpl'
    rw [hr]
    exact ⟨hi, ha⟩

/-- **A closure panic inside `replace_entry_with`**: the element handed to the closure is lost,
    nothing else; the invariant (incl. cursor agreement) holds. -/
theorem replace_closure_panic_safe {R : Nat} (hR : 0 < R) (m : Map) (k : Nat) (o : Orc) (h : Inv R m) :
    ∃ m' lost, Map.replaceFused m k o = .ok (m', lost) ∧ Inv R m' ∧
      (optList lost ++ m'.ents).Perm m.ents ∧ (lost = none ↔ absOf m k = none) := by
  unfold Map.replaceFused
  have habs := find_eq_abs h k
  cases hf : m.find k with
  | none =>
    rw [hf] at habs
    exact ⟨m, none, rfl, h, by simp [optList], ⟨fun _ => habs.symm, fun _ => rfl⟩⟩
  | some p =>
    obtain ⟨loc, e⟩ := p
    rw [hf] at habs
    obtain ⟨m', cost, hr, hi, hp, _⟩ := eraseAt_spec hR h hf (decide (0 < o.empt))
    simp only [hr]
    refine ⟨m', some e, rfl, hi, by simpa [optList] using hp, ⟨fun hc => (by cases hc), fun hc => ?_⟩⟩
    rw [hc] at habs; cases habs

/-- **After any of these caught panics, later operations behave normally**: the state satisfies the
    invariant, so every later history refines the reference map from it (`C01.run_refines`). -/
theorem later_ops_normal (c : Cfg) (hR : 0 < c.R) (orcs : Nat → Orc) (ops : List Op) (m : Map)
    (h : Inv c.R m) (hpre : runPre c m ops orcs) :
    OkOrCap (run c m ops orcs) (fun r =>
      Inv c.R r.1 ∧ (∀ k, absOf r.1 k = (specRun (absOf m) ops).1 k)) :=
  (run_refines c hR orcs ops m h hpre).mono (fun _ hs => ⟨hs.1, hs.2.1⟩)

/-- non-vacuity: the fuse does fire and an element is lost -/
example :
    let t : Raw := { main := { buckets := 16, ents := [], gl := 14 },
                     lo := some { buckets := 4, ents := [⟨1, 1, 1, 2⟩, ⟨2, 3, 1, 4⟩, ⟨3, 5, 1, 6⟩], cursor := 3 } }
    (match Raw.carryFused { R := 8 } t 1 0 with
     | .ok (t', lost) => (t'.main.ents.map (·.k), (oldList t'.lo).map (·.k), lost.map (·.k))
     | .error _ => ([], [], none)) = ([1], [3], some 2) := by decide

end Griddle.C07
