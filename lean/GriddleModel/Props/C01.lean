/-
  C01 — HashMap is observationally a sequential key-value map in every resize phase.

  `run_refines`: every history over {insert, get*, get_mut+write, remove*, clear, reserve,
  try_reserve, shrink_to} started in ANY state satisfying the invariant (= any resize phase:
  none, just started, partly moved, old table emptied by removals or in place) and run with ANY
  oracle resolution (= any hasher, placement, tombstone pattern, iteration order) either ends in a
  documented capacity-overflow panic / OOM abort of a growth or yields the reference map's return
  values and contents.  The invariant holds initially (`inv_new`, `inv_withCapacity`).

  PARTIAL with respect to the property's op list: entry / raw-entry chains are in C12, retain /
  drain_filter in C09, iterators and drain in C08, clone in C11, extend / from_iter are
  `reserve` followed by `insert`s (map.rs:3099-3115) and covered as such.
-/
import GriddleModel.Lemmas.Steps
import GriddleModel.Lemmas.Small
namespace Griddle.C01

theorem inv_new (R : Nat) : Inv R Raw.new := by
  refine ⟨by simp [Raw.new, HB.WF, fullCap], ?_, ?_, by simp [Raw.new, Raw.ents, keysOf]⟩ <;>
    (intro o ho; cases ho)

theorem inv_withCapacity (c : Cfg) (cap : Nat) :
    OkOrCap (Raw.withCapacity c cap) (fun r => Inv c.R r.1 ∧ r.1.ents = [] ∧ cap ≤ r.1.capacity) := by
  unfold Raw.withCapacity
  cases h : HB.tryWithCapacity c cap with
  | error e => cases e <;> simp [OkOrCap]
  | ok t =>
    obtain ⟨h1, h2, h3, _⟩ := tryWithCapacity_spec c cap t h
    simp only [OkOrCap]
    refine ⟨⟨h2, ?_, ?_, by simp [Raw.ents, h1, keysOf]⟩, by simp [Raw.ents, h1], ?_⟩
    · intro o ho; cases ho
    · intro o ho; cases ho
    · simp only [Raw.capacity, HB.capacity]; omega

/-- **One call refines the reference map**: for every invariant state, argument and oracle the
    call either ends with the documented capacity-overflow panic / OOM abort of a growth, or yields
    an invariant state denoting the reference result and returns the reference's value. -/
theorem step_refines (c : Cfg) (hR : 0 < c.R) (m : Map) (op : Op) (o : Orc) (h : Inv c.R m) (hp : pre m op) :
    OkOrCap (step c m op o) (fun r =>
      Inv c.R r.1 ∧ (∀ k, absOf r.1 k = (specStep (absOf m) op).1 k) ∧
      (∀ ret, (specStep (absOf m) op).2 = some ret → r.2.ret = ret)) :=
  Griddle.step_refines c hR m op o h hp

/-- **Every history refines the reference map**, from any invariant state, for every oracle
    resolution. -/
theorem run_refines (c : Cfg) (hR : 0 < c.R) (orcs : Nat → Orc) (ops : List Op) (m : Map)
    (h : Inv c.R m) (hpre : runPre c m ops orcs) :
    OkOrCap (run c m ops orcs) (fun r =>
      Inv c.R r.1 ∧ (∀ k, absOf r.1 k = (specRun (absOf m) ops).1 k) ∧
      retsAgree r.2 (specRun (absOf m) ops).2) :=
  Griddle.run_refines c hR orcs ops m h hpre

/-- Every map a program can construct starts with a main table that passed hashbrown's layout
    check (or is the unallocated singleton): `new`, `with_capacity`. -/
theorem small_new : Small Raw.new := Griddle.small_new

theorem small_withCapacity (c : Cfg) (cap : Nat) (r : Raw × Cost) (h : Raw.withCapacity c cap = .ok r) :
    Small r.1 := by
  unfold Raw.withCapacity at h
  cases ht : HB.tryWithCapacity c cap with
  | error e => rw [ht] at h; cases e <;> cases h
  | ok t =>
    rw [ht] at h
    cases h
    exact tryWithCapacity_small ht

/-- **Every history refines the reference map — no side condition.**  The size invariant
    (`Small`: the main table passed the layout check, so it has fewer than `2^63` buckets) is
    established by `new` / `with_capacity` and preserved by every call (`step_small`); with the
    headroom invariant it makes `shrink_to`'s unchecked sums fit a `usize`, which discharges
    `runPre`. -/
theorem run_refines_unconditional (c : Cfg) (hR : 0 < c.R) (orcs : Nat → Orc) (ops : List Op) (m : Map)
    (h : Inv c.R m) (hs : Small m) :
    OkOrCap (run c m ops orcs) (fun r =>
      Inv c.R r.1 ∧ (∀ k, absOf r.1 k = (specRun (absOf m) ops).1 k) ∧
      retsAgree r.2 (specRun (absOf m) ops).2) :=
  Griddle.run_refines_small c hR orcs ops m h hs

/-- in particular from a fresh map -/
theorem run_refines_from_new (c : Cfg) (hR : 0 < c.R) (orcs : Nat → Orc) (ops : List Op) :
    OkOrCap (run c Raw.new ops orcs) (fun r =>
      Inv c.R r.1 ∧ (∀ k, absOf r.1 k = (specRun (fun _ => none) ops).1 k) ∧
      retsAgree r.2 (specRun (fun _ => none) ops).2) := by
  have := run_refines_unconditional c hR orcs ops Raw.new (inv_new c.R) small_new
  have h0 : absOf Raw.new = fun _ => none := by funext k; rfl
  rw [h0] at this
  exact this

/-- `len()` is the number of stored entries, `is_empty()` accordingly -/
theorem len_eq_card (t : Raw) : t.len = t.ents.length := Raw.len_eq t

/-- lookups compute the abstraction wherever the element lives -/
theorem find_eq_abs {R : Nat} {t : Raw} (h : Inv R t) (k : Nat) : (t.find k).map (·.2) = absOf t k :=
  Griddle.find_eq_abs h k

/-- non-vacuity: a partly-moved state with tombstones satisfies the invariant, and a lookup of a
    key parked in the old table finds it -/
example :
    let t : Raw := { main := { buckets := 16, ents := [⟨1, 10, 5, 11⟩, ⟨9, 12, 6, 13⟩], gl := 7 },
                     lo := some { buckets := 8, ents := [⟨2, 14, 7, 15⟩, ⟨3, 16, 8, 17⟩], cursor := 2 } }
    Inv 8 t ∧ (t.find 3).map (·.2.v) = some 8 ∧ (t.find 9).map (·.1.inMain) = some true := by
  refine ⟨⟨by simp [HB.WF, fullCap], ?_, ?_, by decide⟩, by decide, by decide⟩
  · intro o ho; cases ho; rfl
  · intro o ho; cases ho; simp [ceilDiv]

end Griddle.C01
