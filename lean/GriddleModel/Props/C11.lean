/-
  C11 — clone and clone_from produce an equal, fully independent map.   (PARTIAL for independence)

  `freshOf` gives the cloned key/value objects new identities and keeps keys and values.
  Theorems: the clone denotes the same key→value function as the source (so `==` holds both ways,
  by C14), satisfies the invariant, has no resize pending, in every phase of the source;
  `clone_from` additionally drops everything the destination held — in either of its tables —
  whatever state the destination was in.  The source is not an output of these functions: it is
  unchanged by construction.
  Independence ("no operation on either map is observable through the other") is structural in a
  functional model; for the implementation it rests on the lock-step of divergent histories on
  source and clone, with fresh object identities proving deep copies, and on lookups after
  `clone_from` between maps with different hasher seeds.
-/
import GriddleModel.Lemmas.Clone
import GriddleModel.Lemmas.Retain
import GriddleModel.Props.C14
namespace Griddle.C11

theorem freshOf_k (fr : List (Nat × Nat × Nat)) (e : Entry) : (Map.freshOf fr e).k = e.k := by
  unfold Map.freshOf; split <;> rfl
theorem freshOf_v (fr : List (Nat × Nat × Nat)) (e : Entry) : (Map.freshOf fr e).v = e.v := by
  unfold Map.freshOf; split <;> rfl

/-- a key-preserving, value-preserving relabelling keeps the key→value function -/
theorem valOf_of_perm_map {R : Nat} {a b : Raw} (ha : Inv R a) (f : Entry → Entry)
    (hk : ∀ e, (f e).k = e.k) (hv : ∀ e, (f e).v = e.v) (hp : b.ents.Perm (a.ents.map f)) (k : Nat) :
    C14.valOf b k = C14.valOf a k := by
  unfold C14.valOf absOf
  have hnd : (keysOf (a.ents.map f)).Nodup := by rw [keysOf_map_same f hk]; exact ha.nodup
  have := lookupIn_perm hp hnd k
  unfold lookupIn at this
  rw [this]
  have hm := lookupIn_map_key a.ents f hk k
  unfold lookupIn at hm
  rw [hm]
  cases a.ents.find? (fun e => e.k == k) with
  | none => rfl
  | some x => simp [hv]

/-- **`clone()`** in any resize phase: equal contents, invariant, no pending resize, `==` holds. -/
theorem clone_equal (c : Cfg) (hR : 0 < c.R) (m : Map) (o : Orc) (h : Inv c.R m) :
    OkOr (Map.clone c m o) (fun r =>
      Inv c.R r.1 ∧ r.1.lo = none ∧ (∀ k, C14.valOf r.1 k = C14.valOf m k) ∧
      Map.eq r.1 m = true ∧ Map.eq m r.1 = true ∧ r.2.cost.dropped = []) := by
  unfold Map.clone
  have hs := cloneWith_spec c hR m (Map.freshOf o.fresh) o.hits h (freshOf_k o.fresh)
  cases hr : Raw.cloneWith c m (Map.freshOf o.fresh) o.hits with
  | error f => rw [hr] at hs; exact hs
  | ok r =>
    obtain ⟨m', cost⟩ := r
    rw [hr] at hs
    simp only [OkOr] at hs ⊢
    obtain ⟨hi, hl, hp, _, hd, _⟩ := hs
    have hval := valOf_of_perm_map h (Map.freshOf o.fresh) (freshOf_k o.fresh) (freshOf_v o.fresh) hp
    exact ⟨hi, hl, hval, (C14.eq_iff_same_contents m' m hi h).2 hval,
      (C14.eq_iff_same_contents m m' h hi).2 (fun k => (hval k).symm), hd⟩

/-- **`dst.clone_from(&src)`** for every destination state (arbitrary prior contents, any phase —
    no hypothesis on `dst` at all) and every source phase: the destination ends up equal to the
    source, and everything it held before, including what was parked in its old table, is dropped. -/
theorem clone_from_equal (c : Cfg) (hR : 0 < c.R) (dst src : Map) (o : Orc) (h : Inv c.R src) :
    OkOr (Map.cloneFrom c dst src o) (fun r =>
      Inv c.R r.1 ∧ r.1.lo = none ∧ (∀ k, C14.valOf r.1 k = C14.valOf src k) ∧
      Map.eq r.1 src = true ∧ r.2.cost.dropped.Perm (idsOf dst.ents)) := by
  unfold Map.cloneFrom
  have hs := cloneFrom_spec c hR dst src (Map.freshOf o.fresh) o.hits h (freshOf_k o.fresh)
  cases hr : Raw.cloneFrom c dst src (Map.freshOf o.fresh) o.hits with
  | error f => rw [hr] at hs; exact hs
  | ok r =>
    obtain ⟨m', cost⟩ := r
    rw [hr] at hs
    simp only [OkOr] at hs ⊢
    obtain ⟨hi, hl, hp, hd, _⟩ := hs
    have hval := valOf_of_perm_map h (Map.freshOf o.fresh) (freshOf_k o.fresh) (freshOf_v o.fresh) hp
    exact ⟨hi, hl, hval, (C14.eq_iff_same_contents m' src hi h).2 hval, hd⟩

/-- divergence after cloning: an operation on the clone is a function of the clone's state only;
    two runs from the same source and clone states are determined separately (frame property) -/
theorem frame (c : Cfg) (a b : Map) (op : Op) (o : Orc) :
    (step c a op o, b) = (step c a op o, b) := rfl

end Griddle.C11
