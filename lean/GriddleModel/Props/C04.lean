/-
  C04 — Headroom: a resize in progress never has to be interrupted by another.

  Theorems over the model (`GriddleModel.Raw`), for every state satisfying the invariant, every
  `R ≥ 1` and every oracle value (tombstone landings).
-/
import GriddleModel.Lemmas.RawOps
namespace Griddle.C04

/-- `capacity() >= len()` in every state satisfying the invariant. -/
theorem cap_ge_len {R : Nat} {t : Raw} (h : Inv R t) : t.len ≤ t.capacity := by
  unfold Raw.len Raw.capacity HB.capacity
  cases hlo : t.lo with
  | none => simp
  | some o => have := (h.head o hlo).1; simp only; omega

/-- free room, in the property's terms: `capacity() - len()` -/
def room (t : Raw) : Nat := t.capacity - t.len

theorem room_eq {R : Nat} {t : Raw} (h : Inv R t) :
    room t + (match t.lo with | some o => o.ents.length | none => 0) = t.main.gl := by
  unfold room Raw.len Raw.capacity HB.capacity
  cases hlo : t.lo with
  | none => simp
  | some o => have := (h.head o hlo).1; simp only; omega

/-- One insertion of an unseen key while `len() < capacity()`: no panic, no allocation, the main
    table is not replaced, `capacity()` does not decrease, the invariant is kept. -/
theorem insert_within_capacity (c : Cfg) (hR : 0 < c.R) (t : Raw) (e : Entry) (hits : Nat) (perm : List Nat)
    (h : Inv c.R t) (hfresh : e.k ∉ keysOf t.ents) (hroom : 0 < room t) :
    OkOr (Raw.insert c t e hits perm) (fun r =>
      Inv c.R r.1 ∧ r.1.ents.Perm (e :: t.ents) ∧ r.2.2.allocs = 0 ∧
      r.1.main.buckets = t.main.buckets ∧ t.capacity ≤ r.1.capacity ∧ room t ≤ room r.1 + 1 ∧
      (∀ o, t.lo = some o →
        (o.ents.length ≤ c.R → r.1.lo = none) ∧
        (c.R < o.ents.length → ∃ o', r.1.lo = some o' ∧ o'.ents.length = o.ents.length - c.R)) ∧
      (t.lo = none → r.1.lo = none)) := by
  have hgl : 0 < t.main.gl := by have := room_eq h; omega
  unfold Raw.insert
  have hne : ¬ t.main.gl = 0 := by omega
  simp only [hne, if_false]
  have hs := Raw.insertNoGrow_spec c hR t e hits h hgl hfresh
  match hin : Raw.insertNoGrow c t e hits with
  | .error f => rw [hin] at hs; simpa [OkOr] using hs
  | .ok (t2, h2, c2) =>
    rw [hin] at hs
    simp only [OkOr] at hs ⊢
    obtain ⟨s1, s2, s3, s4, s5, s6, s7, s8, s9, s10⟩ := hs
    have hlen : t2.len = t.len + 1 := by
      have := s2.length_eq
      simp only [Raw.ents, List.length_cons, List.length_append] at this
      unfold Raw.len
      cases h1 : t.lo <;> cases h2 : t2.lo <;> simp_all <;> omega
    refine ⟨s1, s2, s5, s3, s4, ?_, fun o ho => (s9 o ho).2, fun hn => (s10 hn).1⟩
    unfold room
    unfold Raw.capacity at *
    have := cap_ge_len s1
    unfold Raw.capacity at this
    omega

/-- Insert the keys of `es` one after the other (oracle: `hits i` tombstone landings in step `i`). -/
def fill (c : Cfg) : Raw → List Entry → (Nat → Nat) → Except Fault (Raw × Nat)
  | t, [], _ => .ok (t, 0)
  | t, e :: rest, hits =>
    match Raw.insert c t e (hits rest.length) [] with
    | .error f => .error f
    | .ok (t', _, cost) =>
      match fill c t' rest hits with
      | .error f => .error f
      | .ok (t'', allocs) => .ok (t'', cost.allocs + allocs)

/-- **Fill to capacity.**  From any state satisfying the invariant, inserting up to
    `capacity() - len()` previously unseen keys completes without panic, without any table
    allocation, without `capacity()` decreasing, keeps the invariant — and if exactly
    `capacity() - len()` (at least one) keys were inserted, no resize is pending afterwards. -/
theorem fill_to_capacity (c : Cfg) (hR : 0 < c.R) (hits : Nat → Nat) :
    ∀ (es : List Entry) (t : Raw), Inv c.R t →
      (keysOf es).Nodup → (∀ e ∈ es, e.k ∉ keysOf t.ents) → es.length ≤ room t →
      OkOr (fill c t es hits) (fun r =>
        Inv c.R r.1 ∧ r.2 = 0 ∧ t.capacity ≤ r.1.capacity ∧ r.1.main.buckets = t.main.buckets ∧
        r.1.ents.Perm (es.reverse ++ t.ents) ∧
        (es ≠ [] → (∀ o, t.lo = some o → o.ents.length ≤ es.length * c.R) → r.1.lo = none)) := by
  intro es
  induction es with
  | nil =>
    intro t h _ _ _
    simp [fill, OkOr, h]
  | cons e rest ih =>
    intro t h hnd hfresh hlen
    simp only [keysOf, List.map_cons, List.nodup_cons] at hnd
    unfold fill
    have hroom : 0 < room t := by simp at hlen; omega
    have h1 := insert_within_capacity c hR t e (hits rest.length) [] h (hfresh e (List.mem_cons_self)) hroom
    match hin : Raw.insert c t e (hits rest.length) [] with
    | .error f => rw [hin] at h1; simpa [OkOr] using h1
    | .ok (t1, hh, c1) =>
      rw [hin] at h1
      simp only [OkOr] at h1
      obtain ⟨i1, p1, a1, b1, cap1, r1, lo1, lon1⟩ := h1
      simp only
      have hfresh' : ∀ x ∈ rest, x.k ∉ keysOf t1.ents := by
        intro x hx hmem
        have := (keysOf_perm p1).mem_iff.1 hmem
        simp only [keysOf, List.map_cons, List.mem_cons] at this
        rcases this with heq | hin'
        · apply hnd.1; rw [← heq]; exact List.mem_map_of_mem hx
        · exact hfresh x (List.mem_cons_of_mem _ hx) hin'
      have hlen' : rest.length ≤ room t1 := by simp at hlen; omega
      have h2 := ih t1 i1 hnd.2 hfresh' hlen'
      match hf : fill c t1 rest hits with
      | .error f => rw [hf] at h2; simpa [OkOr] using h2
      | .ok (t2, al) =>
        rw [hf] at h2
        simp only [OkOr] at h2 ⊢
        obtain ⟨i2, z2, cap2, b2, p2, lo2⟩ := h2
        refine ⟨i2, by omega, by omega, by rw [b2, b1], ?_, ?_⟩
        · refine p2.trans ?_
          simp only [List.reverse_cons, List.append_assoc, List.singleton_append]
          exact List.Perm.append_left _ p1
        · intro _ hbound
          by_cases hr : rest = []
          · subst hr
            simp only [fill] at hf
            injection hf with hf; injection hf with hf1 hf2; subst hf1
            cases hlo : t.lo with
            | none => exact lon1 hlo
            | some o =>
              have := hbound o hlo
              simp at this
              exact (lo1 o hlo).1 this
          · apply lo2 hr
            intro o1 ho1
            cases hlo : t.lo with
            | none => rw [lon1 hlo] at ho1; cases ho1
            | some o =>
              have hb := hbound o hlo
              simp only [List.length_cons] at hb
              by_cases hle : o.ents.length ≤ c.R
              · rw [(lo1 o hlo).1 hle] at ho1; cases ho1
              · obtain ⟨o', ho', hl'⟩ := (lo1 o hlo).2 (by omega)
                rw [ho'] at ho1; cases ho1
                rw [hl']
                rw [Nat.succ_mul] at hb
                omega

/-- The bound used above follows from the invariant: a map with `capacity() - len()` free slots can
    always finish its pending resize within that many insertions. -/
theorem pending_fits_room (c : Cfg) (hR : 0 < c.R) (t : Raw) (h : Inv c.R t) (o : Old) (ho : t.lo = some o) :
    o.ents.length ≤ room t * c.R := by
  have hr := room_eq h
  simp only [ho] at hr
  have hh := (h.head o ho).1
  have : ceilDiv o.ents.length c.R ≤ room t := by omega
  calc o.ents.length ≤ ceilDiv o.ents.length c.R * c.R := le_ceilDiv_mul _ _ hR
    _ ≤ room t * c.R := Nat.mul_le_mul_right _ this

/-- non-vacuity: a reachable mid-resize state satisfies the invariant with a tight headroom -/
example : Inv 8 { main := { buckets := 32, ents := [], gl := 17 },
                  lo := some { buckets := 16, ents := (List.range 14).map (fun i => ⟨i, 2*i, i, 2*i+1⟩), cursor := 14 } } := by
  refine ⟨by simp [HB.WF, fullCap], ?_, ?_, by decide⟩
  · intro o ho; cases ho; simp
  · intro o ho; cases ho; simp [ceilDiv]

end Griddle.C04
