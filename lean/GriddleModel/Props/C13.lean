/-
  C13 — HashSet behaves as a mathematical set.

  Single-set histories are map histories on unit values (C01, C09, C12 apply verbatim: `insert`,
  `remove`, `take`, `contains`, `get`, `retain`, `drain`, `drain_filter`, `extend`, `clear`,
  `replace` / `get_or_insert*` through the raw-entry chains).  This file proves the algebra:
  for ANY two sets in ANY states satisfying the invariant (each operand independently in any
  resize phase), with ANY iteration orders of the shape the real iterators have, `union`,
  `intersection`, `difference`, `symmetric_difference` yield each result element exactly once
  and have exactly the mathematical membership — for both operand orders, so the smaller/larger
  swap inside `union` / `intersection` is covered — and `is_subset`, `is_superset`,
  `is_disjoint` decide the mathematical relations.  `==` is `C14.eq_iff_same_contents`.
  The operator forms `| & ^ -` collect these sequences into a fresh set (`from_iter` = inserts).
-/
import GriddleModel.Set
import GriddleModel.Lemmas.Retain
namespace Griddle.C13
open SetAlg

/-- a faithful view: duplicate-free iteration, `contains` = membership in it, exact length -/
structure Faithful (a : View) : Prop where
  nodup : a.iter.Nodup
  mem : ∀ k, a.mem k = true ↔ k ∈ a.iter
  len : a.len = a.iter.length

/-- **Every set in every resize phase is viewed faithfully** by its iterator and `contains`. -/
theorem faithful_of_inv {R : Nat} (m : Map) (order : List Nat) (h : Inv R m)
    (hok : Map.iterOrderOk m order = true) : Faithful (viewOf m order) := by
  obtain ⟨_, hnd, hcov⟩ := placed_of_iterOrderOk m order h hok
  refine ⟨hnd, fun k => ?_, ?_⟩
  · show (m.find k).isSome = true ↔ k ∈ order
    rw [hcov k]
    cases hf : m.find k with
    | none => simp [(find_none_iff h k).1 hf]
    | some p =>
      obtain ⟨loc, e⟩ := p
      have := find_loc h hf
      simp only [Option.isSome, true_iff]
      rw [← this.2.1]; exact List.mem_map_of_mem this.2.2
  · show m.len = order.length
    rw [Raw.len_eq]
    have hperm : order.Perm (keysOf m.ents) := (List.perm_ext_iff_of_nodup hnd h.nodup).2 hcov
    rw [hperm.length_eq]; simp [keysOf]

theorem mem_false {a : View} (ha : Faithful a) (k : Nat) : a.mem k = false ↔ k ∉ a.iter := by
  rw [← ha.mem k]; cases a.mem k <;> simp

theorem difference_spec (a b : View) (ha : Faithful a) (hb : Faithful b) :
    (difference a b).Nodup ∧ ∀ k, k ∈ difference a b ↔ k ∈ a.iter ∧ k ∉ b.iter := by
  unfold difference
  refine ⟨List.Nodup.sublist List.filter_sublist ha.nodup, fun k => ?_⟩
  rw [List.mem_filter]
  constructor
  · rintro ⟨h1, h2⟩; exact ⟨h1, (mem_false hb k).1 (by simpa using h2)⟩
  · rintro ⟨h1, h2⟩; exact ⟨h1, by simpa using (mem_false hb k).2 h2⟩

theorem intersection_spec (a b : View) (ha : Faithful a) (hb : Faithful b) :
    (intersection a b).Nodup ∧ ∀ k, k ∈ intersection a b ↔ k ∈ a.iter ∧ k ∈ b.iter := by
  unfold intersection
  split
  · refine ⟨List.Nodup.sublist List.filter_sublist ha.nodup, fun k => ?_⟩
    rw [List.mem_filter, hb.mem k]
  · refine ⟨List.Nodup.sublist List.filter_sublist hb.nodup, fun k => ?_⟩
    rw [List.mem_filter, ha.mem k]; exact And.comm

theorem union_spec (a b : View) (ha : Faithful a) (hb : Faithful b) :
    (union a b).Nodup ∧ ∀ k, k ∈ union a b ↔ k ∈ a.iter ∨ k ∈ b.iter := by
  unfold union
  have dab := difference_spec a b ha hb
  have dba := difference_spec b a hb ha
  split
  · refine ⟨?_, fun k => ?_⟩
    · rw [List.nodup_append]
      refine ⟨hb.nodup, dab.1, fun x hx y hy hxy => ?_⟩
      subst hxy; exact ((dab.2 x).1 hy).2 hx
    · rw [List.mem_append, dab.2 k]
      constructor
      · rintro (h | ⟨h, _⟩); exact Or.inr h; exact Or.inl h
      · rintro (h | h)
        · by_cases hkb : k ∈ b.iter
          · exact Or.inl hkb
          · exact Or.inr ⟨h, hkb⟩
        · exact Or.inl h
  · refine ⟨?_, fun k => ?_⟩
    · rw [List.nodup_append]
      refine ⟨ha.nodup, dba.1, fun x hx y hy hxy => ?_⟩
      subst hxy; exact ((dba.2 x).1 hy).2 hx
    · rw [List.mem_append, dba.2 k]
      constructor
      · rintro (h | ⟨h, _⟩); exact Or.inl h; exact Or.inr h
      · rintro (h | h)
        · exact Or.inl h
        · by_cases hka : k ∈ a.iter
          · exact Or.inl hka
          · exact Or.inr ⟨h, hka⟩

theorem symmetric_difference_spec (a b : View) (ha : Faithful a) (hb : Faithful b) :
    (symmetricDifference a b).Nodup ∧
    ∀ k, k ∈ symmetricDifference a b ↔ (k ∈ a.iter ∧ k ∉ b.iter) ∨ (k ∈ b.iter ∧ k ∉ a.iter) := by
  unfold symmetricDifference
  have dab := difference_spec a b ha hb
  have dba := difference_spec b a hb ha
  refine ⟨?_, fun k => ?_⟩
  · rw [List.nodup_append]
    refine ⟨dab.1, dba.1, fun x hx y hy hxy => ?_⟩
    subst hxy; exact ((dba.2 x).1 hy).2 ((dab.2 x).1 hx).1
  · rw [List.mem_append, dab.2 k, dba.2 k]

theorem is_disjoint_spec (a b : View) (hb : Faithful b) :
    isDisjoint a b = true ↔ ∀ k, k ∈ a.iter → k ∉ b.iter := by
  unfold isDisjoint
  rw [List.all_eq_true]
  constructor
  · intro h k hk; exact (mem_false hb k).1 (by simpa using h k hk)
  · intro h k hk; simpa using (mem_false hb k).2 (h k hk)

theorem is_subset_spec (a b : View) (ha : Faithful a) (hb : Faithful b) :
    isSubset a b = true ↔ ∀ k, k ∈ a.iter → k ∈ b.iter := by
  unfold isSubset
  rw [Bool.and_eq_true, List.all_eq_true, decide_eq_true_eq]
  constructor
  · rintro ⟨_, h⟩ k hk; exact (hb.mem k).1 (h k hk)
  · intro h
    refine ⟨?_, fun k hk => (hb.mem k).2 (h k hk)⟩
    rw [ha.len, hb.len]
    exact List.Nodup.length_le_of_subset ha.nodup (fun k hk => h k hk)

theorem is_superset_spec (a b : View) (ha : Faithful a) (hb : Faithful b) :
    isSuperset a b = true ↔ ∀ k, k ∈ b.iter → k ∈ a.iter :=
  is_subset_spec b a hb ha

/-- commutativity as sets: both operand orders give the same members -/
theorem union_comm_mem (a b : View) (ha : Faithful a) (hb : Faithful b) (k : Nat) :
    k ∈ union a b ↔ k ∈ union b a := by
  rw [(union_spec a b ha hb).2 k, (union_spec b a hb ha).2 k]; exact Or.comm

theorem intersection_comm_mem (a b : View) (ha : Faithful a) (hb : Faithful b) (k : Nat) :
    k ∈ intersection a b ↔ k ∈ intersection b a := by
  rw [(intersection_spec a b ha hb).2 k, (intersection_spec b a hb ha).2 k]; exact And.comm

/-- non-vacuity: one operand mid-resize, the other not; the smaller/larger swap exercised -/
example :
    let a := viewOf { main := { buckets := 8, ents := [⟨1, 0, 0, 0⟩, ⟨2, 0, 0, 0⟩], gl := 5 }, lo := none } [1, 2]
    let b := viewOf { main := { buckets := 16, ents := [⟨9, 0, 0, 0⟩], gl := 9 },
                      lo := some { buckets := 4, ents := [⟨2, 0, 0, 0⟩, ⟨3, 0, 0, 0⟩], cursor := 2 } } [9, 2, 3]
    (union a b, intersection a b, difference a b, symmetricDifference a b, isSubset a b, isDisjoint a b)
      = ([1, 2, 9, 3], [2], [1], [1, 9, 3], false, false) := by decide

end Griddle.C13
