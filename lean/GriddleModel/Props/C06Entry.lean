/-
  C06 (continued) — the object ledger of `entry(k)…` / `raw_entry_mut().from_*(k)…` chains of any
  depth: the objects stored before the call, the key object passed to `entry`, and the objects the
  caller creates for the steps are afterwards exactly: stored, handed back, or dropped (the handle
  itself is dropped at the end of the call, with whatever key object it still carries).
-/
import GriddleModel.Lemmas.EntryLedger
import GriddleModel.Props.C12
namespace Griddle.C06

open Map

/-- the objects the caller creates along a chain (a step's objects only exist if the step applies
    to the handle it meets) -/
def chainIn (c : Cfg) (raw : Bool) (k : Nat) : List EStep → Map → ES → ChainAcc → Orc → List Nat
  | [], _, _, _, _ => []
  | s :: rest, m, st, acc, o =>
    stepIn raw st s ++
      (match chainStep c raw k m st acc s (o.digit (c.R + 2)) with
       | .ok (m', st', acc') => chainIn c raw k rest m' st' acc' (o.shift (c.R + 2))
       | .error _ => [])

theorem chain_ledger (c : Cfg) (hR : 0 < c.R) (raw : Bool) (k : Nat) :
    ∀ (steps : List EStep) (o : Orc) (m : Map) (st : ES) (acc : ChainAcc),
      Inv c.R m → HandleOK m k st → ESWF raw st → C12.chainApplicable c raw k steps m st acc o →
      OkOrCap (chainLoop c raw k steps m st acc o) (fun r =>
        msIds r.1.ents + restOf r.2.1 r.2.2
          = msIds m.ents + (restOf st acc + ms (chainIn c raw k steps m st acc o))) := by
  intro steps
  induction steps with
  | nil =>
    intro o m st acc _ _ _ _
    simp only [chainLoop, OkOrCap, chainIn, ms_nil]
    abel
  | cons s rest ih =>
    intro o m st acc h hok hwf happ
    unfold chainLoop
    have hs := chainStep_ledger c hR raw k m st acc s (o.digit (c.R + 2)) h hok hwf happ.1
    have hc := chainStep_ok c hR raw k m st acc s (o.digit (c.R + 2)) h hok happ.1
    cases hr : chainStep c raw k m st acc s (o.digit (c.R + 2)) with
    | error f => rw [hr] at hs; exact hs
    | ok r =>
      obtain ⟨m', st', acc'⟩ := r
      rw [hr] at hs hc
      simp only [OkOrCap] at hs hc
      have hrec := ih (o.shift (c.R + 2)) m' st' acc' hc.1 hc.2 hs.1 (happ.2 m' st' acc' hr)
      dsimp only
      cases hr2 : chainLoop c raw k rest m' st' acc' (o.shift (c.R + 2)) with
      | error f => rw [hr2] at hrec; exact hrec
      | ok q =>
        rw [hr2] at hrec
        simp only [OkOrCap] at hrec ⊢
        rw [hrec]
        simp only [chainIn, hr, ms_append]
        have h2 := hs.2
        calc msIds m'.ents + (restOf st' acc' + ms (chainIn c raw k rest m' st' acc' (o.shift (c.R + 2))))
            = (msIds m'.ents + restOf st' acc') + ms (chainIn c raw k rest m' st' acc' (o.shift (c.R + 2))) := by abel
          _ = (msIds m.ents + (restOf st acc + ms (stepIn raw st s))) + ms (chainIn c raw k rest m' st' acc' (o.shift (c.R + 2))) := by rw [h2]
          _ = _ := by abel

/-- the handle a lookup produces is well-formed: a raw handle carries no key, `entry(k)`'s does -/
theorem lookup_handle_wf (m : Map) (k kid : Nat) (raw : Bool) : ESWF raw (lookupState raw m k kid) := by
  unfold lookupState
  cases m.find k with
  | none => cases raw <;> simp [ESWF]
  | some p => cases raw <;> simp [ESWF]

/-- **The whole entry call conserves every object**: stored ⊎ handed back ⊎ dropped afterwards =
    stored before ⊎ the key object passed to `entry` (none for the raw API) ⊎ the objects created
    for the steps. -/
theorem ledger_entry_chain (c : Cfg) (hR : 0 < c.R) (raw : Bool) (lh : Nat) (m : Map) (k kid : Nat)
    (steps : List EStep) (o : Orc) (h : Inv c.R m)
    (happ : C12.chainApplicable c raw k steps m (lookupState raw m k kid) { cost := { hashes := lh } } o) :
    OkOrCap (entryChain c raw lh m k kid steps o) (fun r =>
      (idsOf r.1.ents ++ r.2.returned ++ r.2.cost.dropped).Perm
        (idsOf m.ents ++ (if raw then [] else [kid]) ++
          chainIn c raw k steps m (lookupState raw m k kid) { cost := { hashes := lh } } o)) := by
  unfold entryChain
  dsimp only
  have hs := chain_ledger c hR raw k steps o m _ { cost := { hashes := lh } } h
    (C12.lookup_handle_ok m k kid raw) (lookup_handle_wf m k kid raw) happ
  cases hr : chainLoop c raw k steps m (lookupState raw m k kid) { cost := { hashes := lh } } o with
  | error f => rw [hr] at hs; exact hs
  | ok r =>
    obtain ⟨m', st, acc⟩ := r
    rw [hr] at hs
    simp only [OkOrCap] at hs ⊢
    rw [ms_perm]
    simp only [ms_append, Cost.add_dropped]
    have hheld0 : ms (heldIds (lookupState raw m k kid)) = ms (if raw then [] else [kid]) := by
      unfold lookupState
      cases m.find k <;> cases raw <;> rfl
    have h0 : restOf (lookupState raw m k kid) { cost := { hashes := lh } } = ms (if raw then [] else [kid]) := by
      simp only [restOf, hheld0]
      abel
    rw [h0] at hs
    simp only [restOf] at hs
    have key : ∀ (hd : List Nat), hd = heldIds st →
        ms (idsOf m'.ents) + ms acc.returned + (ms acc.cost.dropped + ms hd)
          = ms (idsOf m.ents) + ms (if raw then [] else [kid]) +
            ms (chainIn c raw k steps m (lookupState raw m k kid) { cost := { hashes := lh } } o) := by
      intro hd hhd
      subst hhd
      calc ms (idsOf m'.ents) + ms acc.returned + (ms acc.cost.dropped + ms (heldIds st))
          = msIds m'.ents + (ms acc.returned + ms acc.cost.dropped + ms (heldIds st)) := by rw [msIds_def]; abel
        _ = _ := by rw [hs, msIds_def]; abel
    cases st with
    | occ loc spare => exact key _ rfl
    | vac key' => exact key _ rfl
    | done => exact key _ rfl

/-- non-vacuity: `entry(7).or_insert(v)` on a map without key 7 stores the key passed to `entry` and
    the value created for the step; nothing is dropped or handed back -/
example :
    let m : Map := { main := { buckets := 4, ents := [⟨1, 10, 5, 11⟩], gl := 2 }, lo := none }
    (match entryChain { R := 8 } false 1 m 7 20 [.orInsert false 0 9 21 0] {} with
     | .ok (m', out) => (idsOf m'.ents, out.returned, out.cost.dropped)
     | .error _ => ([], [], [])) = ([20, 21, 10, 11], [], []) := by decide

end Griddle.C06
