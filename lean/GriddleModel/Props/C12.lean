/-
  C12 — Entry and raw-entry handles stay coherent with the map.

  A handle is `occ loc spare` (where `find` located the element, and the spare key object an
  `OccupiedEntry` carries) or `vac key`.  `HandleOK m k st`: an occupied handle designates the
  element stored for `k` in the table it says; a vacant handle's key is absent.  Theorems, for both
  API flavours (`raw`), every resize phase, every location of the key (absent / main table / old
  table near or far from the cursor — the location is universally quantified) and every oracle:
  * `lookup_occupied_iff` — a lookup is Occupied exactly when the key is present;
  * `step_coherent` / `chain_coherent` — every method call, and every chain of calls of ANY depth,
    leaves the invariant and a coherent handle, including the inserting calls that grow the table
    or move other elements (the handle `Entry::insert` returns designates the new element in the
    main table: `inserting_handle_designates_new`);
  * `one_element_per_key` — after any chain (e.g. `replace_entry_with(None)` then an insert
    through the vacant handle) the key has at most one element;
  * `write_through_seen` — a value written through a handle is what a later lookup finds.
-/
import GriddleModel.Lemmas.Entry
namespace Griddle.C12
open Map

/-- a lookup reports Occupied exactly when the key is present -/
theorem lookup_occupied_iff {R : Nat} (m : Map) (k : Nat) (h : Inv R m) :
    (m.find k).isSome = (absOf m k).isSome := by
  rw [← find_eq_abs h k]; cases m.find k <;> rfl

/-- the handle a lookup produces is coherent -/
theorem lookup_handle_ok (m : Map) (k kid : Nat) (raw : Bool) :
    HandleOK m k (lookupState raw m k kid) := by
  unfold lookupState
  cases hf : m.find k with
  | none => exact hf
  | some p => obtain ⟨loc, e⟩ := p; exact ⟨e, hf⟩

/-- one method call on a handle -/
theorem step_coherent (c : Cfg) (hR : 0 < c.R) (raw : Bool) (k : Nat) (m : Map) (st : ES) (acc : ChainAcc)
    (s : EStep) (o : Orc) (h : Inv c.R m) (hok : HandleOK m k st) (happ : Applicable raw st s) :
    OkOrCap (chainStep c raw k m st acc s o) (fun r => Inv c.R r.1 ∧ HandleOK r.1 k r.2.1) :=
  chainStep_ok c hR raw k m st acc s o h hok happ

/-- every step of the chain is applicable to the handle it meets -/
def chainApplicable (c : Cfg) (raw : Bool) (k : Nat) : List EStep → Map → ES → ChainAcc → Orc → Prop
  | [], _, _, _, _ => True
  | s :: rest, m, st, acc, o =>
    Applicable raw st s ∧ ∀ m' st' acc', chainStep c raw k m st acc s (o.digit (c.R + 2)) = .ok (m', st', acc') →
      chainApplicable c raw k rest m' st' acc' (o.shift (c.R + 2))

/-- **Chains of any depth**: the invariant and the handle's coherence are preserved throughout. -/
theorem chain_coherent (c : Cfg) (hR : 0 < c.R) (raw : Bool) (k : Nat) :
    ∀ (steps : List EStep) (o : Orc) (m : Map) (st : ES) (acc : ChainAcc),
      Inv c.R m → HandleOK m k st → chainApplicable c raw k steps m st acc o →
      OkOrCap (chainLoop c raw k steps m st acc o) (fun r => Inv c.R r.1 ∧ HandleOK r.1 k r.2.1) := by
  intro steps
  induction steps with
  | nil => intro o m st acc h hok _; simp only [chainLoop, OkOrCap]; exact ⟨h, hok⟩
  | cons s rest ih =>
    intro o m st acc h hok happ
    unfold chainLoop
    have hs := chainStep_ok c hR raw k m st acc s (o.digit (c.R + 2)) h hok happ.1
    cases hr : chainStep c raw k m st acc s (o.digit (c.R + 2)) with
    | error f => rw [hr] at hs; exact hs
    | ok r =>
      obtain ⟨m', st', acc'⟩ := r
      rw [hr] at hs
      simp only [OkOrCap] at hs
      exact ih _ m' st' acc' hs.1 hs.2 (happ.2 m' st' acc' hr)

/-- the whole `entry(k)…` / `raw_entry_mut().from_*(k)…` call keeps the invariant — so in particular
    **the key has at most one element afterwards**, whatever the chain did -/
theorem one_element_per_key (c : Cfg) (hR : 0 < c.R) (raw : Bool) (lh : Nat) (m : Map) (k kid : Nat)
    (steps : List EStep) (o : Orc) (h : Inv c.R m)
    (happ : chainApplicable c raw k steps m (lookupState raw m k kid) { cost := { hashes := lh } } o) :
    OkOrCap (entryChain c raw lh m k kid steps o) (fun r =>
      Inv c.R r.1 ∧ (keysOf r.1.ents).Nodup ∧
      (∃ seen, r.2.ret = .chain (absOf m k).isSome seen)) := by
  unfold entryChain
  dsimp only
  have hs := chain_coherent c hR raw k steps o m _ { cost := { hashes := lh } } h (lookup_handle_ok m k kid raw) happ
  cases hr : chainLoop c raw k steps m _ { cost := { hashes := lh } } o with
  | error f => rw [hr] at hs; exact hs
  | ok r =>
    obtain ⟨m', st, acc⟩ := r
    rw [hr] at hs
    simp only [OkOrCap] at hs ⊢
    refine ⟨hs.1, hs.1.nodup, acc.seen, ?_⟩
    have habs := find_eq_abs h k
    unfold lookupState
    cases hf : m.find k with
    | none => rw [hf] at habs; simp only [Option.map] at habs; rw [← habs]; rfl
    | some p => obtain ⟨loc, e⟩ := p; rw [hf] at habs; simp only [Option.map] at habs; rw [← habs]; rfl

/-- **The handle returned by an inserting call designates the new element**, even when the call
    started a resize or moved other elements: the element is in the main table, found by lookup. -/
theorem inserting_handle_designates_new (c : Cfg) (hR : 0 < c.R) (m : Map) (e : Entry) (hits : Nat) (perm : List Nat)
    (h : Inv c.R m) (hvac : m.find e.k = none) :
    OkOrCap (Raw.insert c m e hits perm) (fun r =>
      Inv c.R r.1 ∧ r.1.find e.k = some (⟨true, e.k⟩, e)) :=
  (vacInsert_handle c hR m e hits perm h hvac).mono (fun _ hs => ⟨hs.1, hs.2.1⟩)

/-- **A write through a handle is seen by later lookups.** -/
theorem write_through_seen {R : Nat} (m : Map) (k : Nat) (loc : Loc) (e : Entry) (v vid : Nat)
    (h : Inv R m) (hf : m.find k = some (loc, e)) :
    absOf (setValAt m loc v vid) k = some { e with v := v, vid := vid } := by
  obtain ⟨hi, hf', _⟩ := setValAt_spec h hf v vid
  have := find_eq_abs hi k
  rw [hf'] at this
  exact this.symm

/-- non-vacuity: `replace_entry_with(None)` on an old-table key followed by an insert through the
    vacant handle leaves exactly one element for the key, now in the main table -/
example :
    let m : Raw := { main := { buckets := 16, ents := [⟨1, 0, 5, 0⟩], gl := 9 },
                     lo := some { buckets := 4, ents := [⟨2, 0, 7, 0⟩, ⟨4, 0, 8, 0⟩], cursor := 2 } }
    (match entryChain { R := 8 } false 1 m 4 90 [.occReplaceWith false 0, .vacInsert false 0 33 91 1] {} with
     | .ok (m', _) => (m'.ents.filter (fun x => x.k == 4)).map (fun x => (x.v, x.kid))
     | .error _ => []) = [(34, 0)] := by decide

end Griddle.C12
