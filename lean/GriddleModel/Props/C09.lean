/-
  C09 — retain and drain_filter partition the map exactly by the predicate.

  The closure is `|k, v| { *v += add; test k }` for an arbitrary decidable `test` over keys
  (a finite set, its complement, or a residue class) and arbitrary `add`.  Quantified over every
  state satisfying the invariant (every resize phase), every visiting order of the shape the real
  iterator has, every oracle, every early-drop point `take`.
-/
import GriddleModel.Lemmas.Retain
namespace Griddle.C09

/-- `retain(f)`: `f` called exactly once per element; kept = exactly those with `f = true`, with
    the mutation; invariant kept, incl. when the call empties the old table (it stays parked). -/
theorem retain_partitions {R : Nat} (hR : 0 < R) (m : Map) (p : Pred) (o : Orc) (h : Inv R m) :
    OkOr (Map.retain m p o) (fun r =>
      Inv R r.1 ∧ o.calls.Nodup ∧ (∀ k, k ∈ o.calls ↔ k ∈ keysOf m.ents) ∧
      (∀ k, absOf r.1 k = if p.test k then (absOf m k).map (bumpE k p.add) else none) ∧
      r.1.lo.isSome = m.lo.isSome) := by
  have hs := Map.retain_spec hR m p o h
  cases hr : Map.retain m p o with
  | error f => rw [hr] at hs; exact hs
  | ok r => rw [hr] at hs; simp only [OkOr] at hs ⊢; exact ⟨hs.1, hs.2.1, hs.2.2.1, hs.2.2.2.1, hs.2.2.2.2.1⟩

/-- `drain_filter(f)`, pulled `take` times then dropped: yields matching elements only, each
    once, at most `take`; afterwards NO matching element remains and every other one is there
    (with the mutation). -/
theorem drain_filter_dropped {R : Nat} (hR : 0 < R) (m : Map) (p : Pred) (take : Nat) (o : Orc) (h : Inv R m) :
    OkOr (Map.drainFilter m p take false o) (fun r =>
      Inv R r.1 ∧ (∀ k, absOf r.1 k = if p.test k then none else (absOf m k).map (bumpE k p.add)) ∧
      ∃ pre rest, o.calls = pre ++ rest ∧ r.2.ret = .ents (yieldOf p (absOf m) pre) ∧
        (yieldOf p (absOf m) pre).length ≤ take) := by
  have hs := Map.drainFilter_spec hR m p take false o h
  cases hr : Map.drainFilter m p take false o with
  | error f => rw [hr] at hs; exact hs
  | ok r =>
    rw [hr] at hs; simp only [OkOr] at hs ⊢
    obtain ⟨hi, pre, rest, h1, h2, h3, _, h5⟩ := hs
    exact ⟨hi, h5 trivial, pre, rest, h1, h2, h3⟩

/-- `drain_filter(f)`, pulled `take` times then forgotten: only the yielded elements are gone. -/
theorem drain_filter_forgotten {R : Nat} (hR : 0 < R) (m : Map) (p : Pred) (take : Nat) (o : Orc) (h : Inv R m) :
    OkOr (Map.drainFilter m p take true o) (fun r =>
      Inv R r.1 ∧ ∃ pre rest, o.calls = pre ++ rest ∧ r.2.ret = .ents (yieldOf p (absOf m) pre) ∧
        absOf r.1 = specDrain p (absOf m) pre) := by
  have hs := Map.drainFilter_spec hR m p take true o h
  cases hr : Map.drainFilter m p take true o with
  | error f => rw [hr] at hs; exact hs
  | ok r =>
    rw [hr] at hs; simp only [OkOr] at hs ⊢
    obtain ⟨hi, pre, rest, h1, h2, _, h4, _⟩ := hs
    exact ⟨hi, pre, rest, h1, h2, h4 trivial⟩

/-- everything yielded matches the predicate and was stored (with the mutation applied) -/
theorem yielded_match (p : Pred) (a : Nat → Option Entry) (ks : List Nat) :
    ∀ e ∈ yieldOf p a ks, ∃ k ∈ ks, p.test k = true ∧ (a k).map (bumpE k p.add) = some e := by
  intro e he
  unfold yieldOf at he
  obtain ⟨k, hk, hke⟩ := List.mem_filterMap.1 he
  cases ht : p.test k with
  | false => simp [ht] at hke
  | true => simp only [ht, if_true] at hke; exact ⟨k, hk, ht, hke⟩

/-- non-vacuity: retain that empties the old table of a mid-resize map keeps the table parked -/
example :
    let m : Raw := { main := { buckets := 16, ents := [⟨1, 0, 5, 0⟩], gl := 9 },
                     lo := some { buckets := 4, ents := [⟨2, 0, 7, 0⟩, ⟨4, 0, 8, 0⟩], cursor := 2 } }
    (Map.retain m { useSet := true, set := [2, 4], neg := true } { calls := [1, 2, 4] }).toOption.map
      (fun r => (r.1.ents.map (·.k), r.1.lo.map (·.ents.length))) = some ([1], some 0) := by
  decide

end Griddle.C09
