/-
  C03 — A started resize finishes within ⌈L/R⌉ insertions and frees the old table.
-/
import GriddleModel.Props.C04
import GriddleModel.Props.C08
import GriddleModel.Lemmas.Steps
namespace Griddle.C03

/-- the number of elements still parked in the old table -/
def pending (t : Raw) : Nat := match t.lo with | some o => o.ents.length | none => 0

/-- A key-adding `insert` (new key, or overwrite of an element still in the old table) while `L`
    elements are parked moves exactly `min R L` of them; the old table is released in that call
    iff `L ≤ R`; no new growth can start meanwhile (at most one allocation, none while parked). -/
theorem key_adding_moves (c : Cfg) (hR : 0 < c.R) (m : Map) (e : Entry) (o : Orc) (h : Inv c.R m)
    (ol : Old) (hol : m.lo = some ol) (hadd : absOf m e.k = none ∨ ∃ x, x ∈ ol.ents ∧ x.k = e.k) :
    OkOrCap (Map.insert c m e o) (fun r =>
      r.2.cost.moved = min c.R ol.ents.length ∧ pending r.1 = ol.ents.length - min c.R ol.ents.length ∧
      (ol.ents.length ≤ c.R ↔ r.1.lo = none)) :=
  (Map.insert_spec c hR m e o h).mono (fun r hs => by
    obtain ⟨_, _, _, _, _, _, _, _, h9, _⟩ := hs
    obtain ⟨a, b, d⟩ := h9 ol hol hadd
    by_cases hle : ol.ents.length ≤ c.R
    · have := b hle
      refine ⟨a, ?_, ⟨fun _ => this, fun _ => hle⟩⟩
      simp [pending, this, Nat.min_eq_right hle]
    · obtain ⟨o', ho', hl⟩ := d (by omega)
      refine ⟨a, ?_, ⟨fun h => absurd h hle, fun h => by rw [ho'] at h; cases h⟩⟩
      simp [pending, ho', hl, Nat.min_eq_left (by omega : c.R ≤ ol.ents.length)])

/-- Removing the last parked element releases the old table in that very call (one table freed). -/
theorem remove_last_releases {R : Nat} (hR : 0 < R) (m : Map) (k : Nat) (o : Orc) (h : Inv R m)
    (ol : Old) (hol : m.lo = some ol) (hin : ∃ x, x ∈ ol.ents ∧ x.k = k) (hone : ol.ents.length = 1) :
    ∃ m' out, Map.removeEntry m k o = .ok (m', out) ∧ m'.lo = none ∧ out.cost.frees = 1 := by
  obtain ⟨m', out, hr, _, _, _, _, _, _, _, _, hlast⟩ := Map.removeEntry_spec hR m k o h
  exact ⟨m', out, hr, hlast ol hol hin hone⟩

/-- Lookups and in-place updates never change how much is parked. -/
theorem getMut_keeps_pending (m : Map) (k add : Nat) : pending (Map.getMut m k add).1 = pending m := by
  unfold Map.getMut pending
  cases m.find k with
  | none => rfl
  | some p =>
    obtain ⟨loc, e⟩ := p
    simp only
    cases loc.inMain <;> simp <;> cases m.lo <;> simp [Option.map]

/-- **Finish bound.** From a state with `L` parked elements, `n ≥ ⌈L/R⌉` insertions of unseen
    keys (as long as they fit the current capacity — which `⌈L/R⌉` of them always do, see
    `C04.pending_fits_room`) leave no resize pending; no table is allocated on the way. -/
theorem finish_bound (c : Cfg) (hR : 0 < c.R) (hits : Nat → Nat) (es : List Entry) (t : Raw) (h : Inv c.R t)
    (hnd : (keysOf es).Nodup) (hfresh : ∀ e ∈ es, e.k ∉ keysOf t.ents) (hfit : es.length ≤ C04.room t)
    (hne : es ≠ []) (hn : ceilDiv (pending t) c.R ≤ es.length) :
    OkOr (C04.fill c t es hits) (fun r => r.1.lo = none ∧ r.2 = 0 ∧ Inv c.R r.1) := by
  have hf := C04.fill_to_capacity c hR hits es t h hnd hfresh hfit
  cases hr : C04.fill c t es hits with
  | error f => rw [hr] at hf; exact hf
  | ok r =>
    rw [hr] at hf
    simp only [OkOr] at hf ⊢
    obtain ⟨h1, h2, _, _, _, h6⟩ := hf
    refine ⟨h6 hne ?_, h2, h1⟩
    intro o ho
    have : pending t = o.ents.length := by simp [pending, ho]
    rw [this] at hn
    calc o.ents.length ≤ ceilDiv o.ents.length c.R * c.R := le_ceilDiv_mul _ _ hR
      _ ≤ es.length * c.R := Nat.mul_le_mul_right _ hn

/-- `⌈L/R⌉` insertions always fit: the invariant reserves room for them. -/
theorem finish_fits (c : Cfg) (t : Raw) (h : Inv c.R t) : ceilDiv (pending t) c.R ≤ C04.room t := by
  have hr := C04.room_eq h
  unfold pending
  cases hlo : t.lo with
  | none =>
    simp only [ceilDiv]
    rcases Nat.eq_zero_or_pos c.R with h0 | h0
    · simp [h0]
    · have : (0 + c.R - 1) / c.R = 0 := Nat.div_eq_of_lt (by omega)
      omega
  | some o => simp only [hlo] at hr ⊢; have := (h.head o hlo).1; omega

/-- A map never owns more than two tables: the model's state has one main table and at most one
    old table by construction; `reserve` mid-resize folds the old one in before allocating
    (`reserve_spec`), `try_grow` is only entered without an old table (`Raw.insert_spec`). -/
theorem at_most_two_tables (t : Raw) : (if t.main.allocated then 1 else 0) + (if t.lo.isSome then 1 else 0) ≤ 2 := by
  split <;> split <;> omega

/-- `clear()` leaves one table: whatever the phase — also when the old table had been emptied in
    place and `len()` was already 0 — the old table is released. -/
theorem clear_releases {R : Nat} (t : Raw) (h : Inv R t) :
    (Raw.clear t).1.lo = none ∧ (Raw.clear t).1.ents = [] := ⟨(clear_spec t h).2.2.1, (clear_spec t h).2.1⟩

/-- a dropped `drain()` likewise -/
theorem drain_releases {R : Nat} (m : Map) (take : Nat) (forget : Bool) (o : Orc) (h : Inv R m) :
    OkOr (Map.drain m take forget o) (fun r => r.1.lo = none) := by
  have hs := C08.drain_leaves_empty m take forget o h
  cases hr : Map.drain m take forget o with
  | error f => rw [hr] at hs; exact hs
  | ok r => rw [hr] at hs; simp only [OkOr] at hs ⊢; exact hs.2.2.1

end Griddle.C03
