/-
  GriddleModel.Serde — `/repo/src/external_trait_impls/serde.rs`.
  `Serialize` is `collect_map(self)` / `collect_seq(self)`: the length, then every element the
  iterator yields.  `Deserialize` builds `with_capacity(min(hint, 4096))` and inserts every
  element; `HashSet::deserialize_in_place` is `clear(); reserve(min(hint, 4096)); insert…`.
-/
import GriddleModel.Map
namespace Griddle.Serde

/-- `size_hint::cautious` -/
def cautious (hint : Option Nat) : Nat := min (hint.getD 0) 4096

/-- the token stream: length, then the elements in iteration order -/
def serialize (m : Map) (order : List Nat) : Nat × List Entry :=
  (m.len, order.filterMap (fun k => (m.find k).map (·.2)))

/-- `for (k, v) in tokens { map.insert(k, v) }` -/
def insertAll (c : Cfg) : Map → List Entry → (Nat → Orc) → Except Fault Map
  | m, [], _ => .ok m
  | m, e :: rest, orcs =>
    match Map.insert c m e (orcs rest.length) with
    | .error f => .error f
    | .ok (m', _) => insertAll c m' rest orcs

def deserialize (c : Cfg) (tokens : List Entry) (hint : Option Nat) (orcs : Nat → Orc) : Except Fault Map :=
  match Map.withCapacity c (cautious hint) with
  | .error f => .error f
  | .ok (m, _) => insertAll c m tokens orcs

def deserializeInPlace (c : Cfg) (place : Map) (tokens : List Entry) (hint : Option Nat) (orcs : Nat → Orc) :
    Except Fault Map :=
  let (m0, _) := Map.clear place
  match Map.reserve c m0 (cautious hint) (orcs tokens.length) with
  | .error f => .error f
  | .ok (m1, _) => insertAll c m1 tokens orcs

end Griddle.Serde
