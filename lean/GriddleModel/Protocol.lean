/-
  GriddleModel.Protocol — the line protocol between the Rust harness and the model.

  A transcript line is   <op> <map> <args…> | <oracle k=v …> | <observation k=v …>
  The driver replays `<op> <args>` on the model's own state, resolving hashbrown's private
  choices from the oracle section (checked against their contract window by the model itself),
  prints nothing when its own observation equals the harness's, and a `MISMATCH` line otherwise.
-/
import GriddleModel.Map
namespace Griddle

def fmtIds (l : List Nat) : String :=
  if l.isEmpty then "-" else ",".intercalate ((l.toArray.qsort (· < ·)).toList.map toString)

def fmtEntry (e : Entry) : String := s!"{e.k}#{e.kid}:{e.v}#{e.vid}"

def fmtErr : AllocErr → String
  | .overflow => "err:overflow"
  | .alloc => "err:alloc"

def fmtRet : Ret → String
  | .unit => "-"
  | .bool b => if b then "true" else "false"
  | .optV none => "none"
  | .optV (some (v, vid)) => s!"{v}#{vid}"
  | .optKV none => "none"
  | .optKV (some e) => fmtEntry e
  | .res none => "ok"
  | .res (some e) => fmtErr e
  | .ents es => if es.isEmpty then "-" else ",".intercalate (es.map fmtEntry)
  | .chain occ r =>
    (if occ then "occ" else "vac") ++ ":" ++ (match r with | none => "none" | some (v, vid) => s!"{v}#{vid}")

def fmtPanic : PanicKind → String
  | .capacityOverflow => "capacity_overflow"
  | .indexMissing => "index_missing"
  | .assertLeftovers => "assert_leftovers"
  | .unreachable => "unreachable"
  | .arith => "arith"
  | .debugAssert => "debug_assert"
  | .resizeDespite => "resize_despite"

def fmtFault : Fault → String
  | .panic k => fmtPanic k
  | .ub why => "MODEL-UB(" ++ why ++ ")"
  | .abort => "MODEL-ABORT"
  | .oracle why => "ORACLE-REJECTED(" ++ why ++ ")"

/-- the observation of one map after one call, as `(field, value)` pairs -/
def obsFields (m : Map) (out : Out) : List (String × String) :=
  [ ("ret", fmtRet out.ret),
    ("len", toString m.len),
    ("cap", toString m.capacity),
    ("mi", toString m.main.ents.length),
    ("mgl", toString m.main.gl),
    ("mb", toString m.main.buckets),
    ("old", match m.lo with
            | none => "-"
            | some o => s!"{o.ents.length},{o.buckets},{o.cursor}"),
    ("dh", toString out.cost.hashes),
    ("da", toString out.cost.allocs),
    ("df", toString out.cost.frees),
    ("drop", fmtIds out.cost.dropped),
    ("retd", fmtIds out.returned),
    ("panic", "-") ]

def parseNatList (s : String) : Option (List Nat) :=
  if s == "-" || s == "" then some []
  else (s.splitOn ",").mapM (fun x => x.toNat?)

/-- `k:kid:vid,k:kid:vid,…` -/
def parseFresh (s : String) : Option (List (Nat × Nat × Nat)) :=
  if s == "-" || s == "" then some []
  else (s.splitOn ",").mapM (fun x =>
    match x.splitOn ":" with
    | [a, b, c] => do
      let a ← a.toNat?; let b ← b.toNat?; let c ← c.toNat?
      pure (a, b, c)
    | _ => none)

def parseFields (toks : List String) : List (String × String) :=
  toks.filterMap (fun t =>
    match t.splitOn "=" with
    | [k, v] => some (k, v)
    | _ => none)

def field? (fs : List (String × String)) (k : String) : Option String :=
  (fs.find? (fun x => x.1 == k)).map (·.2)

def fieldNat (fs : List (String × String)) (k : String) : Nat :=
  ((field? fs k).bind (·.toNat?)).getD 0

def fieldList (fs : List (String × String)) (k : String) : List Nat :=
  ((field? fs k).bind parseNatList).getD []

end Griddle
