/-
  GriddleModel.Par — the logic of the rayon traversal (`/repo/src/external_trait_impls/rayon`,
  hashbrown's `RawIterRange::split`).

  A `RawIterRange` is the group being processed (`cur`: the full buckets of it not yet yielded)
  and the groups after it (`rest`).  `split` hands the second half of `rest` (rounded so that the
  tail is at least one group) to a new range.  rayon's `bridge_unindexed` may split or not at
  every point and run the pieces on any threads: every such schedule is a `SplitTree`.
  griddle's `RawParIter` drives the main table's range and, if a resize is pending, a fresh range
  over the old table, and reduces the two results.
-/
namespace Griddle.Par

structure Range (α : Type) where
  cur : List α
  rest : List (List α)

def Range.items {α : Type} (r : Range α) : List α := r.cur ++ r.rest.flatten

/-- `RawIterRange::split` -/
def Range.split {α : Type} (r : Range α) : Range α × Option (Range α) :=
  match r.rest with
  | [] => (r, none)
  | _ :: _ =>
    let mid := r.rest.length / 2
    match r.rest.drop mid with
    | [] => (r, none)
    | g :: gs => ({ cur := r.cur, rest := r.rest.take mid }, some { cur := g, rest := gs })

/-- a work-splitting schedule: at a `node` the producer is asked to split -/
inductive SplitTree
  | leaf
  | node (l r : SplitTree)

/-- the pieces (one per sequential `fold_with`) a schedule cuts a range into, left to right -/
def pieces {α : Type} : SplitTree → Range α → List (List α)
  | .leaf, r => [r.items]
  | .node l r', rg =>
    match rg.split with
    | (a, none) => pieces l a
    | (a, some b) => pieces l a ++ pieces r' b

/-- griddle's `RawParIter::drive_unindexed`: main table, then (if split) the old table -/
def parPieces {α : Type} (t1 t2 : SplitTree) (main : Range α) (old : Option (Range α)) : List (List α) :=
  match old with
  | some o => pieces t1 main ++ pieces t2 o
  | none => pieces t1 main

/-- `helpers::collect`: each piece folded into a `Vec`, the `Vec`s appended in order -/
def collect {α : Type} (t : SplitTree) (r : Range α) : List α := (pieces t r).flatten

end Griddle.Par
