/-
  GriddleModel.Set — `HashSet<T>` is `HashMap<T, ()>` (`/repo/src/set.rs`): every single-set
  operation is the map operation on the key (`insert` = `map.insert(k, ())`, `replace`, `take`,
  `get_or_insert*` go through the raw-entry chains, `retain` / `drain` / `drain_filter` are the
  map's).  What set.rs adds is the algebra over two sets, written over their iterators and
  `contains`.  Here a set is seen through `iter` (the keys in iteration order) and `mem`
  (`contains`), exactly what those adaptors use.
-/
import GriddleModel.Map
namespace Griddle.SetAlg

/-- what the algebra sees of a set: its iteration sequence, `contains`, `len()` -/
structure View where
  iter : List Nat
  mem : Nat → Bool
  len : Nat

/-- `a.difference(b)` = `a.iter().filter(|x| !b.contains(x))` -/
def difference (a b : View) : List Nat := a.iter.filter (fun k => !b.mem k)

/-- `a.symmetric_difference(b)` = `a.difference(b).chain(b.difference(a))` -/
def symmetricDifference (a b : View) : List Nat := difference a b ++ difference b a

/-- `a.intersection(b)`: iterate the smaller, filter by the larger -/
def intersection (a b : View) : List Nat :=
  if a.len ≤ b.len then a.iter.filter b.mem else b.iter.filter a.mem

/-- `a.union(b)`.  The code binds `(smaller, larger) = if self.len() >= other.len() { (self, other) } else
    { (other, self) }` — the names are the wrong way round — and yields `larger.iter().chain(smaller.difference(larger))`:
    so it is the SMALLER set that is iterated in full, then what the larger has in addition.  (Found by the
    lock-step: the first version of this definition modelled what the names suggest.)  The result is the union
    either way (`union_spec`); only the order and the number of lookups differ. -/
def union (a b : View) : List Nat :=
  if a.len ≥ b.len then b.iter ++ difference a b else a.iter ++ difference b a

/-- `is_disjoint`, `is_subset`, `is_superset` -/
def isDisjoint (a b : View) : Bool := a.iter.all (fun k => !b.mem k)
def isSubset (a b : View) : Bool := decide (a.len ≤ b.len) && a.iter.all b.mem
def isSuperset (a b : View) : Bool := isSubset b a

/-- `a == b` on sets: equal lengths and every element of `a` in `b` -/
def eq (a b : View) : Bool := decide (a.len = b.len) && a.iter.all b.mem

/-- a view given by an iteration sequence alone (`contains` = membership in it) -/
def viewOfIter (it : List Nat) (len : Nat) : View := { iter := it, mem := fun k => it.contains k, len := len }

/-- the view of a map-backed set under a visiting order -/
def viewOf (m : Map) (order : List Nat) : View :=
  { iter := order, mem := fun k => (m.find k).isSome, len := m.len }

end Griddle.SetAlg

/-! ### single-set operations (`src/set.rs`): `HashSet<T>` is `HashMap<T, ()>`

Each operation is the map operation `set.rs` forwards to, on an entry whose value is the unit (`v = 0`, `vid = 0`:
a `()` is no object).  What the set keeps track of beyond membership is WHICH object stands for a value: `insert`
of a value that is already there keeps the stored one (and drops the argument), `replace` exchanges it,
`get_or_insert*` never do. -/
namespace Griddle.SetOps

def unitE (k kid : Nat) : Entry := ⟨k, kid, 0, 0⟩

/-- `insert(value)` = `self.map.insert(value, ()).is_none()` -/
def insert (c : Cfg) (m : Map) (k kid : Nat) (o : Orc) : Except Fault (Map × Out) := Map.insert c m (unitE k kid) o

/-- `replace(value)`: `match self.map.entry(value) { Occupied(o) => Some(o.replace_key()), Vacant(v) => { v.insert(()); None } }` -/
def replace (c : Cfg) (m : Map) (k kid : Nat) (o : Orc) : Except Fault (Map × Out) :=
  match m.find k with
  | some _ => Map.entryChain c false 1 m k kid [.occReplaceKey kid] o
  | none => Map.entryChain c false 1 m k kid [.vacInsert false kid 0 0 0] o

/-- `get_or_insert(value)` = `raw_entry_mut().from_key(&value).or_insert(value, ()).0`; `lzy`: `get_or_insert_with` /
    `get_or_insert_owned`, where the object only comes into being if the value is absent -/
def getOrInsert (c : Cfg) (m : Map) (k kid : Nat) (lzy : Bool) (o : Orc) : Except Fault (Map × Out) :=
  Map.entryChain c true 1 m k 0 [.orInsert lzy kid 0 0 0] o

/-- `remove(&value)` = `self.map.remove(value).is_some()`, `take(&value)` = the key of `remove_entry` -/
def remove (m : Map) (k : Nat) (o : Orc) : Except Fault (Map × Out) := Map.removeEntry m k o

/-- `get(&value)` / `contains(&value)` -/
def get (m : Map) (k : Nat) : Out := Map.get m k

/-- the object that stands for value `k`, if it is in the set -/
def repr (m : Map) (k : Nat) : Option Nat := (m.find k).map (·.2.kid)

end Griddle.SetOps
