/-
  GriddleModel.Set — `HashSet<T>` is `HashMap<T, ()>` (`/repo/src/set.rs`): every single-set
  operation is the map operation on the key (`insert` = `map.insert(k, ())`, `replace`, `take`,
  `get_or_insert*` go through the raw-entry chains, `retain` / `drain` / `drain_filter` are the
  map's).  What set.rs adds is the algebra over two sets, written over their iterators and
  `contains`.  Here a set is seen through `iter` (the keys in iteration order) and `mem`
  (`contains`), exactly what those adaptors use.
-/
import GriddleModel.Map
namespace Griddle.SetAlg

/-- what the algebra sees of a set: its iteration sequence, `contains`, `len()` -/
structure View where
  iter : List Nat
  mem : Nat → Bool
  len : Nat

/-- `a.difference(b)` = `a.iter().filter(|x| !b.contains(x))` -/
def difference (a b : View) : List Nat := a.iter.filter (fun k => !b.mem k)

/-- `a.symmetric_difference(b)` = `a.difference(b).chain(b.difference(a))` -/
def symmetricDifference (a b : View) : List Nat := difference a b ++ difference b a

/-- `a.intersection(b)`: iterate the smaller, filter by the larger -/
def intersection (a b : View) : List Nat :=
  if a.len ≤ b.len then a.iter.filter b.mem else b.iter.filter a.mem

/-- `a.union(b)`.  The code binds `(smaller, larger) = if self.len() >= other.len() { (self, other) } else
    { (other, self) }` — the names are the wrong way round — and yields `larger.iter().chain(smaller.difference(larger))`:
    so it is the SMALLER set that is iterated in full, then what the larger has in addition.  (Found by the
    lock-step: the first version of this definition modelled what the names suggest.)  The result is the union
    either way (`union_spec`); only the order and the number of lookups differ. -/
def union (a b : View) : List Nat :=
  if a.len ≥ b.len then b.iter ++ difference a b else a.iter ++ difference b a

/-- `is_disjoint`, `is_subset`, `is_superset` -/
def isDisjoint (a b : View) : Bool := a.iter.all (fun k => !b.mem k)
def isSubset (a b : View) : Bool := decide (a.len ≤ b.len) && a.iter.all b.mem
def isSuperset (a b : View) : Bool := isSubset b a

/-- `a == b` on sets: equal lengths and every element of `a` in `b` -/
def eq (a b : View) : Bool := decide (a.len = b.len) && a.iter.all b.mem

/-- a view given by an iteration sequence alone (`contains` = membership in it) -/
def viewOfIter (it : List Nat) (len : Nat) : View := { iter := it, mem := fun k => it.contains k, len := len }

/-- the view of a map-backed set under a visiting order -/
def viewOf (m : Map) (order : List Nat) : View :=
  { iter := order, mem := fun k => (m.find k).isSome, len := m.len }

end Griddle.SetAlg
