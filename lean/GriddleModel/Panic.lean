/-
  GriddleModel.Panic — what a panic in a user callback leaves behind (model of unwinding).

  `fuse = j` means: the `j`-th (0-based) invocation of the callback in question panics, the panic
  unwinds out of the call and is caught by the caller; the functions return the state the map is
  left in and the objects dropped by the unwinding.

  * `carry`: the element being relocated has already been taken out of the old table
    (`lo.table.remove(e)`, and the cached iterator has advanced past it) when `hasher(&value)`
    runs, so a panicking `Hash` drops that element; everything else stays where it is and the old
    table stays parked (`src/raw/mod.rs`, `carry`).
  * `retain` / `drain_filter`: the closure runs before the element is touched, so a panic at the
    `j`-th call leaves the state reached after `j` completed visits (`src/map.rs`, `retain`).
  * `replace_entry_with`: hashbrown vacates the bucket before it calls the closure, so a panicking
    closure drops the element; with the repaired ordering the cached iterator was told first.
-/
import GriddleModel.Map
namespace Griddle

/-- `carry`'s loop with a `Hash` implementation that panics on its `fuse`-th call.
    Returns `(main, old, lost)`: the tables after unwinding and the element that was dropped
    (`none`: the loop finished before the fuse). -/
def carryLoopFused (main : HB) (o : Old) : Nat → Nat → Nat → Except Fault (HB × Option Old × Option Entry)
  | 0, _, _ =>
    if o.ents.length = 0 then .ok (main, none, none) else .ok (main, some o, none)
  | n + 1, fuse, hits =>
    if o.cursor = 0 then .ok (main, none, none)
    else
      match o.ents with
      | [] => .error (.ub "cached iterator advanced past the last element of the old table")
      | e :: rest =>
        let o' : Old := { o with ents := rest, cursor := o.cursor - 1 }
        if fuse = 0 then
          -- `hasher(&value)` panics: `value` is dropped by the unwinding
          .ok (main, some o', some e)
        else
          match main.insertNoGrow e (decide (0 < hits)) with
          | .error f => .error f
          | .ok main' => carryLoopFused main' o' n (fuse - 1) (hits - 1)

def Raw.carryFused (c : Cfg) (t : Raw) (fuse hits : Nat) : Except Fault (Raw × Option Entry) :=
  match t.lo with
  | none => .ok (t, none)
  | some o =>
    match carryLoopFused t.main o c.R fuse hits with
    | .error f => .error f
    | .ok (m, lo, lost) => .ok ({ main := m, lo := lo }, lost)

/-- `retain` with a closure that panics on its `fuse`-th call: the visits before it completed. -/
def Map.retainFused (m : Map) (p : Pred) (fuse : Nat) (o : Orc) : Except Fault (Map × Cost) :=
  if !Map.iterOrderOk m o.calls then .error (.oracle "retain: visiting order is not main-then-old")
  else Map.retainLoop p m.main.ents.length (o.calls.take fuse) 0 m o.empt {}

/-- `replace_entry_with` whose closure panics: the element is gone (dropped by the unwinding). -/
def Map.replaceFused (m : Map) (k : Nat) (o : Orc) : Except Fault (Map × Option Entry) :=
  match m.find k with
  | none => .ok (m, none)
  | some (loc, e) =>
    match Raw.eraseAt m loc (decide (0 < o.empt)) with
    | .error f => .error f
    | .ok (m', _) => .ok (m', some e)

end Griddle
