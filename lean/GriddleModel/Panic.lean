/-
  GriddleModel.Panic — what a panic in a user callback leaves behind (model of unwinding).

  `fuse = j` means: the `j`-th (0-based) invocation of the callback in question panics, the panic
  unwinds out of the call and is caught by the caller; the functions return the state the map is
  left in and the objects dropped by the unwinding.

  * `carry`: the element being relocated has already been taken out of the old table
    (`lo.table.remove(e)`, and the cached iterator has advanced past it) when `hasher(&value)`
    runs, so a panicking `Hash` drops that element; everything else stays where it is and the old
    table stays parked (`src/raw/mod.rs`, `carry`).
  * `retain` / `drain_filter`: the closure runs before the element is touched, so a panic at the
    `j`-th call leaves the state reached after `j` completed visits (`src/map.rs`, `retain`).
  * `replace_entry_with`: hashbrown vacates the bucket before it calls the closure, so a panicking
    closure drops the element; with the repaired ordering the cached iterator was told first.
-/
import GriddleModel.Map
namespace Griddle

/-- `carry`'s loop with a `Hash` implementation that panics on its `fuse`-th call.
    Returns `(main, old, lost)`: the tables after unwinding and the element that was dropped
    (`none`: the loop finished before the fuse). -/
def carryLoopFused (main : HB) (o : Old) : Nat → Nat → Nat → Except Fault (HB × Option Old × Option Entry)
  | 0, _, _ =>
    if o.ents.length = 0 then .ok (main, none, none) else .ok (main, some o, none)
  | n + 1, fuse, hits =>
    if o.cursor = 0 then .ok (main, none, none)
    else
      match o.ents with
      | [] => .error (.ub "cached iterator advanced past the last element of the old table")
      | e :: rest =>
        let o' : Old := { o with ents := rest, cursor := o.cursor - 1 }
        if fuse = 0 then
          -- `hasher(&value)` panics: `value` is dropped by the unwinding
          .ok (main, some o', some e)
        else
          match main.insertNoGrow e (decide (0 < hits)) with
          | .error f => .error f
          | .ok main' => carryLoopFused main' o' n (fuse - 1) (hits - 1)

def Raw.carryFused (c : Cfg) (t : Raw) (fuse hits : Nat) : Except Fault (Raw × Option Entry) :=
  match t.lo with
  | none => .ok (t, none)
  | some o =>
    match carryLoopFused t.main o c.R fuse hits with
    | .error f => .error f
    | .ok (m, lo, lost) => .ok ({ main := m, lo := lo }, lost)

/-- `retain` with a closure that panics on its `fuse`-th call: the visits before it completed. -/
def Map.retainFused (m : Map) (p : Pred) (fuse : Nat) (o : Orc) : Except Fault (Map × Cost) :=
  if !Map.iterOrderOk m o.calls then .error (.oracle "retain: visiting order is not main-then-old")
  else Map.retainLoop p m.main.ents.length (o.calls.take fuse) 0 m o.empt {}

/-- `replace_entry_with` whose closure panics: the element is gone (dropped by the unwinding). -/
def Map.replaceFused (m : Map) (k : Nat) (o : Orc) : Except Fault (Map × Option Entry) :=
  match m.find k with
  | none => .ok (m, none)
  | some (loc, e) =>
    match Raw.eraseAt m loc (decide (0 < o.empt)) with
    | .error f => .error f
    | .ok (m', _) => .ok (m', some e)

/-! ### whole calls with a fuse (what the fault lock-step replays) -/

/-- griddle's `insert_no_grow` whose `carry` runs with a fused `Hash`. -/
def Raw.insertNoGrowFused (c : Cfg) (t : Raw) (e : Entry) (fuse : Nat) (hits : Hits) :
    Except Fault (Raw × Option Entry) :=
  match t.main.insertNoGrow e (decide (0 < hits)) with
  | .error f => .error f
  | .ok m =>
    let t' : Raw := { t with main := m }
    if t'.lo.isSome then Raw.carryFused c t' fuse (hits - 1) else .ok (t', none)

/-- `RawTable::insert` (key absent) whose `carry` runs with a fused `Hash`; growing hashes nothing. -/
def Raw.insertFused (c : Cfg) (t : Raw) (e : Entry) (fuse : Nat) (hits : Hits) (perm : List Nat) :
    Except Fault (Raw × Option Entry × Cost) :=
  if t.main.gl = 0 then
    if t.lo.isSome then .error (.panic .assertLeftovers)
    else match Raw.grow c t 1 perm with
      | .error f => .error f
      | .ok (t', gc) =>
        match Raw.insertNoGrowFused c t' e fuse hits with
        | .error f => .error f
        | .ok (t'', lost) => .ok (t'', lost, gc)
  else
    match Raw.insertNoGrowFused c t e fuse hits with
    | .error f => .error f
    | .ok (t'', lost) => .ok (t'', lost, {})

/-- `HashMap::insert(k, v)` under a `Hash` implementation that panics on its `fuse`-th invocation
    within the call.  Invocation 0 hashes the key handed in — nothing has happened yet, the pair is
    dropped by the unwinding; invocations 1, 2, … are `carry`'s re-hashes, after the insertion (or
    the value replacement) itself.  The `Bool` says whether the fuse fired; if it did not, the call
    is the ordinary `Map.insert`. -/
def Map.insertFused (c : Cfg) (m : Map) (e : Entry) (fuse : Nat) (o : Orc) : Except Fault (Map × Out × Bool) :=
  let plain : Except Fault (Map × Out × Bool) :=
    match Map.insert c m e o with
    | .error f => .error f
    | .ok (m', out) => .ok (m', out, false)
  if fuse = 0 then .ok (m, { cost := { hashes := 1, dropped := e.ids } }, true)
  else
    match m.find e.k with
    | some (loc, old) =>
      if loc.inMain then plain
      else
        let m1 : Map := { m with lo := m.lo.map (fun ol => { ol with ents := ol.ents.map (fun x =>
                  if x.k == e.k then { x with v := e.v, vid := e.vid } else x) }) }
        if c.debug && !m1.isSplit then .error (.panic .debugAssert)
        else match Raw.carryFused c m1 (fuse - 1) o.hits with
          | .error f => .error f
          | .ok (m2, some lost) =>
            -- the key handed in, the replaced value (a local by now) and the element in flight
            .ok (m2, { cost := { hashes := fuse + 1, moved := fuse - 1,
                                 dropped := e.kid :: old.vid :: lost.ids } }, true)
          | .ok (_, none) => plain
    | none =>
      match Raw.insertFused c m e (fuse - 1) o.hits o.perm with
      | .error f => .error f
      | .ok (m2, some lost, gc) =>
        .ok (m2, { cost := gc + { hashes := fuse + 1, moved := fuse - 1, dropped := lost.ids } }, true)
      | .ok (_, none, _) => plain

/-- `retain(f)` whose closure panics on entering its `fuse`-th call (before touching the value). -/
def Map.retainFusedOut (m : Map) (p : Pred) (fuse : Nat) (o : Orc) : Except Fault (Map × Out × Bool) :=
  match Map.retainFused m p fuse o with
  | .error f => .error f
  | .ok (m', cost) => .ok (m', { cost := cost }, decide (fuse < o.calls.length))

/-- `drain_filter(f)` pulled to the end, `f` panicking on entering its `fuse`-th call.  The visits
    before it completed (matching elements were handed out; they are dropped by the unwinding with
    whatever collected them); the element `f` panicked on is left as it was — hashbrown's iterator
    had already moved past it; the unwinding then drops the `DrainFilter`, whose destructor keeps
    draining with the (now working) closure: every *other* remaining matching element is removed
    and dropped. -/
def Map.drainFilterFusedOut (m : Map) (p : Pred) (fuse : Nat) (o : Orc) : Except Fault (Map × Out × Bool) :=
  if !Map.iterOrderOk m o.calls then .error (.oracle "drain_filter: visiting order is not main-then-old")
  else
    let nMain := m.main.ents.length
    match Map.drainFilterLoop p nMain (o.calls.take fuse) 0 m o.empt none [] {} with
    | .error f => .error f
    | .ok (m1, ys1, c1, _) =>
      let used := (ys1.filter (fun e => (m.main.find? e.k).isSome)).length
      match Map.drainFilterLoop p nMain (o.calls.drop (fuse + 1)) (fuse + 1) m1 (o.empt - used) none [] {} with
      | .error f => .error f
      | .ok (m2, ys2, c2, _) =>
        .ok (m2, { cost := c1 + c2 + { dropped := idsOf ys1 ++ idsOf ys2 } }, decide (fuse < o.calls.length))

/-- `entry(k)` then `replace_entry_with(f)` on the occupied entry, `f` panicking: the element was
    taken out of its bucket for `f` and is dropped by the unwinding, with the key handed to `entry`. -/
def Map.replaceFusedOut (m : Map) (k kid : Nat) (o : Orc) : Except Fault (Map × Out × Bool) :=
  match Map.replaceFused m k o with
  | .error f => .error f
  | .ok (m', some e) => .ok (m', { cost := { hashes := 1, dropped := kid :: e.ids } }, true)
  | .ok (m', none) => .ok (m', { cost := { hashes := 1, dropped := [kid] } }, false)

/-- `entry(k).or_insert_with(f)` / `or_insert_with_key(f)` / `raw_entry_mut().from_key(&k).or_insert_with(f)`
    (`inserting = true`) and `entry(k).and_modify(f)` / the raw-entry `and_modify` (`inserting = false`) with a
    closure that panics as soon as it is called.  The closure of an inserting call runs only on a vacant entry —
    before anything is inserted —, the modifying one only on an occupied entry, on the value in place.  Either way
    the map is not touched; the unwinding drops the handle, and with it the key object `entry(k)` was given
    (the raw API borrows its key: nothing to drop).  Returns whether the closure was reached. -/
def Map.entryFused (m : Map) (k kid : Nat) (raw inserting : Bool) : Map × Out × Bool :=
  let present := (m.find k).isSome
  (m, { cost := { hashes := 1, dropped := if raw then [] else [kid] } }, if inserting then !present else present)

/-- A call under an `Eq` implementation that panics (`fired`: hashbrown's probing reached the fused comparison —
    how many comparisons a lookup makes is its private matter, so this is an oracle).  `Eq` is only ever called from
    `find`, and in `insert` / `remove` / `get_mut` / `entry(..).or_insert(..)` / the lookups `find` precedes every
    mutation: when the comparison panics nothing has been touched, and the unwinding drops the arguments the caller
    passed by value.  `kind`: 0 `insert(k, v)`, 1 `remove(&k)`, 2 `get(&k)`, 3 `entry(k).or_insert(v)`,
    4 `get_mut(&k)` (then `+= 1`). -/
def Map.eqFused (c : Cfg) (kind : Nat) (m : Map) (e : Entry) (fired : Bool) (o : Orc) :
    Except Fault (Map × Out × Bool) :=
  if fired then
    let args : List Nat := if kind = 0 ∨ kind = 3 then e.ids else []
    .ok (m, { cost := { hashes := 1, dropped := args } }, true)
  else
    match kind with
    | 0 => (Map.insert c m e o).map (fun (m', out) => (m', out, false))
    | 1 => (Map.removeEntry m e.k o).map (fun (m', out) => (m', out, false))
    | 3 => (Map.entryChain c false 1 m e.k e.kid [.orInsert false 0 e.v e.vid 0] o).map (fun (m', out) => (m', out, false))
    | 4 => let (m', out) := Map.getMut m e.k 1; .ok (m', out, false)
    | _ => .ok (m, Map.get m e.k, false)

end Griddle
