/-
  Arithmetic facts about hashbrown's sizing functions and griddle's `⌈L/R⌉` bookkeeping.
-/
import GriddleModel.Basic
namespace Griddle

theorem ceilDiv_zero (R : Nat) (hR : 0 < R) : ceilDiv 0 R = 0 := by
  unfold ceilDiv; simp; omega

theorem ceilDiv_pos (L R : Nat) (hR : 0 < R) (h : 0 < L) : 0 < ceilDiv L R := by
  unfold ceilDiv; apply Nat.div_pos <;> omega

theorem ceilDiv_mono (a b R : Nat) (h : a ≤ b) : ceilDiv a R ≤ ceilDiv b R := by
  unfold ceilDiv; exact Nat.div_le_div_right (by omega)

theorem ceilDiv_sub (L R : Nat) (hR : 0 < R) (h : R ≤ L) : ceilDiv (L - R) R + 1 = ceilDiv L R := by
  unfold ceilDiv
  have : L + R - 1 = (L - R + R - 1) + R := by omega
  rw [this, Nat.add_div_right _ hR]

theorem ceilDiv_le_self (L R : Nat) (hR : 0 < R) : ceilDiv L R ≤ L := by
  unfold ceilDiv
  rcases Nat.eq_zero_or_pos L with h | h
  · subst h; simp; omega
  · apply Nat.div_le_of_le_mul
    have : L + R - 1 ≤ R * L := by
      have h1 : R * L ≥ R + L - 1 := by
        rcases R with _ | R
        · omega
        · rcases L with _ | L
          · omega
          · simp [Nat.mul_succ, Nat.succ_mul]; omega
      omega
    exact this

theorem ceilDiv_le_of_le_mul (L R n : Nat) (hR : 0 < R) (h : L ≤ n * R) : ceilDiv L R ≤ n := by
  unfold ceilDiv
  apply Nat.le_of_lt_succ
  apply (Nat.div_lt_iff_lt_mul hR).2
  rw [Nat.succ_mul]; omega

theorem le_ceilDiv_mul (L R : Nat) (hR : 0 < R) : L ≤ ceilDiv L R * R := by
  unfold ceilDiv
  have := Nat.div_add_mod (L + R - 1) R
  have hm := Nat.mod_lt (L + R - 1) hR
  rw [Nat.mul_comm] at this
  omega

/-! ### `next_power_of_two` -/

theorem nextPow2Go_ge (n : Nat) : ∀ fuel p, n ≤ p * 2 ^ fuel → n ≤ nextPow2Go n fuel p := by
  intro fuel
  induction fuel with
  | zero => intro p h; simpa [nextPow2Go] using h
  | succ f ih =>
    intro p h
    unfold nextPow2Go
    split
    · assumption
    · apply ih
      rw [Nat.pow_succ] at h
      rw [Nat.mul_comm 2 p, Nat.mul_assoc, Nat.mul_comm 2]
      exact h

theorem nextPow2Go_pow (n : Nat) : ∀ fuel p, (∃ e, p = 2 ^ e) → ∃ e, nextPow2Go n fuel p = 2 ^ e := by
  intro fuel
  induction fuel with
  | zero => intro p h; simpa [nextPow2Go] using h
  | succ f ih =>
    intro p ⟨e, he⟩
    unfold nextPow2Go
    split
    · exact ⟨e, he⟩
    · apply ih; exact ⟨e + 1, by rw [he, Nat.pow_succ, Nat.mul_comm]⟩

theorem nextPow2Go_ge_start (n : Nat) : ∀ fuel p, p ≤ nextPow2Go n fuel p := by
  intro fuel
  induction fuel with
  | zero => intro p; simp [nextPow2Go]
  | succ f ih =>
    intro p
    unfold nextPow2Go
    split
    · exact Nat.le_refl _
    · have := ih (2 * p); omega

theorem nextPow2_ge (n : Nat) (h : n ≤ USIZE) : n ≤ nextPow2 n := by
  unfold nextPow2
  apply nextPow2Go_ge
  simpa [USIZE] using h

theorem nextPow2_pow (n : Nat) : ∃ e, nextPow2 n = 2 ^ e :=
  nextPow2Go_pow n 64 1 ⟨0, rfl⟩

/-- a power of two that is at least 9 is a multiple of 8 -/
theorem pow2_dvd8 (p : Nat) (hp : ∃ e, p = 2 ^ e) (h : 9 ≤ p) : p % 8 = 0 := by
  obtain ⟨e, rfl⟩ := hp
  match e with
  | 0 => simp at h
  | 1 => simp at h
  | 2 => simp at h
  | 3 => simp at h
  | e + 4 =>
    have : 2 ^ (e + 4) = 8 * (2 * 2 ^ e) := by
      rw [Nat.pow_add]; omega
    rw [this]; exact Nat.mul_mod_right 8 _

/-- `capacity_to_buckets` returns a bucket count whose usable capacity covers the request.
    This is what makes every table griddle allocates large enough. -/
theorem fullCap_capToBuckets (cap b : Nat) (h : capToBuckets cap = some b) : cap ≤ fullCap b := by
  unfold capToBuckets at h
  split at h
  · injection h with h; subst h; simp [fullCap]; omega
  · split at h
    · injection h with h; subst h; simp [fullCap]; omega
    · split at h
      · cases h
      · injection h with h
        rename_i h4 h8 hov
        have hle : cap * 8 / 7 ≤ USIZE := by
          have : cap * 8 / 7 ≤ cap * 8 := Nat.div_le_self _ _
          omega
        have hge := nextPow2_ge (cap * 8 / 7) hle
        have hpow := nextPow2_pow (cap * 8 / 7)
        rw [h] at hge hpow
        have h9 : 9 ≤ b := by omega
        have hd := pow2_dvd8 b hpow h9
        unfold fullCap
        have : ¬ b ≤ 8 := by omega
        simp only [this, if_false]
        omega

theorem capToBuckets_ge4 (cap b : Nat) (h : capToBuckets cap = some b) : 4 ≤ b := by
  have := fullCap_capToBuckets cap b h
  unfold capToBuckets at h
  split at h
  · injection h with h; omega
  · split at h
    · injection h with h; omega
    · split at h
      · cases h
      · unfold fullCap at this
        split at this <;> omega

theorem fullCap_one : fullCap 1 = 0 := by simp [fullCap]

end Griddle
