/-
  Specifications of the layer-2 operations under the invariant: lookups, removals, growth and
  insertion.  Each holds for every oracle value.
-/
import GriddleModel.Lemmas.ListAux
namespace Griddle

/-- errors an *inserting / reserving* call may end with: an oracle rejection, or the documented
    capacity-overflow panic / allocation-failure abort when the request is too large. -/
def OkOrCap {α : Type} (r : Except Fault α) (P : α → Prop) : Prop :=
  match r with
  | .ok a => P a
  | .error f => (∃ w, f = .oracle w) ∨ f = .panic .capacityOverflow ∨ f = .abort

theorem OkOr.toCap {α : Type} {r : Except Fault α} {P : α → Prop} (h : OkOr r P) : OkOrCap r P := by
  unfold OkOr at h; unfold OkOrCap
  split <;> simp_all

theorem Inv.old_nodup {R : Nat} {t : Raw} (h : Inv R t) {o : Old} (ho : t.lo = some o) :
    (keysOf o.ents).Nodup := by
  have := h.nodup
  simp only [Raw.ents, ho, keysOf, List.map_append] at this
  exact (List.nodup_append.1 this).2.1

theorem Inv.main_nodup {R : Nat} {t : Raw} (h : Inv R t) : (keysOf t.main.ents).Nodup := by
  have := h.nodup
  simp only [Raw.ents, keysOf, List.map_append] at this
  exact (List.nodup_append.1 this).1

theorem Inv.disjoint {R : Nat} {t : Raw} (h : Inv R t) {o : Old} (ho : t.lo = some o) {k : Nat}
    (h1 : k ∈ keysOf t.main.ents) (h2 : k ∈ keysOf o.ents) : False := by
  have := h.nodup
  simp only [Raw.ents, ho, keysOf, List.map_append] at this
  exact (List.nodup_append.1 this).2.2 k h1 k h2 rfl

/-- `find` locates exactly the stored element with that key, and reports the right table. -/
theorem find_some_iff {R : Nat} {t : Raw} (h : Inv R t) (k : Nat) (loc : Loc) (e : Entry) :
    t.find k = some (loc, e) ↔
      (e.k = k ∧ loc.k = k ∧
        ((loc.inMain = true ∧ e ∈ t.main.ents) ∨
         (loc.inMain = false ∧ ∃ o, t.lo = some o ∧ e ∈ o.ents))) := by
  unfold Raw.find HB.find?
  constructor
  · intro hf
    split at hf
    · rename_i e' he'
      injection hf with hf; injection hf with h1 h2; subst h1 h2
      have := find_key_some he'
      exact ⟨this.2, rfl, Or.inl ⟨rfl, this.1⟩⟩
    · rename_i hnone
      split at hf
      · rename_i o ho
        cases hfo : o.ents.find? (fun e => e.k == k) with
        | none => simp [hfo] at hf
        | some e' =>
          simp [hfo] at hf
          obtain ⟨h1, h2⟩ := hf; subst h1 h2
          have := find_key_some hfo
          exact ⟨this.2, rfl, Or.inr ⟨rfl, o, ho, this.1⟩⟩
      · cases hf
  · rintro ⟨hk, hlk, hor⟩
    rcases hor with ⟨hm, hin⟩ | ⟨hm, o, ho, hin⟩
    · have := find_key_of_mem h.main_nodup hin
      rw [hk] at this
      simp only [this]
      cases loc; simp_all
    · have hnot : t.main.ents.find? (fun x => x.k == k) = none := by
        rw [find_key_none]
        intro hmem
        exact h.disjoint ho hmem (by rw [← hk]; exact List.mem_map_of_mem hin)
      simp only [hnot, ho]
      have := find_key_of_mem (h.old_nodup ho) hin
      rw [hk] at this
      simp only [this, Option.map]
      cases loc; simp_all

theorem find_none_iff {R : Nat} {t : Raw} (_h : Inv R t) (k : Nat) :
    t.find k = none ↔ k ∉ keysOf t.ents := by
  unfold Raw.find HB.find? Raw.ents
  cases hm : t.main.ents.find? (fun e => e.k == k) with
  | some e =>
    have := find_key_some hm
    simp only [keysOf, List.map_append, List.mem_append]
    constructor
    · intro h; cases h
    · intro h; exfalso; apply h; left; rw [← this.2]; exact List.mem_map_of_mem this.1
  | none =>
    have hn := find_key_none.1 hm
    cases hlo : t.lo with
    | none => simp [keysOf] at hn ⊢; exact hn
    | some o =>
      simp only [keysOf, List.map_append, List.mem_append]
      cases ho : o.ents.find? (fun e => e.k == k) with
      | none =>
        have := find_key_none.1 ho
        simp only [Option.map]
        constructor
        · intro _ h; rcases h with h | h
          · exact hn h
          · exact this h
        · intro _; trivial
      | some e =>
        have := find_key_some ho
        simp only [Option.map]
        constructor
        · intro h; cases h
        · intro h; exfalso; apply h; right; rw [← this.2]; exact List.mem_map_of_mem this.1

theorem find_loc {R : Nat} {t : Raw} (h : Inv R t) {k : Nat} {loc : Loc} {e : Entry}
    (hf : t.find k = some (loc, e)) : loc.k = k ∧ e.k = k ∧ e ∈ t.ents := by
  have := (find_some_iff h k loc e).1 hf
  refine ⟨this.2.1, this.1, ?_⟩
  rcases this.2.2 with ⟨_, hin⟩ | ⟨_, o, ho, hin⟩
  · simp [Raw.ents, hin]
  · simp [Raw.ents, ho, hin]

/-- Removing a located element (`remove(bucket)`): never faults, hands back that element, keeps the
    invariant (in particular the cursor agreement), and releases the old table exactly when this
    was its last element. -/
theorem removeAt_spec {R : Nat} (hR : 0 < R) {t : Raw} (h : Inv R t) {k : Nat} {loc : Loc} {e : Entry}
    (hf : t.find k = some (loc, e)) (toEmpty : Bool) :
    ∃ t' cost, Raw.removeAt t loc toEmpty = .ok (t', e, cost) ∧ Inv R t' ∧
      (e :: t'.ents).Perm t.ents ∧ t'.main.buckets = t.main.buckets ∧ t.main.gl ≤ t'.main.gl ∧
      cost.allocs = 0 ∧ cost.hashes = 0 ∧ cost.moved = 0 ∧ cost.dropped = [] ∧
      (∀ o, t.lo = some o → loc.inMain = false →
        (o.ents.length = 1 → t'.lo = none ∧ cost.frees = 1) ∧
        (1 < o.ents.length → ∃ o', t'.lo = some o' ∧ o'.ents.length + 1 = o.ents.length ∧ cost.frees = 0)) ∧
      (loc.inMain = true → t'.lo = t.lo ∧ cost.frees = 0) := by
  have hfs := (find_some_iff h k loc e).1 hf
  obtain ⟨hek, hlk, hor⟩ := hfs
  unfold Raw.removeAt
  rcases hor with ⟨hm, hin⟩ | ⟨hm, o, ho, hin⟩
  · -- main table
    have hfind : t.main.find? loc.k = some e := by
      unfold HB.find?; rw [hlk, ← hek]; exact find_key_of_mem h.main_nodup hin
    simp only [hm, if_true, HB.removeKey, hfind]
    refine ⟨_, _, rfl, ⟨?_, ?_, ?_, ?_⟩, ?_, rfl, ?_, rfl, rfl, rfl, rfl, ?_, fun _ => ⟨rfl, rfl⟩⟩
    · -- WF
      have hl := filter_key_length h.main_nodup hin
      have := h.wf
      unfold HB.WF at *
      simp only [hlk, ← hek]
      cases toEmpty <;> simp <;> omega
    · intro o' ho'; exact h.agree o' ho'
    · intro o' ho'
      have := h.head o' ho'
      simp only at ho' ⊢
      cases toEmpty <;> simp <;> omega
    · have hnd := h.nodup
      simp only [Raw.ents, keysOf, List.map_append] at hnd ⊢
      refine List.Nodup.sublist ?_ hnd
      exact List.Sublist.append (List.Sublist.map _ List.filter_sublist) (List.Sublist.refl _)
    · simp only [Raw.ents, hlk, ← hek]
      have := filter_key_perm h.main_nodup hin
      exact (List.Perm.append_right _ this)
    · cases toEmpty <;> simp
    · intro o' _ hcontra; cases hcontra
  · -- old table
    have hfind : o.ents.find? (fun x => x.k == e.k) = some e :=
      find_key_of_mem (h.old_nodup ho) hin
    have hl := filter_key_length (h.old_nodup ho) hin
    have hag := h.agree o ho
    have hhd := h.head o ho
    simp only [hm, Bool.false_eq_true, if_false, ho, hfind, hlk, ← hek]
    have hperm : (e :: (t.main.ents ++ o.ents.filter (fun y => y.k != e.k))).Perm (t.main.ents ++ o.ents) := by
      have := filter_key_perm (h.old_nodup ho) hin
      exact (List.perm_middle.symm).trans (List.Perm.append_left _ this)
    have hnd' : (keysOf (t.main.ents ++ o.ents.filter (fun y => y.k != e.k))).Nodup := by
      have hnd := h.nodup
      simp only [Raw.ents, ho, keysOf, List.map_append] at hnd ⊢
      refine List.Nodup.sublist ?_ hnd
      exact List.Sublist.append (List.Sublist.refl _) (List.Sublist.map _ List.filter_sublist)
    by_cases h1 : (o.ents.filter (fun y => y.k != e.k)).length = 0
    · simp only [h1, if_true]
      have hnil : o.ents.filter (fun y => y.k != e.k) = [] := List.eq_nil_of_length_eq_zero h1
      refine ⟨_, _, rfl, ⟨h.wf, ?_, ?_, ?_⟩, ?_, rfl, Nat.le_refl _, rfl, rfl, rfl, rfl, ?_, ?_⟩
      · intro o' ho'; cases ho'
      · intro o' ho'; cases ho'
      · simpa [Raw.ents, hnil] using hnd'
      · simpa [Raw.ents, ho, hnil] using hperm
      · intro o2 ho2 _
        cases ho2
        refine ⟨fun _ => ⟨rfl, rfl⟩, fun hlt => ?_⟩
        omega
      · intro hcontra; cases hcontra
    · simp only [h1, if_false]
      refine ⟨_, _, rfl, ⟨h.wf, ?_, ?_, ?_⟩, ?_, rfl, Nat.le_refl _, rfl, rfl, rfl, rfl, ?_, ?_⟩
      · intro o' ho'; cases ho'; simp; omega
      · intro o' ho'; cases ho'
        simp only
        have hmono := ceilDiv_mono ((o.ents.filter (fun y => y.k != e.k)).length) o.ents.length R (by omega)
        omega
      · simpa [Raw.ents] using hnd'
      · simpa [Raw.ents, ho] using hperm
      · intro o2 ho2 _
        cases ho2
        refine ⟨fun h1' => ?_, fun _ => ⟨_, rfl, hl, rfl⟩⟩
        omega
      · intro hcontra; cases hcontra

theorem tryWithCapacity_spec (c : Cfg) (n : Nat) (nt : HB) (h : HB.tryWithCapacity c n = .ok nt) :
    nt.ents = [] ∧ nt.WF ∧ n ≤ nt.gl ∧ nt.gl = fullCap nt.buckets ∧ (n = 0 → nt = HB.new) ∧
      (0 < n → nt.allocated = true) := by
  unfold HB.tryWithCapacity at h
  split at h
  · rename_i h0
    injection h with h; subst h
    simp [HB.new, HB.WF, fullCap, h0]
  · rename_i h0
    split at h
    · cases h
    · rename_i b hb
      split at h
      · cases h
      · injection h with h; subst h
        have := fullCap_capToBuckets n b hb
        have h4 := capToBuckets_ge4 n b hb
        refine ⟨rfl, ?_, this, rfl, fun h => absurd h h0, fun _ => ?_⟩
        · simp [HB.WF]
        · simp [HB.allocated]; omega

/-- `try_grow` on a table that is not mid-resize: either an allocation error (state untouched),
    or a fresh main table with room for every parked element, the insertions that will move
    them, and `extra` more — the old contents parked in *some* order, cursor at its start. -/
theorem tryGrow_spec (c : Cfg) (t : Raw) (extra : Nat) (perm : List Nat)
    (hlo : t.lo = none) (hnd : (keysOf t.main.ents).Nodup) :
    OkOr (Raw.tryGrow c t extra perm) (fun r =>
      match r.2.1 with
      | some _ => r.1 = t ∧ r.2.2 = {}
      | none =>
        r.1.main.ents = [] ∧ r.1.main.WF ∧
        t.main.ents.length + ceilDiv t.main.ents.length c.R + max extra (ceilDiv t.main.ents.length c.R) ≤ r.1.main.gl ∧
        r.1.ents.Perm t.ents ∧
        (∀ o, r.1.lo = some o → o.cursor = o.ents.length ∧ o.ents.length = t.main.ents.length ∧ 0 < o.ents.length) ∧
        (t.main.ents.length = 0 → r.1.lo = none) ∧ (0 < t.main.ents.length → r.1.lo.isSome = true) ∧
        r.2.2.allocs ≤ 1 ∧ r.2.2.hashes = 0 ∧ r.2.2.moved = 0 ∧ r.2.2.dropped = [] ∧
        (r.2.2.allocs = 0 → r.1.main = HB.new)) := by
  unfold Raw.tryGrow
  have hd : (c.debug && t.lo.isSome) = false := by simp [hlo]
  simp only [hd, Bool.false_eq_true, if_false]
  split
  · simp [OkOr]
  · cases htw : HB.tryWithCapacity c (t.main.ents.length + ceilDiv t.main.ents.length c.R +
        max extra (ceilDiv t.main.ents.length c.R)) with
    | error e => simp [OkOr]
    | ok nt =>
      obtain ⟨hne, hwf, hgl, _, hz, hal⟩ := tryWithCapacity_spec c _ nt htw
      simp only
      split
      · rename_i h0
        have hnil : t.main.ents = [] := List.eq_nil_of_length_eq_zero h0
        simp only [OkOr, hlo]
        refine ⟨hne, hwf, hgl, ?_, ?_, fun _ => trivial, fun h => by omega, ?_, ?_, ?_, ?_, ?_⟩
        · simp [Raw.ents, hne, hlo, hnil]
        · intro o ho; cases ho
        · simp [HB.freeCost]; split <;> simp
        · simp [HB.freeCost]
        · simp [HB.freeCost]
        · simp [HB.freeCost]
        · intro ha
          simp [HB.freeCost] at ha
          by_cases hz0 : t.main.ents.length + ceilDiv t.main.ents.length c.R + max extra (ceilDiv t.main.ents.length c.R) = 0
          · exact hz hz0
          · have := hal (Nat.pos_of_ne_zero hz0)
            simp [this] at ha
      · rename_i h0
        cases hre : Raw.reorder t.main.ents perm with
        | none => simp [OkOr]
        | some es =>
          have hp := reorder_perm hnd hre
          have hlen := hp.length_eq
          simp only [OkOr, hlo]
          refine ⟨hne, hwf, hgl, ?_, ?_, fun h => absurd h h0, fun _ => rfl, ?_, ?_, ?_, ?_, ?_⟩
          · simp [Raw.ents, hne, hlo]; exact hp
          · intro o ho; cases ho; exact ⟨rfl, hlen, by simp only; omega⟩
          · simp; split <;> simp
          · simp
          · simp
          · simp
          · intro ha
            have hpos : 0 < t.main.ents.length + ceilDiv t.main.ents.length c.R + max extra (ceilDiv t.main.ents.length c.R) := by omega
            have := hal hpos
            simp [this] at ha

/-- griddle's `insert_no_grow` under the invariant: the main-table insertion, then `carry`.
    It never reallocates, moves at most `R` elements, never lowers `capacity()`, and
    re-establishes the invariant — for every oracle. -/
theorem Raw.insertNoGrow_spec (c : Cfg) (hR : 0 < c.R) (t : Raw) (e : Entry) (hits : Nat)
    (h : Inv c.R t) (hroom : 0 < t.main.gl) (hfresh : e.k ∉ keysOf t.ents) :
    OkOr (Raw.insertNoGrow c t e hits) (fun r =>
      Inv c.R r.1 ∧ r.1.ents.Perm (e :: t.ents) ∧ r.1.main.buckets = t.main.buckets ∧
      t.main.capacity ≤ r.1.main.capacity ∧
      r.2.2.allocs = 0 ∧ r.2.2.moved ≤ c.R ∧ r.2.2.hashes = r.2.2.moved ∧ r.2.2.dropped = [] ∧
      (∀ o, t.lo = some o →
        r.2.2.moved = min c.R o.ents.length ∧
        (o.ents.length ≤ c.R → r.1.lo = none) ∧
        (c.R < o.ents.length → ∃ o', r.1.lo = some o' ∧ o'.ents.length = o.ents.length - c.R)) ∧
      (t.lo = none → r.1.lo = none ∧ r.2.2.moved = 0)) := by
  unfold Raw.insertNoGrow
  have hins := HB.insertNoGrow_spec t.main e (decide (0 < hits)) h.wf hroom
  match hres : t.main.insertNoGrow e (decide (0 < hits)) with
  | .error f => rw [hres] at hins; simpa [OkOr] using hins
  | .ok m =>
    rw [hres] at hins
    simp only [OkOr] at hins
    obtain ⟨hb, he, hwf', hgl1, hgl2⟩ := hins
    simp only
    have hents' : Raw.ents { t with main := m } = e :: t.ents := by
      simp [Raw.ents, he]
    have hnd' : (keysOf (Raw.ents { t with main := m })).Nodup := by
      rw [hents']; simp only [keysOf, List.map_cons, List.nodup_cons]
      exact ⟨hfresh, h.nodup⟩
    cases hlo : t.lo with
    | none =>
      simp only [hlo, Option.isSome, Bool.false_eq_true, if_false, OkOr]
      refine ⟨⟨hwf', ?_, ?_, ?_⟩, ?_, hb, ?_, trivial, Nat.zero_le _, trivial, trivial, ?_, fun _ => ⟨trivial, trivial⟩⟩
      · intro o ho; cases ho
      · intro o ho; cases ho
      · simpa [hlo] using hnd'
      · simp only [hlo] at hents'; rw [hents']
      · simp only [HB.capacity, he, List.length_cons]; omega
      · intro o ho; cases ho
    | some o =>
      simp only [Option.isSome, if_true]
      have hcs := carry_spec c hR { main := m, lo := some o } (hits - 1) hwf'
        (fun o' ho' => by cases ho'; exact h.agree o hlo)
        (fun o' ho' => by cases ho'; have := (h.head o hlo).1; simp only; omega)
        (by simpa [hlo] using hnd')
      match hcr : Raw.carry c { main := m, lo := some o } (hits - 1) with
      | .error f => rw [hcr] at hcs; simpa [OkOr] using hcs
      | .ok r =>
        rw [hcr] at hcs
        simp only [OkOr] at hcs ⊢
        obtain ⟨hi, hp, hbk, hgl, _, hso⟩ := hcs
        obtain ⟨h1, h2, h3, h4, h5, h6, h7, _, h9⟩ := hso o rfl
        refine ⟨hi, ?_, by rw [hbk]; exact hb, ?_, h7, ?_, ?_, h9, ?_, ?_⟩
        · have : Raw.ents { main := m, lo := some o } = e :: t.ents := by
            simpa [hlo] using hents'
          rw [← this]; exact hp
        · simp only [HB.capacity] at *
          rw [h2, he]; simp only [List.length_cons]; omega
        · rw [h5]; exact Nat.min_le_left _ _
        · rw [h6, h5]
        · intro o2 ho2; cases ho2
          refine ⟨h5, h3, fun hlt => ?_⟩
          exact ⟨_, h4 hlt, by simp⟩
        · intro hc; cases hc

/-- `RawTable::insert` of an absent key under the invariant.  If the table is full it grows
    (only possible when no resize is pending — the invariant rules the `assert!` out), then
    inserts without growing and carries. -/
theorem Raw.insert_spec (c : Cfg) (hR : 0 < c.R) (t : Raw) (e : Entry) (hits : Nat) (perm : List Nat)
    (h : Inv c.R t) (hfresh : e.k ∉ keysOf t.ents) :
    OkOrCap (Raw.insert c t e hits perm) (fun r =>
      Inv c.R r.1 ∧ r.1.ents.Perm (e :: t.ents) ∧
      r.2.2.allocs ≤ 1 ∧ r.2.2.moved ≤ c.R ∧ r.2.2.hashes = r.2.2.moved ∧ r.2.2.dropped = [] ∧
      (0 < t.main.gl → r.2.2.allocs = 0 ∧ r.1.main.buckets = t.main.buckets ∧
        t.main.capacity ≤ r.1.main.capacity) ∧
      (∀ o, t.lo = some o →
        r.2.2.moved = min c.R o.ents.length ∧
        (o.ents.length ≤ c.R → r.1.lo = none) ∧
        (c.R < o.ents.length → ∃ o', r.1.lo = some o' ∧ o'.ents.length = o.ents.length - c.R))) := by
  unfold Raw.insert
  by_cases hgl : t.main.gl = 0
  · simp only [hgl, if_true]
    have hlo : t.lo = none := by
      cases hlo : t.lo with
      | none => rfl
      | some o => have := (h.head o hlo).2; omega
    simp only [hlo, Option.isSome, Bool.false_eq_true, if_false]
    unfold Raw.grow
    have hg := tryGrow_spec c t 1 perm hlo h.main_nodup
    match hgr : Raw.tryGrow c t 1 perm with
    | .error f => rw [hgr] at hg; simp only [OkOr] at hg; simp only [OkOrCap]; exact Or.inl hg
    | .ok (t1, some .overflow, c1) => simp [OkOrCap]
    | .ok (t1, some .alloc, c1) => simp [OkOrCap]
    | .ok (t1, none, c1) =>
      rw [hgr] at hg
      simp only [OkOr] at hg
      obtain ⟨g1, g2, g3, g4, g5, g6, g7, g8, g9, g10, g11, _⟩ := hg
      simp only
      have hi1 : Inv c.R t1 := by
        refine ⟨g2, fun o ho => (g5 o ho).1, fun o ho => ?_, ?_⟩
        · have := g5 o ho
          rw [this.2.1]
          have hm : 1 ≤ max 1 (ceilDiv t.main.ents.length c.R) := Nat.le_max_left _ _
          omega
        · exact (keysOf_perm g4).nodup_iff.2 h.nodup
      have hroom1 : 0 < t1.main.gl := by
        have hm : 1 ≤ max 1 (ceilDiv t.main.ents.length c.R) := Nat.le_max_left _ _
        omega
      have hfresh1 : e.k ∉ keysOf t1.ents := by
        intro hin; exact hfresh ((keysOf_perm g4).mem_iff.1 hin)
      have hs := Raw.insertNoGrow_spec c hR t1 e hits hi1 hroom1 hfresh1
      match hin : Raw.insertNoGrow c t1 e hits with
      | .error f => rw [hin] at hs; simp only [OkOr] at hs; simp only [OkOrCap]; exact Or.inl hs
      | .ok (t2, h2, c2) =>
        rw [hin] at hs
        simp only [OkOr] at hs
        obtain ⟨s1, s2, s3, s4, s5, s6, s7, s8, s9, s10⟩ := hs
        simp only [OkOrCap]
        refine ⟨s1, s2.trans (List.Perm.cons e g4), ?_, ?_, ?_, ?_, fun hpos => by omega, ?_⟩
        · simp; omega
        · simp; omega
        · simp; omega
        · simp [g11, s8]
        · intro o ho; cases ho
  · simp only [hgl, if_false]
    have hs := Raw.insertNoGrow_spec c hR t e hits h (Nat.pos_of_ne_zero hgl) hfresh
    match hin : Raw.insertNoGrow c t e hits with
    | .error f => rw [hin] at hs; simp only [OkOr] at hs; simp only [OkOrCap]; exact Or.inl hs
    | .ok (t2, h2, c2) =>
      rw [hin] at hs
      simp only [OkOr] at hs
      obtain ⟨s1, s2, s3, s4, s5, s6, s7, s8, s9, s10⟩ := hs
      simp only [OkOrCap]
      exact ⟨s1, s2, by omega, s6, s7, s8, fun _ => ⟨s5, s3, s4⟩, s9⟩

end Griddle
