/-
  The size invariant `Small` is preserved by the remaining calls too: retain, drain_filter, drain,
  entry / raw-entry chains, clone, clone_from, iter_mut.  (The history language of `run_refines`
  is covered in `Small.lean`.)
-/
import GriddleModel.Lemmas.Small
namespace Griddle

theorem eraseAt_small {t : Raw} {loc : Loc} {b : Bool} {r : Raw × Cost}
    (hs : Small t) (h : Raw.eraseAt t loc b = .ok r) : Small r.1 := by
  unfold Raw.eraseAt at h
  split at h
  · cases hr : t.main.removeKey loc.k b with
    | error f => rw [hr] at h; cases h
    | ok q =>
      obtain ⟨m, e⟩ := q
      rw [hr] at h
      cases h
      unfold HB.removeKey at hr
      split at hr
      · cases hr
      · cases hr; exact hs
  · split at h
    · cases h
    · split at h
      · cases h
      · cases h; exact hs

theorem replaceAt_small {t : Raw} {loc : Loc} {nv : Option (Nat × Nat)} {b : Bool} {r : Raw × Bool}
    (hs : Small t) (h : Raw.replaceAt t loc nv b = .ok r) : Small r.1 := by
  unfold Raw.replaceAt at h
  cases nv with
  | some p =>
    obtain ⟨v, vid⟩ := p
    dsimp only at h
    split at h
    · split at h
      · cases h
      · cases h; exact hs
    · split at h
      · cases h
      · split at h
        · cases h
        · cases h; exact hs
  | none =>
    dsimp only at h
    split at h
    · cases hr : t.main.removeKey loc.k b with
      | error f => rw [hr] at h; cases h
      | ok q =>
        obtain ⟨m, e⟩ := q
        rw [hr] at h
        cases h
        unfold HB.removeKey at hr
        split at hr
        · cases hr
        · cases hr; exact hs
    · split at h
      · cases h
      · split at h
        · cases h
        · cases h; exact hs

theorem bump_small {m : Raw} {loc : Loc} {add : Nat} (hs : Small m) : Small (Map.bump m loc add) := by
  unfold Map.bump; split <;> exact hs

theorem setValAt_small {m : Raw} {loc : Loc} {v vid : Nat} (hs : Small m) : Small (Map.setValAt m loc v vid) := by
  unfold Map.setValAt; split <;> exact hs

theorem setKidAt_small {m : Raw} {loc : Loc} {kid : Nat} (hs : Small m) : Small (Map.setKidAt m loc kid) := by
  unfold Map.setKidAt; split <;> exact hs

theorem retainLoop_small (p : Pred) (nMain : Nat) : ∀ (ks : List Nat) (i : Nat) (m : Map) (empt : Nat) (cost : Cost)
    (r : Map × Cost), Small m → Map.retainLoop p nMain ks i m empt cost = .ok r → Small r.1 := by
  intro ks
  induction ks with
  | nil => intro i m empt cost r hs h; unfold Map.retainLoop at h; cases h; exact hs
  | cons k rest ih =>
    intro i m empt cost r hs h
    unfold Map.retainLoop at h
    dsimp only at h
    split at h
    · exact ih _ _ _ _ _ (bump_small hs) h
    · split at h
      · cases h
      · rename_i m2 ec he
        exact ih _ _ _ _ _ (eraseAt_small (r := (m2, ec)) (bump_small hs) he) h

theorem retain_small {m : Map} {p : Pred} {o : Orc} {r : Map × Out} (hs : Small m)
    (h : Map.retain m p o = .ok r) : Small r.1 := by
  unfold Map.retain at h
  split at h
  · cases h
  · split at h
    · cases h
    · rename_i m' cost hr
      cases h
      exact retainLoop_small p _ _ _ _ _ _ (m', cost) hs hr

theorem drainFilterLoop_small (p : Pred) (nMain : Nat) : ∀ (ks : List Nat) (i : Nat) (m : Map) (empt : Nat)
    (take : Option Nat) (acc : List Entry) (cost : Cost) (r : Map × List Entry × Cost × List Nat),
    Small m → Map.drainFilterLoop p nMain ks i m empt take acc cost = .ok r → Small r.1 := by
  intro ks
  induction ks with
  | nil => intro i m empt take acc cost r hs h; unfold Map.drainFilterLoop at h; cases h; exact hs
  | cons k rest ih =>
    intro i m empt take acc cost r hs h
    unfold Map.drainFilterLoop at h
    split at h
    · cases h; exact hs
    · dsimp only at h
      split at h
      · split at h
        · cases h
        · rename_i m2 e rc he
          exact ih _ _ _ _ _ _ _ (removeAt_small (r := (m2, e, rc)) (bump_small hs) he) h
      · exact ih _ _ _ _ _ _ _ (bump_small hs) h

theorem drainFilter_small {m : Map} {p : Pred} {take : Nat} {forget : Bool} {o : Orc} {r : Map × Out} (hs : Small m)
    (h : Map.drainFilter m p take forget o = .ok r) : Small r.1 := by
  unfold Map.drainFilter at h
  split at h
  · cases h
  · dsimp only at h
    split at h
    · cases h
    · rename_i m1 ys c1 ro hr
      have hs1 : Small m1 := drainFilterLoop_small p _ _ _ _ _ _ _ _ (m1, ys, c1, ro) hs hr
      split at h
      · cases h; exact hs1
      · split at h
        · cases h
        · rename_i m2 d c2 ro2 hr2
          cases h
          exact drainFilterLoop_small p _ _ _ _ _ _ _ _ (m2, d, c2, ro2) hs1 hr2

theorem drain_small {m : Map} {take : Nat} {forget : Bool} {o : Orc} {r : Map × Out} (hs : Small m)
    (h : Map.drain m take forget o = .ok r) : Small r.1 := by
  unfold Map.drain at h
  split at h
  · cases h
  · split at h
    · cases h
    · dsimp only at h
      split at h
      · cases h; show (1 : Nat) < 2 ^ 63; decide
      · cases h; exact hs

theorem andCarryLoop_small (c : Cfg) (fresh : Entry → Entry) : ∀ (es : List Entry) (m : HB) (hits : Nat) (cost : Cost)
    (r : HB × Nat × Cost), m.buckets < 2 ^ 63 → Raw.andCarryLoop c fresh m es hits cost = .ok r →
    r.1.buckets < 2 ^ 63 := by
  intro es
  induction es with
  | nil => intro m hits cost r hs h; unfold Raw.andCarryLoop at h; cases h; exact hs
  | cons e rest ih =>
    intro m hits cost r hs h
    unfold Raw.andCarryLoop at h
    split at h
    · cases h
    · rename_i m' extra hi
      exact ih _ _ _ _ (HB.insertGrowable_small (r := (m', extra)) hs hi) h

theorem cloneWith_small {c : Cfg} {t : Raw} {fresh : Entry → Entry} {hits : Nat} {r : Raw × Cost}
    (hs : Small t) (h : Raw.cloneWith c t fresh hits = .ok r) : Small r.1 := by
  unfold Raw.cloneWith at h
  have hm : (t.main.cloneWith fresh).1.buckets < 2 ^ 63 := by
    unfold HB.cloneWith
    split
    · exact hs
    · show (1 : Nat) < 2 ^ 63; decide
  cases hcw : t.main.cloneWith fresh with
  | mk m mc =>
    rw [hcw] at h hm
    dsimp only at h hm
    split at h
    · cases h; exact hm
    · split at h
      · cases h
      · split at h
        · cases h
        · rename_i m' hh cc ha
          cases h
          exact andCarryLoop_small c fresh _ _ _ _ (m', hh, cc) hm ha

theorem cloneFrom_small {c : Cfg} {dst src : Raw} {fresh : Entry → Entry} {hits : Nat} {r : Raw × Cost}
    (hs : Small src) (h : Raw.cloneFrom c dst src fresh hits = .ok r) : Small r.1 := by
  unfold Raw.cloneFrom at h
  dsimp only at h
  -- the main table installed: the singleton, or a copy of the source's
  have hm : ∀ (x : HB × Cost),
      x = (if !src.main.allocated then (HB.new, ({ dropped := idsOf dst.main.ents } : Cost) + dst.main.freeCost)
           else if dst.main.buckets = src.main.buckets then
             ({ src.main with ents := src.main.ents.map fresh }, { dropped := idsOf dst.main.ents })
           else ({ src.main with ents := src.main.ents.map fresh },
                 ({ dropped := idsOf dst.main.ents, allocs := 1 } : Cost) + dst.main.freeCost)) →
      x.1.buckets < 2 ^ 63 := by
    intro x hx
    subst hx
    split
    · show (1 : Nat) < 2 ^ 63; decide
    · split <;> exact hs
  generalize hx : (if !src.main.allocated then (HB.new, ({ dropped := idsOf dst.main.ents } : Cost) + dst.main.freeCost)
           else if dst.main.buckets = src.main.buckets then
             ({ src.main with ents := src.main.ents.map fresh }, { dropped := idsOf dst.main.ents })
           else ({ src.main with ents := src.main.ents.map fresh },
                 ({ dropped := idsOf dst.main.ents, allocs := 1 } : Cost) + dst.main.freeCost)) = x at h
  have hxs := hm x hx.symm
  obtain ⟨m, c1⟩ := x
  dsimp only at h hxs
  split at h
  · cases h; exact hxs
  · split at h
    · cases h
    · split at h
      · cases h
      · rename_i m' hh cc ha
        cases h
        exact andCarryLoop_small c fresh _ _ _ _ (m', hh, cc) hxs ha

theorem iterMutAdd_small {m : Map} {add : Nat} (hs : Small m) : Small (Map.iterMutAdd m add) := hs

open Map in
theorem chainStep_small {c : Cfg} {raw : Bool} {k : Nat} {m : Map} {st : ES} {acc : ChainAcc} {s : EStep} {o : Orc}
    {r : Map × ES × ChainAcc} (hs : Small m) (h : chainStep c raw k m st acc s o = .ok r) : Small r.1 := by
  cases st with
  | done => cases s <;> (simp only [chainStep] at h; cases h; exact hs)
  | vac key =>
    cases s <;> simp only [chainStep] at h
    case insert kid v vid add =>
      split at h
      · cases h
      · rename_i m' hh cost hi
        cases h; exact Raw.insert_small (r := (m', hh, cost)) hs hi
    case orInsert lzy kid v vid add =>
      split at h
      · cases h
      · rename_i m' hh cost hi
        cases h; exact Raw.insert_small (r := (m', hh, cost)) hs hi
    case vacInsert rehash kid v vid add =>
      split at h
      · cases h
      · rename_i m' hh cost hi
        cases h; exact Raw.insert_small (r := (m', hh, cost)) hs hi
    all_goals (cases h; exact hs)
  | occ loc spare =>
    cases s <;> simp only [chainStep] at h
    case andModify add =>
      split at h
      · cases h
      · cases h; exact setValAt_small hs
    case andReplace keep add =>
      split at h
      · cases h
      · split at h
        · cases h
        · rename_i m' hr
          cases h; exact replaceAt_small (r := (m', true)) hs hr
        · rename_i m' hr
          cases h; exact replaceAt_small (r := (m', false)) hs hr
    case occReplaceWith keep add =>
      split at h
      · cases h
      · split at h
        · cases h
        · rename_i m' hr
          cases h; exact replaceAt_small (r := (m', true)) hs hr
        · rename_i m' hr
          cases h; exact replaceAt_small (r := (m', false)) hs hr
    case insert kid v vid add =>
      split at h
      · cases h
      · cases h; exact setValAt_small hs
    case orInsert lzy kid v vid add =>
      split at h
      · cases h
      · cases h; exact setValAt_small hs
    case occRemove =>
      split at h
      · cases h
      · rename_i m' e cost hr
        cases h; exact removeAt_small (r := (m', e, cost)) hs hr
    case occRemoveEntry =>
      split at h
      · cases h
      · rename_i m' e cost hr
        cases h; exact removeAt_small (r := (m', e, cost)) hs hr
    case occInsert v vid =>
      split at h
      · cases h
      · cases h; exact setValAt_small hs
    case occReplaceEntry v vid =>
      split at h
      · cases h; exact setKidAt_small (setValAt_small hs)
      · cases h
    case occReplaceKey kid =>
      split at h
      · cases h
      · split at h
        · cases h; exact setKidAt_small hs
        · split at h
          · cases h; exact setKidAt_small hs
          · cases h
    case occGetMut add =>
      split at h
      · cases h
      · cases h; exact setValAt_small hs
    all_goals (cases h; exact hs)

open Map in
theorem chainLoop_small {c : Cfg} {raw : Bool} {k : Nat} : ∀ (steps : List EStep) (o : Orc) (m : Map) (st : ES)
    (acc : ChainAcc) (r : Map × ES × ChainAcc), Small m → chainLoop c raw k steps m st acc o = .ok r → Small r.1 := by
  intro steps
  induction steps with
  | nil => intro o m st acc r hs h; unfold chainLoop at h; cases h; exact hs
  | cons s rest ih =>
    intro o m st acc r hs h
    unfold chainLoop at h
    split at h
    · cases h
    · rename_i m' st' acc' hst
      exact ih _ m' st' acc' r (chainStep_small (r := (m', st', acc')) hs hst) h

open Map in
theorem entryChain_small {c : Cfg} {raw : Bool} {lh : Nat} {m : Map} {k kid : Nat} {steps : List EStep} {o : Orc}
    {r : Map × Out} (hs : Small m) (h : entryChain c raw lh m k kid steps o = .ok r) : Small r.1 := by
  unfold entryChain at h
  dsimp only at h
  split at h
  · cases h
  · rename_i m' st acc hc
    cases h
    exact chainLoop_small steps o m _ _ (m', st, acc) hs hc

theorem clone_small {c : Cfg} {m : Map} {o : Orc} {r : Map × Out} (hs : Small m)
    (h : Map.clone c m o = .ok r) : Small r.1 := by
  unfold Map.clone at h
  split at h
  · cases h
  · rename_i m' cost hc
    cases h
    exact cloneWith_small (r := (m', cost)) hs hc

theorem cloneFromMap_small {c : Cfg} {dst src : Map} {o : Orc} {r : Map × Out} (hs : Small src)
    (h : Map.cloneFrom c dst src o = .ok r) : Small r.1 := by
  unfold Map.cloneFrom at h
  split at h
  · cases h
  · rename_i m' cost hc
    cases h
    exact cloneFrom_small (r := (m', cost)) hs hc

end Griddle
