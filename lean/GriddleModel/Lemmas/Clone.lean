/-
  `clone` / `clone_from` under the invariant.
-/
import GriddleModel.Lemmas.RawOps2
import GriddleModel.Lemmas.MapOps
namespace Griddle

theorem andCarryLoop_spec (c : Cfg) (fresh : Entry → Entry) : ∀ (ents : List Entry) (m : HB) (hits : Nat) (cost : Cost),
    m.WF → ents.length ≤ m.gl →
    OkOr (Raw.andCarryLoop c fresh m ents hits cost) (fun r =>
      r.1.buckets = m.buckets ∧ r.1.WF ∧ r.1.gl ≤ m.gl ∧ m.gl ≤ r.1.gl + ents.length ∧
      r.1.ents.Perm (m.ents ++ ents.map fresh) ∧
      r.2.2.hashes = cost.hashes + ents.length ∧ r.2.2.allocs = cost.allocs ∧ r.2.2.moved = cost.moved ∧
      r.2.2.frees = cost.frees ∧ r.2.2.dropped = cost.dropped) := by
  intro ents
  induction ents with
  | nil => intro m hits cost hwf _; simp [Raw.andCarryLoop, OkOr, hwf]
  | cons e rest ih =>
    intro m hits cost hwf hroom
    simp only [List.length_cons] at hroom
    unfold Raw.andCarryLoop
    have hpos : 0 < m.gl := by omega
    rw [HB.insertGrowable_room c m (fresh e) _ hpos]
    have hins := HB.insertNoGrow_spec m (fresh e) (decide (0 < hits)) hwf hpos
    match hres : m.insertNoGrow (fresh e) (decide (0 < hits)) with
    | .error f => rw [hres] at hins; simpa [OkOr, Except.map] using hins
    | .ok m' =>
      rw [hres] at hins
      simp only [OkOr] at hins
      obtain ⟨hb, he, hwf', hg1, hg2⟩ := hins
      simp only [Except.map]
      have := ih m' (hits - 1) (cost + { hashes := 1 } + {}) hwf' (by omega)
      match hrec : Raw.andCarryLoop c fresh m' rest (hits - 1) (cost + { hashes := 1 } + {}) with
      | .error f => rw [hrec] at this; simp only [hrec]; simpa [OkOr] using this
      | .ok r =>
        rw [hrec] at this
        simp only [hrec]
        simp only [OkOr] at this ⊢
        obtain ⟨h1, h2, h3, h4, h5, h6, h7, h8, h9, h10⟩ := this
        refine ⟨by rw [h1, hb], h2, by omega, by simp only [List.length_cons]; omega, ?_, ?_, ?_, ?_, ?_, ?_⟩
        · rw [he] at h5
          simp only [List.map_cons]
          exact h5.trans (List.perm_middle.symm)
        · rw [h6]; simp; omega
        · rw [h7]; simp
        · rw [h8]; simp
        · rw [h9]; simp
        · rw [h10]; simp

/-- `clone()`: the clone holds exactly the source's entries (as fresh objects), has no resize
    pending, and satisfies the invariant — whatever phase the source is in. -/
theorem cloneWith_spec (c : Cfg) (hR : 0 < c.R) (t : Raw) (fresh : Entry → Entry) (hits : Nat)
    (h : Inv c.R t) (hk : ∀ e, (fresh e).k = e.k) :
    OkOr (Raw.cloneWith c t fresh hits) (fun r =>
      Inv c.R r.1 ∧ r.1.lo = none ∧ r.1.ents.Perm (t.ents.map fresh) ∧ r.2.allocs ≤ 1 ∧ r.2.dropped = [] ∧
      r.1.main.buckets = (if t.main.allocated then t.main.buckets else 1)) := by
  unfold Raw.cloneWith HB.cloneWith
  have hkeys : ∀ es : List Entry, keysOf (es.map fresh) = keysOf es := fun es => keysOf_map_same fresh hk
  cases hlo : t.lo with
  | none =>
    have hents : t.ents = t.main.ents := by simp [Raw.ents, hlo]
    by_cases ha : t.main.allocated = true
    · simp only [ha, if_true, OkOr]
      refine ⟨⟨?_, ?_, ?_, ?_⟩, (by first | trivial | rfl), ?_, by simp, (by first | trivial | rfl), (by first | trivial | rfl)⟩
      · have := h.wf; unfold HB.WF at *; simpa using this
      · intro o ho; cases ho
      · intro o ho; cases ho
      · simp only [Raw.ents, List.append_nil]; rw [hkeys]; exact h.main_nodup
      · rw [hents]; simp [Raw.ents]
    · simp only [ha, Bool.false_eq_true, if_false, OkOr]
      -- an unallocated table holds nothing
      have hb : t.main.buckets = 1 := by simpa [HB.allocated] using ha
      have hnil : t.main.ents = [] := by
        have := h.wf; unfold HB.WF at this; rw [hb, fullCap_one] at this
        exact List.eq_nil_of_length_eq_zero (by omega)
      refine ⟨⟨by simp [HB.new, HB.WF, fullCap], ?_, ?_, by simp [Raw.ents, HB.new, keysOf]⟩, (by first | trivial | rfl), ?_, by simp, (by first | trivial | rfl), by simp [HB.new, ha]⟩
      · intro o ho; cases ho
      · intro o ho; cases ho
      · rw [hents, hnil]; simp [Raw.ents, HB.new]
  | some o =>
    have hag := h.agree o hlo
    have hhd := (h.head o hlo).1
    have hents : t.ents = t.main.ents ++ o.ents := by simp [Raw.ents, hlo]
    have halloc : t.main.allocated = true := by
      -- a table with room for parked elements is allocated
      unfold HB.allocated
      have hwf := h.wf; unfold HB.WF at hwf
      have h1 := (h.head o hlo).2
      by_cases hb : t.main.buckets = 1
      · rw [hb, fullCap_one] at hwf; omega
      · simpa using hb
    simp only [halloc, if_true]
    have hlt : ¬ o.ents.length < o.cursor := by omega
    simp only [hlt, if_false]
    rw [hag, List.take_length]
    have hwfm : ({ t.main with ents := t.main.ents.map fresh } : HB).WF := by
      have := h.wf; unfold HB.WF at *; simpa using this
    have hsp := andCarryLoop_spec c fresh o.ents { t.main with ents := t.main.ents.map fresh } hits {} hwfm
      (by show o.ents.length ≤ t.main.gl; omega)
    match hres : Raw.andCarryLoop c fresh { t.main with ents := t.main.ents.map fresh } o.ents hits {} with
    | .error f => rw [hres] at hsp; simpa [OkOr] using hsp
    | .ok (m', hh, cc) =>
      rw [hres] at hsp
      simp only [OkOr] at hsp ⊢
      obtain ⟨h1, h2, h3, h4, h5, h6, h7, h8, h9, h10⟩ := hsp
      have hperm : m'.ents.Perm (t.ents.map fresh) := by
        rw [hents, List.map_append]; exact h5
      refine ⟨⟨h2, ?_, ?_, ?_⟩, (by first | trivial | rfl), ?_, ?_, ?_, by simp [halloc, h1]⟩
      · intro o' ho'; cases ho'
      · intro o' ho'; cases ho'
      · rw [Raw.ents_none]
        have := (keysOf_perm hperm).nodup_iff.2 (by rw [hkeys]; exact h.nodup)
        exact this
      · rw [Raw.ents_none]; exact hperm
      · simp [h7]
      · simp [h10]

/-- `dst.clone_from(&src)`: whatever `dst` held (in either of its tables) is dropped; `dst` then
    holds exactly `src`'s entries as fresh objects, has no resize pending, satisfies the invariant. -/
theorem cloneFrom_spec (c : Cfg) (hR : 0 < c.R) (dst src : Raw) (fresh : Entry → Entry) (hits : Nat)
    (h : Inv c.R src) (hk : ∀ e, (fresh e).k = e.k) :
    OkOr (Raw.cloneFrom c dst src fresh hits) (fun r =>
      Inv c.R r.1 ∧ r.1.lo = none ∧ r.1.ents.Perm (src.ents.map fresh) ∧
      r.2.dropped.Perm (idsOf dst.ents) ∧ r.2.allocs ≤ 1) := by
  unfold Raw.cloneFrom
  have hkeys : ∀ es : List Entry, keysOf (es.map fresh) = keysOf es := fun es => keysOf_map_same fresh hk
  -- what is dropped: the old table's contents, then the main table's
  have hdrop : ∀ (x : Cost), x.dropped = idsOf dst.main.ents →
      ((match dst.lo with | some o => o.dropCost | none => ({} : Cost)) + x).dropped.Perm (idsOf dst.ents) := by
    intro x hx
    unfold Raw.ents
    cases hlo : dst.lo with
    | none => simp [hx]
    | some o => simp only [Old.dropCost, Cost.add_dropped, hx, idsOf_append]; exact List.perm_append_comm
  by_cases ha : src.main.allocated = true
  · -- the source's main table is allocated: its control bytes are copied (same buckets, growth_left)
    have hwfm : ({ src.main with ents := src.main.ents.map fresh } : HB).WF := by
      have := h.wf; unfold HB.WF at *; simpa using this
    cases hlo : src.lo with
    | none =>
      have hents : src.ents = src.main.ents := by simp [Raw.ents, hlo]
      simp only [ha, Bool.not_true, Bool.false_eq_true, if_false]
      by_cases hb : dst.main.buckets = src.main.buckets
      · simp only [hb, if_true, OkOr]
        refine ⟨⟨hwfm, ?_, ?_, ?_⟩, (by first | trivial | rfl), ?_, ?_, ?_⟩
        · intro o ho; cases ho
        · intro o ho; cases ho
        · simp only [Raw.ents, List.append_nil]; rw [hkeys]; exact h.main_nodup
        · rw [hents]; simp [Raw.ents]
        · exact hdrop _ rfl
        · cases dst.lo <;> simp [Old.dropCost]
      · simp only [hb, if_false, OkOr]
        refine ⟨⟨hwfm, ?_, ?_, ?_⟩, (by first | trivial | rfl), ?_, ?_, ?_⟩
        · intro o ho; cases ho
        · intro o ho; cases ho
        · simp only [Raw.ents, List.append_nil]; rw [hkeys]; exact h.main_nodup
        · rw [hents]; simp [Raw.ents]
        · exact hdrop _ (by simp [HB.freeCost])
        · cases dst.lo <;> simp [Old.dropCost, HB.freeCost]
    | some o =>
      have hag := h.agree o hlo
      have hhd := (h.head o hlo).1
      have hents : src.ents = src.main.ents ++ o.ents := by simp [Raw.ents, hlo]
      simp only [ha, Bool.not_true, Bool.false_eq_true, if_false]
      have hlt : ¬ o.ents.length < o.cursor := by omega
      have hsp := andCarryLoop_spec c fresh o.ents { src.main with ents := src.main.ents.map fresh } hits {} hwfm
        (by show o.ents.length ≤ src.main.gl; omega)
      -- both bucket cases install the same table
      have key : ∀ (c1 : Cost), c1.dropped = idsOf dst.main.ents → c1.allocs ≤ 1 →
          OkOr (match Raw.andCarryLoop c fresh { src.main with ents := src.main.ents.map fresh } (o.ents.take o.cursor) hits {} with
                | .error f => .error f
                | .ok (m', _, cc) => .ok (({ main := m', lo := none } : Raw),
                    (match dst.lo with | some o => o.dropCost | none => ({} : Cost)) + c1 + cc)) (fun r =>
            Inv c.R r.1 ∧ r.1.lo = none ∧ r.1.ents.Perm (src.ents.map fresh) ∧
            r.2.dropped.Perm (idsOf dst.ents) ∧ r.2.allocs ≤ 1) := by
        intro c1 hc1 hc1a
        rw [hag, List.take_length]
        match hres : Raw.andCarryLoop c fresh { src.main with ents := src.main.ents.map fresh } o.ents hits {} with
        | .error f => rw [hres] at hsp; simpa [OkOr] using hsp
        | .ok (m', hh, cc) =>
          rw [hres] at hsp
          simp only [OkOr] at hsp ⊢
          obtain ⟨h1, h2, h3, h4, h5, h6, h7, h8, h9, h10⟩ := hsp
          have hperm : m'.ents.Perm (src.ents.map fresh) := by
            rw [hents, List.map_append]; exact h5
          refine ⟨⟨h2, ?_, ?_, ?_⟩, (by first | trivial | rfl), ?_, ?_, ?_⟩
          · intro o' ho'; cases ho'
          · intro o' ho'; cases ho'
          · rw [Raw.ents_none]
            exact (keysOf_perm hperm).nodup_iff.2 (by rw [hkeys]; exact h.nodup)
          · rw [Raw.ents_none]; exact hperm
          · simp only [Cost.add_dropped, h10, List.append_nil]
            exact hdrop c1 hc1
          · simp only [Cost.add_allocs, h7]
            cases dst.lo <;> simp [Old.dropCost] <;> omega
      simp only [hlt, if_false]
      by_cases hb : dst.main.buckets = src.main.buckets
      · simp only [hb, if_true]
        exact key _ rfl (by simp)
      · simp only [hb, if_false]
        exact key _ (by simp [HB.freeCost]) (by simp [HB.freeCost])
  · -- unallocated source: it holds nothing, and (by the invariant) has nothing parked either
    have hb : src.main.buckets = 1 := by simpa [HB.allocated] using ha
    have hwf := h.wf; unfold HB.WF at hwf; rw [hb, fullCap_one] at hwf
    have hnil : src.main.ents = [] := List.eq_nil_of_length_eq_zero (by omega)
    have hlo : src.lo = none := by
      cases hlo : src.lo with
      | none => rfl
      | some o => have := (h.head o hlo).2; omega
    have hents : src.ents = [] := by simp [Raw.ents, hlo, hnil]
    simp only [ha, Bool.not_false, if_true, hlo, OkOr]
    refine ⟨⟨by simp [HB.new, HB.WF, fullCap], ?_, ?_, by simp [Raw.ents, HB.new, keysOf]⟩, (by first | trivial | rfl), ?_, ?_, ?_⟩
    · intro o ho; cases ho
    · intro o ho; cases ho
    · rw [hents]; simp [Raw.ents, HB.new]
    · exact hdrop _ (by simp [HB.freeCost])
    · cases dst.lo <;> simp [Old.dropCost, HB.freeCost]

end Griddle
