/-
  List facts used by the kernel lemmas (lookups by key in duplicate-free tables, the `reorder`
  oracle).  Proof file: imports one Mathlib module for `List.Nodup` lemmas.
-/
import Mathlib.Data.List.Nodup
import GriddleModel.Lemmas.Kernel
namespace Griddle

theorem nodup_of_keys {es : List Entry} (h : (keysOf es).Nodup) : es.Nodup :=
  List.Nodup.of_map _ h

/-- In a table without duplicate keys, looking a stored element's key up finds that element. -/
theorem find_key_of_mem {es : List Entry} (h : (keysOf es).Nodup) {x : Entry} (hx : x ∈ es) :
    es.find? (fun e => e.k == x.k) = some x := by
  induction es with
  | nil => cases hx
  | cons a rest ih =>
    simp only [keysOf, List.map_cons, List.nodup_cons] at h
    rcases List.mem_cons.1 hx with rfl | hin
    · simp [List.find?]
    · have hne : a.k ≠ x.k := by
        intro heq
        apply h.1
        rw [heq]
        exact List.mem_map_of_mem hin
      have : (a.k == x.k) = false := by simpa using hne
      simp only [List.find?, this]
      exact ih h.2 hin

theorem find_key_none {es : List Entry} {k : Nat} : es.find? (fun e => e.k == k) = none ↔ k ∉ keysOf es := by
  simp [keysOf, List.find?_eq_none]

theorem find_key_some {es : List Entry} {k : Nat} {x : Entry} (h : es.find? (fun e => e.k == k) = some x) :
    x ∈ es ∧ x.k = k := by
  refine ⟨List.mem_of_find?_eq_some h, ?_⟩
  have := List.find?_some h
  simpa using this

/-- The `reorder` oracle check admits only permutations of the table. -/
theorem reorder_perm {es es' : List Entry} {perm : List Nat} (hnd : (keysOf es).Nodup)
    (h : Raw.reorder es perm = some es') : es'.Perm es := by
  unfold Raw.reorder at h
  split at h
  · rename_i hc
    obtain ⟨_, hpn, hall, hcov⟩ := hc
    injection h with h
    subst h
    have hnd' : (perm.filterMap (fun k => es.find? (fun e => e.k == k))).Nodup := by
      apply List.Nodup.filterMap _ hpn
      intro a a' b hb hb'
      have h1 := find_key_some (Option.mem_def.1 hb)
      have h2 := find_key_some (Option.mem_def.1 hb')
      rw [← h1.2, ← h2.2]
    rw [List.perm_ext_iff_of_nodup hnd' (nodup_of_keys hnd)]
    intro x
    simp only [List.mem_filterMap]
    constructor
    · rintro ⟨k, _, hk⟩; exact (find_key_some hk).1
    · intro hx
      exact ⟨x.k, hcov x hx, find_key_of_mem hnd hx⟩
  · cases h

theorem reorder_length {es es' : List Entry} {perm : List Nat} (hnd : (keysOf es).Nodup)
    (h : Raw.reorder es perm = some es') : es'.length = es.length :=
  (reorder_perm hnd h).length_eq

/-- removing the element with key `k` from a duplicate-free table -/
theorem filter_key_perm {es : List Entry} {x : Entry} (hnd : (keysOf es).Nodup) (hx : x ∈ es) :
    (x :: es.filter (fun y => y.k != x.k)).Perm es := by
  induction es with
  | nil => cases hx
  | cons a rest ih =>
    simp only [keysOf, List.map_cons, List.nodup_cons] at hnd
    rcases List.mem_cons.1 hx with rfl | hin
    · have : rest.filter (fun y => y.k != x.k) = rest := by
        apply List.filter_eq_self.2
        intro y hy
        have : y.k ≠ x.k := by
          intro heq; apply hnd.1; rw [← heq]; exact List.mem_map_of_mem hy
        simpa using this
      simp [List.filter, this]
    · have hne : a.k ≠ x.k := by
        intro heq; apply hnd.1; rw [heq]; exact List.mem_map_of_mem hin
      have hb : (a.k != x.k) = true := by simpa using hne
      simp only [List.filter, hb]
      exact (List.Perm.swap a x _).trans ((ih hnd.2 hin).cons a)

theorem filter_key_length {es : List Entry} {x : Entry} (hnd : (keysOf es).Nodup) (hx : x ∈ es) :
    (es.filter (fun y => y.k != x.k)).length + 1 = es.length := by
  have := (filter_key_perm hnd hx).length_eq
  simpa [Nat.add_comm] using this

theorem filter_key_nodup {es : List Entry} (k : Nat) (hnd : (keysOf es).Nodup) :
    (keysOf (es.filter (fun y => y.k != k))).Nodup := by
  unfold keysOf at *
  exact List.Nodup.sublist (List.Sublist.map _ List.filter_sublist) hnd

theorem filter_key_not_mem {es : List Entry} (k : Nat) : k ∉ keysOf (es.filter (fun y => y.k != k)) := by
  simp [keysOf, List.mem_filter]

theorem keysOf_map_same {es : List Entry} (f : Entry → Entry) (hf : ∀ e, (f e).k = e.k) :
    keysOf (es.map f) = keysOf es := by
  simp [keysOf, List.map_map, Function.comp_def, hf]

end Griddle
