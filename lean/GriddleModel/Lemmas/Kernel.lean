/-
  The invariant of griddle's `RawTable` and the kernel lemmas about `carry`, `try_grow`,
  `insert`, removals.  Everything here is for *all* oracle values: a result is either `ok` with
  the stated properties or an `oracle` rejection (the oracle value was outside hashbrown's
  contract) — never `ub`, `panic` or `abort`.
-/
import GriddleModel.Raw
import GriddleModel.Lemmas.Arith
namespace Griddle

def keysOf (es : List Entry) : List Nat := es.map (·.k)

/-- hashbrown's own counter invariant, as far as the model tracks it:
    `items + growth_left ≤ bucket_mask_to_capacity` (the rest are tombstones). -/
def HB.WF (t : HB) : Prop := t.ents.length + t.gl ≤ fullCap t.buckets

/-- The invariant of `RawTable` (I1 counters, I2 cursor agreement, I3 headroom, I4 distinct keys). -/
structure Inv (R : Nat) (t : Raw) : Prop where
  wf : t.main.WF
  agree : ∀ o, t.lo = some o → o.cursor = o.ents.length
  head : ∀ o, t.lo = some o → o.ents.length + ceilDiv o.ents.length R ≤ t.main.gl ∧ 1 ≤ t.main.gl
  nodup : (keysOf t.ents).Nodup

/-- `ok` with a property, or an oracle rejection. -/
def OkOr {α : Type} (r : Except Fault α) (P : α → Prop) : Prop :=
  match r with
  | .ok a => P a
  | .error f => ∃ w, f = .oracle w

theorem OkOr.ok_iff {α : Type} (a : α) (P : α → Prop) : OkOr (.ok a : Except Fault α) P ↔ P a := Iff.rfl

@[simp] theorem Cost.add_hashes (a b : Cost) : (a + b).hashes = a.hashes + b.hashes := rfl
@[simp] theorem Cost.add_allocs (a b : Cost) : (a + b).allocs = a.allocs + b.allocs := rfl
@[simp] theorem Cost.add_frees (a b : Cost) : (a + b).frees = a.frees + b.frees := rfl
@[simp] theorem Cost.add_moved (a b : Cost) : (a + b).moved = a.moved + b.moved := rfl
@[simp] theorem Cost.add_dropped (a b : Cost) : (a + b).dropped = a.dropped ++ b.dropped := rfl

theorem HB.insertNoGrow_spec (t : HB) (e : Entry) (onTomb : Bool) (hwf : t.WF) (hroom : 0 < t.gl) :
    OkOr (t.insertNoGrow e onTomb) (fun t' =>
      t'.buckets = t.buckets ∧ t'.ents = e :: t.ents ∧ t'.WF ∧ t'.gl ≤ t.gl ∧ t.gl ≤ t'.gl + 1) := by
  unfold HB.insertNoGrow HB.WF at *
  cases onTomb
  · have : ¬ t.gl = 0 := by omega
    simp only [Bool.false_eq_true, if_false, this, OkOr, List.length_cons]
    refine ⟨trivial, trivial, ?_, ?_, ?_⟩ <;> omega
  · simp only [if_true]
    split
    · simp only [OkOr, List.length_cons]
      refine ⟨trivial, trivial, ?_, ?_, ?_⟩ <;> omega
    · exact ⟨_, rfl⟩

/-- What `carry`'s loop does, for every oracle: it moves exactly `min n L` elements (the first
    ones in cursor order), never reallocates the main table, spends at most one unit of
    `growth_left` per move, and releases the old table iff it ran out of elements. -/
theorem carryLoop_spec (n : Nat) : ∀ (main : HB) (o : Old) (hits : Nat) (cost : Cost),
    main.WF → o.cursor = o.ents.length → min n o.ents.length ≤ main.gl →
    OkOr (Raw.carryLoop main o n hits cost) (fun r =>
      r.1.buckets = main.buckets ∧ r.1.WF ∧
      r.1.gl ≤ main.gl ∧ main.gl ≤ r.1.gl + min n o.ents.length ∧
      (r.1.ents ++ o.ents.drop n).Perm (main.ents ++ o.ents) ∧
      r.1.ents.length = main.ents.length + min n o.ents.length ∧
      (o.ents.length ≤ n → r.2.1 = none) ∧
      (n < o.ents.length → r.2.1 = some { o with ents := o.ents.drop n, cursor := o.ents.length - n }) ∧
      r.2.2.2.moved = cost.moved + min n o.ents.length ∧
      r.2.2.2.hashes = cost.hashes + min n o.ents.length ∧
      r.2.2.2.allocs = cost.allocs ∧
      r.2.2.2.frees = cost.frees + (if o.ents.length ≤ n then 1 else 0) ∧
      r.2.2.2.dropped = cost.dropped) := by
  induction n with
  | zero =>
    intro main o hits cost hwf hag _
    unfold Raw.carryLoop
    by_cases hL : o.ents.length = 0
    · have hnil : o.ents = [] := List.eq_nil_of_length_eq_zero hL
      simp only [hL, if_true, OkOr]
      simp [hnil, Old.dropCost, idsOf, hwf]
    · simp only [hL, if_false, OkOr]
      have : 0 < o.ents.length := Nat.pos_of_ne_zero hL
      simp [hwf]
      have hne : ¬ o.ents = [] := by intro h; simp [h] at hL
      refine ⟨hne, ?_, hne⟩
      intro _
      cases o; simp at hag ⊢; exact hag
  | succ n ih =>
    intro main o hits cost hwf hag hroom
    unfold Raw.carryLoop
    by_cases hc : o.cursor = 0
    · have hL : o.ents.length = 0 := by omega
      have hnil : o.ents = [] := List.eq_nil_of_length_eq_zero hL
      simp only [hc, if_true, OkOr]
      simp [hnil, Old.dropCost, idsOf, hwf]
    · simp only [hc, if_false]
      match hents : o.ents with
      | [] => simp [hents] at hag; omega
      | e :: rest =>
        simp only []
        have hroom' : 0 < main.gl := by
          simp [hents] at hroom; omega
        have hins := HB.insertNoGrow_spec main e (decide (0 < hits)) hwf hroom'
        match hres : main.insertNoGrow e (decide (0 < hits)) with
        | .error f =>
          rw [hres] at hins
          simpa [OkOr] using hins
        | .ok main' =>
          rw [hres] at hins
          simp only [OkOr] at hins
          obtain ⟨hb, he, hwf', hgl1, hgl2⟩ := hins
          simp only []
          have hag' : ({ o with ents := rest, cursor := o.cursor - 1 } : Old).cursor
              = ({ o with ents := rest, cursor := o.cursor - 1 } : Old).ents.length := by
            simp [hents] at hag; simp; omega
          have hroom'' : min n ({ o with ents := rest, cursor := o.cursor - 1 } : Old).ents.length ≤ main'.gl := by
            simp [hents] at hroom; simp; omega
          have := ih main' { o with ents := rest, cursor := o.cursor - 1 } (hits - 1)
            (cost + { hashes := 1, moved := 1 }) hwf' hag' hroom''
          generalize Raw.carryLoop main' { o with ents := rest, cursor := o.cursor - 1 } n (hits - 1)
              (cost + { hashes := 1, moved := 1 }) = res at this ⊢
          match res with
          | .error f => simpa [OkOr] using this
          | .ok r =>
            simp only [OkOr] at this ⊢
            obtain ⟨h1, h2, h3, h4, h5, h6, h7, h8, h9, h10, h11, h12, h13⟩ := this
            simp only [List.length_cons, List.drop_succ_cons] at *
            refine ⟨by rw [h1, hb], h2, by omega, by omega, ?_, ?_, ?_, ?_, ?_, ?_, h11, ?_, ?_⟩
            · -- permutation
              have : (main'.ents ++ rest).Perm (main.ents ++ e :: rest) := by
                rw [he]; exact (List.perm_middle).symm
              exact h5.trans this
            · rw [h6, he]; simp; omega
            · intro hle; exact h7 (by omega)
            · intro hlt
              have := h8 (by omega)
              rw [this]
              simp [hents] at hag
              have : rest.length + 1 - (n + 1) = rest.length - n := by omega
              rw [this]
            · rw [h9]; simp; omega
            · rw [h10]; simp; omega
            · rw [h12]; simp
            · rw [h13]; simp

theorem Raw.ents_none (m : HB) : (Raw.ents { main := m, lo := none }) = m.ents := by
  simp [Raw.ents]

theorem Raw.ents_some (m : HB) (o : Old) : (Raw.ents { main := m, lo := some o }) = m.ents ++ o.ents := by
  simp [Raw.ents]

theorem keysOf_perm {a b : List Entry} (h : a.Perm b) : (keysOf a).Perm (keysOf b) := h.map _

/-- `carry`, for every oracle, on a state that has used at most one unit of the headroom
    (which is the situation right after the insertion that precedes it). -/
theorem carry_spec (c : Cfg) (hR : 0 < c.R) (t : Raw) (hits : Nat)
    (hwf : t.main.WF) (hag : ∀ o, t.lo = some o → o.cursor = o.ents.length)
    (hhead : ∀ o, t.lo = some o → o.ents.length + ceilDiv o.ents.length c.R ≤ t.main.gl + 1)
    (hnd : (keysOf t.ents).Nodup) :
    OkOr (Raw.carry c t hits) (fun r =>
      Inv c.R r.1 ∧ r.1.ents.Perm t.ents ∧ r.1.main.buckets = t.main.buckets ∧
      r.1.main.gl ≤ t.main.gl ∧
      (t.lo = none → r.1 = t ∧ r.2.2 = {}) ∧
      (∀ o, t.lo = some o →
        t.main.gl ≤ r.1.main.gl + min c.R o.ents.length ∧
        r.1.main.ents.length = t.main.ents.length + min c.R o.ents.length ∧
        (o.ents.length ≤ c.R → r.1.lo = none) ∧
        (c.R < o.ents.length → r.1.lo = some { o with ents := o.ents.drop c.R, cursor := o.ents.length - c.R }) ∧
        r.2.2.moved = min c.R o.ents.length ∧ r.2.2.hashes = min c.R o.ents.length ∧
        r.2.2.allocs = 0 ∧ r.2.2.frees = (if o.ents.length ≤ c.R then 1 else 0) ∧ r.2.2.dropped = [])) := by
  unfold Raw.carry
  match hlo : t.lo with
  | none =>
    simp only [OkOr]
    have ht : t = { main := t.main, lo := none } := by cases t; simp_all
    refine ⟨⟨hwf, ?_, ?_, hnd⟩, List.Perm.refl _, trivial, Nat.le_refl _, fun _ => ⟨trivial, trivial⟩, ?_⟩
    · intro o h; rw [hlo] at h; cases h
    · intro o h; rw [hlo] at h; cases h
    · intro o h; cases h
  | some o =>
    have hago := hag o hlo
    have hh := hhead o hlo
    have hroom : min c.R o.ents.length ≤ t.main.gl := by
      rcases Nat.eq_zero_or_pos o.ents.length with h0 | hpos
      · rw [h0]; simp
      · have := ceilDiv_pos o.ents.length c.R hR hpos
        have : min c.R o.ents.length ≤ o.ents.length := Nat.min_le_right _ _
        omega
    have hsp := carryLoop_spec c.R t.main o hits {} hwf hago hroom
    match hres : Raw.carryLoop t.main o c.R hits {} with
    | .error f => rw [hres] at hsp; simp only [hres]; simpa [OkOr] using hsp
    | .ok (m, lo', h', cost') =>
      rw [hres] at hsp
      simp only [hres]
      simp only [OkOr] at hsp ⊢
      obtain ⟨h1, h2, h3, h4, h5, h6, h7, h8, h9, h10, h11, h12, h13⟩ := hsp
      have hents : t.ents = t.main.ents ++ o.ents := by simp [Raw.ents, hlo]
      by_cases hle : o.ents.length ≤ c.R
      · have hnone := h7 hle
        subst hnone
        have hdrop : o.ents.drop c.R = [] := List.drop_eq_nil_of_le hle
        rw [hdrop, List.append_nil] at h5
        refine ⟨⟨h2, ?_, ?_, ?_⟩, ?_, h1, h3, ?_, ?_⟩
        · intro o' h; cases h
        · intro o' h; cases h
        · rw [Raw.ents_none]; rw [hents] at hnd
          exact (keysOf_perm h5).nodup_iff.2 hnd
        · rw [Raw.ents_none, hents]; exact h5
        · intro h; cases h
        · intro o' ho'; cases ho'
          refine ⟨h4, h6, fun _ => rfl, fun h => absurd h (by omega), ?_, ?_, ?_, ?_, ?_⟩
          · simpa using h9
          · simpa using h10
          · simpa using h11
          · simpa [hle] using h12
          · simpa using h13
      · have hlt : c.R < o.ents.length := by omega
        have hsome := h8 hlt
        subst hsome
        have hmin : min c.R o.ents.length = c.R := Nat.min_eq_left (by omega)
        rw [hmin] at h4 h6 h9 h10
        have hL' : (o.ents.drop c.R).length = o.ents.length - c.R := List.length_drop
        have hcd := ceilDiv_sub o.ents.length c.R hR (by omega)
        have hpos' := ceilDiv_pos (o.ents.length - c.R) c.R hR (by omega)
        refine ⟨⟨h2, ?_, ?_, ?_⟩, ?_, h1, h3, ?_, ?_⟩
        · intro o' h; cases h; simp [hL']
        · intro o' h; cases h; simp only [hL']; omega
        · rw [Raw.ents_some]; rw [hents] at hnd
          exact (keysOf_perm h5).nodup_iff.2 hnd
        · rw [Raw.ents_some, hents]; exact h5
        · intro h; cases h
        · intro o' ho'; cases ho'
          rw [hmin]
          refine ⟨h4, h6, fun h => absurd h (by omega), fun _ => rfl, ?_, ?_, ?_, ?_, ?_⟩
          · simpa using h9
          · simpa using h10
          · simpa using h11
          · simpa [hle] using h12
          · simpa using h13

/-- `Inv` is enough for `carry` (it has a unit of headroom to spare). -/
theorem carry_inv (c : Cfg) (hR : 0 < c.R) (t : Raw) (hits : Nat) (h : Inv c.R t) :
    OkOr (Raw.carry c t hits) (fun r => Inv c.R r.1 ∧ r.1.ents.Perm t.ents ∧
      r.1.main.buckets = t.main.buckets ∧ r.2.2.allocs = 0 ∧ r.2.2.moved ≤ c.R ∧
      r.2.2.hashes = r.2.2.moved ∧ r.2.2.dropped = []) := by
  have hsp := carry_spec c hR t hits h.wf h.agree (fun o ho => by have := (h.head o ho).1; omega) h.nodup
  generalize Raw.carry c t hits = res at hsp ⊢
  match res with
  | .error f => simpa [OkOr] using hsp
  | .ok r =>
    simp only [OkOr] at hsp ⊢
    obtain ⟨h1, h2, h3, _, h5, h6⟩ := hsp
    refine ⟨h1, h2, h3, ?_⟩
    match hlo : t.lo with
    | none =>
      have := (h5 hlo).2
      rw [this]; exact ⟨rfl, Nat.zero_le _, rfl, rfl⟩
    | some o =>
      obtain ⟨_, _, _, _, hm, hh, ha, _, hd⟩ := h6 o hlo
      rw [hm, hh, ha, hd]
      exact ⟨rfl, Nat.min_le_left _ _, rfl, rfl⟩

end Griddle
