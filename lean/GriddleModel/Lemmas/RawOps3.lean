/-
  `erase(bucket)` and `replace_bucket_with(bucket, f)` under the invariant — the two routes by
  which `retain` and `replace_entry_with` take elements out of a table *without* releasing an
  emptied old table.
-/
import GriddleModel.Lemmas.RawOps2
import GriddleModel.Lemmas.MapOps
namespace Griddle

theorem eraseAt_spec {R : Nat} (hR : 0 < R) {t : Raw} (h : Inv R t) {k : Nat} {loc : Loc} {e : Entry}
    (hf : t.find k = some (loc, e)) (toEmpty : Bool) :
    ∃ t' cost, Raw.eraseAt t loc toEmpty = .ok (t', cost) ∧ Inv R t' ∧
      (e :: t'.ents).Perm t.ents ∧ t'.main.buckets = t.main.buckets ∧ t.main.gl ≤ t'.main.gl ∧
      cost.allocs = 0 ∧ cost.hashes = 0 ∧ cost.moved = 0 ∧ cost.frees = 0 ∧ cost.dropped = e.ids ∧
      (t'.lo.isSome = t.lo.isSome) := by
  have hfs := (find_some_iff h k loc e).1 hf
  obtain ⟨hek, hlk, hor⟩ := hfs
  unfold Raw.eraseAt
  rcases hor with ⟨hm, hin⟩ | ⟨hm, o, ho, hin⟩
  · have hfind : t.main.find? loc.k = some e := by
      unfold HB.find?; rw [hlk, ← hek]; exact find_key_of_mem h.main_nodup hin
    simp only [hm, if_true, HB.removeKey, hfind]
    refine ⟨_, _, rfl, ⟨?_, ?_, ?_, ?_⟩, ?_, rfl, ?_, rfl, rfl, rfl, rfl, rfl, rfl⟩
    · have hl := filter_key_length h.main_nodup hin
      have := h.wf
      unfold HB.WF at *
      simp only [hlk, ← hek]
      cases toEmpty <;> simp <;> omega
    · intro o' ho'; exact h.agree o' ho'
    · intro o' ho'
      have := h.head o' ho'
      simp only at ho' ⊢
      cases toEmpty <;> simp <;> omega
    · have hnd := h.nodup
      simp only [Raw.ents, keysOf, List.map_append] at hnd ⊢
      refine List.Nodup.sublist ?_ hnd
      exact List.Sublist.append (List.Sublist.map _ List.filter_sublist) (List.Sublist.refl _)
    · simp only [Raw.ents, hlk, ← hek]
      have := filter_key_perm h.main_nodup hin
      exact (List.Perm.append_right _ this)
    · cases toEmpty <;> simp
  · have hfind : o.ents.find? (fun x => x.k == e.k) = some e :=
      find_key_of_mem (h.old_nodup ho) hin
    have hl := filter_key_length (h.old_nodup ho) hin
    have hag := h.agree o ho
    have hhd := h.head o ho
    simp only [hm, Bool.false_eq_true, if_false, ho, hlk, ← hek, hfind]
    have hperm : (e :: (t.main.ents ++ o.ents.filter (fun y => y.k != e.k))).Perm (t.main.ents ++ o.ents) := by
      have := filter_key_perm (h.old_nodup ho) hin
      exact (List.perm_middle.symm).trans (List.Perm.append_left _ this)
    have hnd' : (keysOf (t.main.ents ++ o.ents.filter (fun y => y.k != e.k))).Nodup := by
      have hnd := h.nodup
      simp only [Raw.ents, ho, keysOf, List.map_append] at hnd ⊢
      refine List.Nodup.sublist ?_ hnd
      exact List.Sublist.append (List.Sublist.refl _) (List.Sublist.map _ List.filter_sublist)
    refine ⟨_, _, rfl, ⟨h.wf, ?_, ?_, ?_⟩, ?_, rfl, Nat.le_refl _, rfl, rfl, rfl, rfl, rfl, rfl⟩
    · intro o' ho'; cases ho'; simp; omega
    · intro o' ho'; cases ho'
      simp only
      have hmono := ceilDiv_mono ((o.ents.filter (fun y => y.k != e.k)).length) o.ents.length R (by omega)
      omega
    · simpa [Raw.ents] using hnd'
    · simpa [Raw.ents, ho] using hperm

/-- removing through `replace_bucket_with(.., |_| None)` leaves the same table state as `erase` -/
theorem replaceAt_none_state (t : Raw) (loc : Loc) (b : Bool) :
    (Raw.replaceAt t loc none b).map (·.1) = (Raw.eraseAt t loc b).map (·.1) := by
  unfold Raw.replaceAt Raw.eraseAt
  cases loc.inMain
  · simp only [Bool.false_eq_true, if_false]
    cases t.lo with
    | none => rfl
    | some o =>
      simp only
      cases o.ents.find? (fun e => e.k == loc.k) <;> rfl
  · simp only [if_true]
    cases t.main.removeKey loc.k b with
    | error f => rfl
    | ok p => rfl

/-- `replace_bucket_with` putting a value back: an in-place update -/
theorem replaceAt_some_spec {R : Nat} {t : Raw} (h : Inv R t) {k : Nat} {loc : Loc} {e : Entry}
    (hf : t.find k = some (loc, e)) (v vid : Nat) (b : Bool) :
    ∃ t', Raw.replaceAt t loc (some (v, vid)) b = .ok (t', true) ∧ Inv R t' ∧
      t'.main.buckets = t.main.buckets ∧ t'.main.gl = t.main.gl ∧ t'.lo.isSome = t.lo.isSome ∧
      keysOf t'.ents = keysOf t.ents := by
  obtain ⟨hek, hlk, hor⟩ := (find_some_iff h k loc e).1 hf
  unfold Raw.replaceAt
  rcases hor with ⟨hm, hin⟩ | ⟨hm, o, ho, hin⟩
  · have hfind : t.main.find? loc.k = some e := by
      unfold HB.find?; rw [hlk, ← hek]; exact find_key_of_mem h.main_nodup hin
    simp only [hm, if_true, hfind]
    have hi := h.map_main (fun x => if x.k == loc.k then { x with v := v, vid := vid } else x)
      (fun x => by split <;> rfl)
    refine ⟨_, rfl, hi, rfl, rfl, rfl, ?_⟩
    simp only [Raw.ents, HB.setVal, keysOf, List.map_append, List.map_map]
    congr 1
    apply List.map_congr_left
    intro x _; simp only [Function.comp]; split <;> rfl
  · have hfind : o.ents.find? (fun x => x.k == loc.k) = some e := by
      rw [hlk, ← hek]; exact find_key_of_mem (h.old_nodup ho) hin
    simp only [hm, Bool.false_eq_true, if_false, ho, hfind]
    have hi := h.map_old (fun x => if x.k == loc.k then { x with v := v, vid := vid } else x)
      (fun x => by split <;> rfl)
    simp only [ho, Option.map] at hi
    refine ⟨_, rfl, hi, rfl, rfl, rfl, ?_⟩
    simp only [Raw.ents, ho, keysOf, List.map_append, List.map_map]
    congr 1
    apply List.map_congr_left
    intro x _; simp only [Function.comp]; split <;> rfl

end Griddle
