/-
  Size invariant: every main table that exists passed hashbrown's layout computation
  (`calculate_layout_for` rejects anything above `isize::MAX` bytes) or is the unallocated
  singleton, so its bucket count is below `2^63`.  Together with the headroom invariant this
  bounds `len() + ⌈L/R⌉`-style sums well below `usize::MAX`: `shrink_to`'s unchecked additions can
  never wrap, which removes the side condition `2·len()+1 < 2^64` from the refinement theorems.
-/
import GriddleModel.Lemmas.Steps
namespace Griddle

def Small (t : Raw) : Prop := t.main.buckets < 2 ^ 63

theorem allocCheck_small (c : Cfg) (b : Nat) (h : allocCheck c b = none) : b < 2 ^ 63 := by
  unfold allocCheck at h
  dsimp only at h
  by_cases h1 : USIZE ≤ c.elemSize * b
  · rw [if_pos h1] at h; cases h
  · rw [if_neg h1] at h
    by_cases h2 : USIZE ≤ c.elemSize * b + 15
    · rw [if_pos h2] at h; cases h
    · rw [if_neg h2] at h
      by_cases h3 : USIZE ≤ (c.elemSize * b + 15) / 16 * 16 + (b + 16)
      · rw [if_pos h3] at h; cases h
      · rw [if_neg h3] at h
        by_cases h4 : ISIZE_MAX - 15 < (c.elemSize * b + 15) / 16 * 16 + (b + 16)
        · rw [if_pos h4] at h; cases h
        · have e63 : (2 : Nat) ^ 63 = 9223372036854775808 := by decide
          unfold ISIZE_MAX at h4
          rw [e63] at h4 ⊢
          omega

theorem tryWithCapacity_small {c : Cfg} {cap : Nat} {nt : HB} (h : HB.tryWithCapacity c cap = .ok nt) :
    nt.buckets < 2 ^ 63 := by
  unfold HB.tryWithCapacity at h
  split at h
  · cases h; simp [HB.new]
  · split at h
    · cases h
    · rename_i b hb
      split at h
      · cases h
      · rename_i hac
        cases h
        exact allocCheck_small c b hac

theorem HB.insertNoGrow_buckets {t : HB} {e : Entry} {b : Bool} {t' : HB} (h : t.insertNoGrow e b = .ok t') :
    t'.buckets = t.buckets := by
  unfold HB.insertNoGrow at h
  split at h
  · split at h
    · cases h; rfl
    · cases h
  · split at h
    · cases h
    · cases h; rfl

theorem HB.insertGrowable_small {c : Cfg} {t : HB} {e : Entry} {b : Bool} {r : HB × Cost}
    (hs : t.buckets < 2 ^ 63) (h : t.insertGrowable c e b = .ok r) : r.1.buckets < 2 ^ 63 := by
  unfold HB.insertGrowable at h
  split at h
  · cases hi : t.insertNoGrow e true with
    | error f => rw [hi] at h; cases h
    | ok t' =>
      rw [hi] at h
      cases h
      show t'.buckets < 2 ^ 63
      rw [HB.insertNoGrow_buckets hi]; exact hs
  · split at h
    · dsimp only at h
      split at h
      · cases h; exact hs
      · split at h
        · cases h
        · cases h
        · rename_i nt hnt
          cases h
          show nt.buckets < 2 ^ 63
          exact tryWithCapacity_small hnt
    · cases h; exact hs

theorem carryLoop_buckets (n : Nat) : ∀ (main : HB) (o : Old) (hits : Nat) (cost : Cost)
    (r : HB × Option Old × Nat × Cost), Raw.carryLoop main o n hits cost = .ok r → r.1.buckets = main.buckets := by
  induction n with
  | zero =>
    intro main o hits cost r h
    unfold Raw.carryLoop at h
    split at h <;> (cases h; rfl)
  | succ n ih =>
    intro main o hits cost r h
    unfold Raw.carryLoop at h
    split at h
    · cases h; rfl
    · split at h
      · cases h
      · split at h
        · cases h
        · rename_i main' hm
          rw [ih _ _ _ _ _ h, HB.insertNoGrow_buckets hm]

theorem carry_small {c : Cfg} {t : Raw} {hits : Nat} {r : Raw × Nat × Cost} (hs : Small t)
    (h : Raw.carry c t hits = .ok r) : Small r.1 := by
  unfold Raw.carry at h
  split at h
  · cases h; exact hs
  · rename_i o ho
    cases hc : Raw.carryLoop t.main o c.R hits {} with
    | error f => rw [hc] at h; cases h
    | ok q =>
      obtain ⟨m, lo, hh, cost⟩ := q
      rw [hc] at h
      cases h
      show m.buckets < 2 ^ 63
      rw [carryLoop_buckets c.R t.main o hits {} _ hc]; exact hs

theorem carryAllLoop_small (c : Cfg) : ∀ (n : Nat) (ents : List Entry) (main : HB) (hits : Nat) (cost : Cost)
    (r : HB × Nat × Cost), main.buckets < 2 ^ 63 →
    Raw.carryAllLoop c main n ents hits cost = .ok r → r.1.buckets < 2 ^ 63 := by
  intro n
  induction n with
  | zero =>
    intro ents main hits cost r hs h
    unfold Raw.carryAllLoop at h
    cases h; exact hs
  | succ n ih =>
    intro ents main hits cost r hs h
    cases ents with
    | nil => unfold Raw.carryAllLoop at h; cases h
    | cons e rest =>
      unfold Raw.carryAllLoop at h
      cases hi : main.insertGrowable c e (decide (0 < hits)) with
      | error f => rw [hi] at h; cases h
      | ok q =>
        obtain ⟨main', extra⟩ := q
        rw [hi] at h
        exact ih _ _ _ _ _ (HB.insertGrowable_small hs hi) h

theorem carryAll_small {c : Cfg} {t : Raw} {hits : Nat} {r : Raw × Nat × Cost} (hs : Small t)
    (h : Raw.carryAll c t hits = .ok r) : Small r.1 := by
  unfold Raw.carryAll at h
  split at h
  · cases h; exact hs
  · rename_i o ho
    cases hc : Raw.carryAllLoop c t.main o.cursor o.ents hits {} with
    | error f => rw [hc] at h; cases h
    | ok q =>
      obtain ⟨m, hh, cost⟩ := q
      rw [hc] at h
      cases h
      exact carryAllLoop_small c _ _ _ _ _ _ hs hc

theorem tryGrow_small {c : Cfg} {t : Raw} {extra : Nat} {perm : List Nat} {r : Raw × Option AllocErr × Cost}
    (hs : Small t) (h : Raw.tryGrow c t extra perm = .ok r) : Small r.1 := by
  unfold Raw.tryGrow at h
  split at h
  · cases h
  · dsimp only at h
    split at h
    · cases h; exact hs
    · split at h
      · cases h; exact hs
      · rename_i nt hnt
        split at h
        · cases h; exact tryWithCapacity_small hnt
        · split at h
          · cases h
          · cases h; exact tryWithCapacity_small hnt

theorem grow_small {c : Cfg} {t : Raw} {extra : Nat} {perm : List Nat} {r : Raw × Cost}
    (hs : Small t) (h : Raw.grow c t extra perm = .ok r) : Small r.1 := by
  unfold Raw.grow at h
  cases hg : Raw.tryGrow c t extra perm with
  | error f => rw [hg] at h; cases h
  | ok q =>
    obtain ⟨t', e, cost⟩ := q
    rw [hg] at h
    cases e with
    | some x => cases x <;> cases h
    | none => cases h; exact tryGrow_small hs hg

theorem Raw.insertNoGrow_small {c : Cfg} {t : Raw} {e : Entry} {hits : Nat} {r : Raw × Nat × Cost}
    (hs : Small t) (h : Raw.insertNoGrow c t e hits = .ok r) : Small r.1 := by
  unfold Raw.insertNoGrow at h
  cases hi : t.main.insertNoGrow e (decide (0 < hits)) with
  | error f => rw [hi] at h; cases h
  | ok m =>
    rw [hi] at h
    dsimp only at h
    have hs' : Small { t with main := m } := by
      show m.buckets < 2 ^ 63
      rw [HB.insertNoGrow_buckets hi]; exact hs
    split at h
    · exact carry_small hs' h
    · cases h; exact hs'

theorem Raw.insert_small {c : Cfg} {t : Raw} {e : Entry} {hits : Nat} {perm : List Nat} {r : Raw × Nat × Cost}
    (hs : Small t) (h : Raw.insert c t e hits perm = .ok r) : Small r.1 := by
  unfold Raw.insert at h
  split at h
  · split at h
    · cases h
    · cases hg : Raw.grow c t 1 perm with
      | error f => rw [hg] at h; cases h
      | ok q =>
        obtain ⟨t', gc⟩ := q
        rw [hg] at h
        dsimp only at h
        cases hi : Raw.insertNoGrow c t' e hits with
        | error f => rw [hi] at h; cases h
        | ok z =>
          obtain ⟨t'', hh, cost⟩ := z
          rw [hi] at h
          cases h
          show Small t''
          exact Raw.insertNoGrow_small (r := (t'', hh, cost)) (grow_small hs hg) hi
  · exact Raw.insertNoGrow_small hs h

theorem removeAt_small {t : Raw} {loc : Loc} {b : Bool} {r : Raw × Entry × Cost}
    (hs : Small t) (h : Raw.removeAt t loc b = .ok r) : Small r.1 := by
  unfold Raw.removeAt at h
  split at h
  · cases hr : t.main.removeKey loc.k b with
    | error f => rw [hr] at h; cases h
    | ok q =>
      obtain ⟨m, e⟩ := q
      rw [hr] at h
      cases h
      unfold HB.removeKey at hr
      split at hr
      · cases hr
      · cases hr; exact hs
  · split at h
    · cases h
    · split at h
      · cases h
      · dsimp only at h
        split at h <;> (cases h; exact hs)

theorem HB.shrinkTo_small {c : Cfg} {t : HB} {n : Nat} {r : HB × Cost}
    (hs : t.buckets < 2 ^ 63) (h : t.shrinkTo c n = .ok r) : r.1.buckets < 2 ^ 63 := by
  unfold HB.shrinkTo at h
  dsimp only at h
  split at h
  · cases h; simp [HB.new]
  · split at h
    · cases h; exact hs
    · split at h
      · split at h
        · cases h
        · cases h
        · rename_i nt hnt
          split at h <;> (cases h; show nt.buckets < 2 ^ 63; exact tryWithCapacity_small hnt)
      · cases h; exact hs

theorem shrinkTo_small {c : Cfg} {t : Raw} {n : Nat} {r : Raw × Cost}
    (hs : Small t) (h : Raw.shrinkTo c t n = .ok r) : Small r.1 := by
  unfold Raw.shrinkTo at h
  cases hlo : t.lo with
  | none =>
    rw [hlo] at h
    dsimp only at h
    split at h
    · cases h
    · split at h
      · cases h
      · rename_i m mc hm
        cases h
        show m.buckets < 2 ^ 63
        exact HB.shrinkTo_small (r := (m, mc)) hs hm
  | some o =>
    rw [hlo] at h
    by_cases h0 : o.ents.length = 0
    · simp only [h0, if_true] at h
      split at h
      · cases h
      · split at h
        · cases h
        · rename_i m mc hm
          cases h
          show m.buckets < 2 ^ 63
          exact HB.shrinkTo_small (r := (m, mc)) hs hm
    · simp only [h0, if_false] at h
      split at h
      · cases h
      · split at h
        · cases h
        · rename_i m mc hm
          cases h
          show m.buckets < 2 ^ 63
          exact HB.shrinkTo_small (r := (m, mc)) hs hm

theorem reserve_small {c : Cfg} {t : Raw} {n hits : Nat} {perm : List Nat} {r : Raw × Cost}
    (hs : Small t) (h : Raw.reserve c t n hits perm = .ok r) : Small r.1 := by
  unfold Raw.reserve at h
  cases hlo : t.lo with
  | none =>
    rw [hlo] at h
    dsimp only at h
    by_cases h1 : USIZE ≤ 0 + n
    · rw [if_pos h1] at h; cases h
    · rw [if_neg h1] at h
      by_cases h2 : 0 + n < t.main.gl
      · rw [if_pos h2] at h; cases h; exact hs
      · rw [if_neg h2] at h
        simp only [Option.isSome, Bool.false_eq_true, if_false] at h
        exact grow_small hs h
  | some o =>
    rw [hlo] at h
    dsimp only at h
    by_cases h1 : USIZE ≤ o.ents.length + n
    · rw [if_pos h1] at h; cases h
    · rw [if_neg h1] at h
      by_cases h2 : o.ents.length + n < t.main.gl
      · rw [if_pos h2] at h; cases h; exact hs
      · rw [if_neg h2] at h
        simp only [Option.isSome, if_true] at h
        cases hc : Raw.carryAll c t hits with
        | error f => rw [hc] at h; cases h
        | ok q =>
          obtain ⟨t1, hh, c1⟩ := q
          rw [hc] at h
          dsimp only at h
          cases hg : Raw.grow c t1 n perm with
          | error f => rw [hg] at h; cases h
          | ok z =>
            obtain ⟨t2, c2⟩ := z
            rw [hg] at h
            cases h
            show Small t2
            exact grow_small (r := (t2, c2)) (carryAll_small (r := (t1, hh, c1)) hs hc) hg

theorem tryReserve_small {c : Cfg} {t : Raw} {n hits : Nat} {perm : List Nat} {r : Raw × Option AllocErr × Cost}
    (hs : Small t) (h : Raw.tryReserve c t n hits perm = .ok r) : Small r.1 := by
  unfold Raw.tryReserve at h
  cases hlo : t.lo with
  | none =>
    rw [hlo] at h
    dsimp only at h
    by_cases h1 : USIZE ≤ 0 + n
    · rw [if_pos h1] at h; cases h; exact hs
    · rw [if_neg h1] at h
      by_cases h2 : 0 + n < t.main.gl
      · rw [if_pos h2] at h; cases h; exact hs
      · rw [if_neg h2] at h
        simp only [Option.isSome, Bool.false_eq_true, if_false] at h
        exact tryGrow_small hs h
  | some o =>
    rw [hlo] at h
    dsimp only at h
    by_cases h1 : USIZE ≤ o.ents.length + n
    · rw [if_pos h1] at h; cases h; exact hs
    · rw [if_neg h1] at h
      by_cases h2 : o.ents.length + n < t.main.gl
      · rw [if_pos h2] at h; cases h; exact hs
      · rw [if_neg h2] at h
        simp only [Option.isSome, if_true] at h
        cases hc : Raw.carryAll c t hits with
        | error f => rw [hc] at h; cases h
        | ok q =>
          obtain ⟨t1, hh, c1⟩ := q
          rw [hc] at h
          dsimp only at h
          cases hg : Raw.tryGrow c t1 n perm with
          | error f => rw [hg] at h; cases h
          | ok z =>
            obtain ⟨t2, e, c2⟩ := z
            rw [hg] at h
            cases h
            show Small t2
            exact tryGrow_small (r := (t2, e, c2)) (carryAll_small (r := (t1, hh, c1)) hs hc) hg

/-- what the invariants say about sizes: twice the length still fits a `usize` -/
theorem small_len {R : Nat} {t : Raw} (h : Inv R t) (hs : Small t) : t.len + t.len + 1 < USIZE := by
  have hwf := h.wf
  unfold HB.WF at hwf
  have hfc : fullCap t.main.buckets ≤ t.main.buckets := by
    unfold fullCap; split <;> omega
  have e63 : (2 : Nat) ^ 63 = 9223372036854775808 := by decide
  have hb : t.main.buckets < 9223372036854775808 := by unfold Small at hs; rw [e63] at hs; exact hs
  rw [Raw.len_eq]
  unfold Raw.ents USIZE
  have e64 : (2 : Nat) ^ 64 = 18446744073709551616 := by decide
  rw [e64]
  cases hlo : t.lo with
  | none => simp only [List.append_nil]; omega
  | some o =>
    have := (h.head o hlo).1
    simp only [List.length_append]
    omega

theorem step_small {c : Cfg} {m : Map} {op : Op} {o : Orc} {r : Map × Out} (hs : Small m)
    (h : step c m op o = .ok r) : Small r.1 := by
  cases op with
  | insert e =>
    change Map.insert c m e o = .ok r at h
    unfold Map.insert at h
    split at h
    · rename_i loc old hf
      dsimp only at h
      by_cases hm : loc.inMain = true
      · simp only [hm, if_true, Bool.not_true, Bool.false_eq_true, if_false] at h
        cases h; exact hs
      · have hm' : loc.inMain = false := by simpa using hm
        simp only [hm', Bool.false_eq_true, if_false, Bool.not_false, if_true] at h
        split at h
        · cases h
        · split at h
          · cases h
          · rename_i m2 hh cost hc
            cases h
            show Small m2
            refine carry_small (r := (m2, hh, cost)) ?_ hc
            exact hs
    · split at h
      · cases h
      · rename_i m' hh cost hi
        cases h
        show Small m'
        exact Raw.insert_small (r := (m', hh, cost)) hs hi
  | get k => cases h; exact hs
  | getMut k add =>
    change Except.ok (Map.getMut m k add) = .ok r at h
    cases h
    unfold Map.getMut
    split
    · exact hs
    · dsimp only
      split <;> exact hs
  | remove k =>
    change Map.removeEntry m k o = .ok r at h
    unfold Map.removeEntry at h
    split at h
    · cases h; exact hs
    · split at h
      · cases h
      · rename_i m' e cost hr
        cases h
        show Small m'
        exact removeAt_small (r := (m', e, cost)) hs hr
  | clear =>
    change Except.ok (Map.clear m) = .ok r at h
    cases h
    show (Raw.clear m).1.main.buckets < 2 ^ 63
    unfold Raw.clear HB.clear
    dsimp only
    split <;> exact hs
  | reserve n =>
    change Map.reserve c m n o = .ok r at h
    unfold Map.reserve at h
    split at h
    · cases h
    · rename_i m' cost hr
      cases h
      show Small m'
      exact reserve_small (r := (m', cost)) hs hr
  | tryReserve n =>
    change Map.tryReserve c m n o = .ok r at h
    unfold Map.tryReserve at h
    split at h
    · cases h
    · rename_i m' e cost hr
      cases h
      show Small m'
      exact tryReserve_small (r := (m', e, cost)) hs hr
  | shrinkTo n =>
    change Map.shrinkTo c m n = .ok r at h
    unfold Map.shrinkTo at h
    split at h
    · cases h
    · rename_i m' cost hr
      cases h
      show Small m'
      exact shrinkTo_small (r := (m', cost)) hs hr

theorem pre_of_small {R : Nat} {m : Map} (h : Inv R m) (hs : Small m) (op : Op) : pre m op := by
  cases op <;> simp only [pre]
  exact small_len h hs

/-- the side condition of `run_refines` holds along every history from a state whose main table
    passed the layout check -/
theorem runPre_of_small (c : Cfg) (hR : 0 < c.R) (orcs : Nat → Orc) :
    ∀ (ops : List Op) (m : Map), Inv c.R m → Small m → runPre c m ops orcs := by
  intro ops
  induction ops with
  | nil => intro m _ _; simp [runPre]
  | cons op rest ih =>
    intro m h hs
    refine ⟨pre_of_small h hs op, fun m' out hst => ?_⟩
    have hr := step_refines c hR m op (orcs rest.length) h (pre_of_small h hs op)
    rw [hst] at hr
    simp only [OkOrCap] at hr
    exact ih m' hr.1 (step_small (r := (m', out)) hs hst)

/-- **Every history refines the reference map, with no side condition** beyond the two
    invariants every constructible map has. -/
theorem run_refines_small (c : Cfg) (hR : 0 < c.R) (orcs : Nat → Orc) (ops : List Op) (m : Map)
    (h : Inv c.R m) (hs : Small m) :
    OkOrCap (run c m ops orcs) (fun r =>
      Inv c.R r.1 ∧ (∀ k, absOf r.1 k = (specRun (absOf m) ops).1 k) ∧
      retsAgree r.2 (specRun (absOf m) ops).2) :=
  run_refines c hR orcs ops m h (runPre_of_small c hR orcs ops m h hs)

theorem small_new : Small (Raw.new) := by
  show (1 : Nat) < 2 ^ 63
  decide

end Griddle
