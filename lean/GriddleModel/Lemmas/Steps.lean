/-
  Histories: a small operation language over the core `HashMap` API, its abstract (reference)
  semantics, and the refinement theorem lifted to arbitrary operation lists.
-/
import GriddleModel.Lemmas.MapOps
import GriddleModel.Lemmas.RawOps2
namespace Griddle

inductive Op
  | insert (e : Entry)
  | get (k : Nat)
  | getMut (k add : Nat)
  | remove (k : Nat)
  | clear
  | reserve (n : Nat)
  | tryReserve (n : Nat)
  | shrinkTo (n : Nat)
  deriving Repr

/-- one call on the model -/
def step (c : Cfg) (m : Map) (op : Op) (o : Orc) : Except Fault (Map × Out) :=
  match op with
  | .insert e => Map.insert c m e o
  | .get k => .ok (m, Map.get m k)
  | .getMut k add => .ok (Map.getMut m k add)
  | .remove k => Map.removeEntry m k o
  | .clear => .ok (Map.clear m)
  | .reserve n => Map.reserve c m n o
  | .tryReserve n => Map.tryReserve c m n o
  | .shrinkTo n => Map.shrinkTo c m n

/-- The reference semantics: a partial function from keys to entries, and what the call returns
    (`none` = the return value is not determined by the contents alone, e.g. `Result` of
    `try_reserve`). -/
def specStep (a : Nat → Option Entry) (op : Op) : (Nat → Option Entry) × Option Ret :=
  match op with
  | .insert e =>
    (match a e.k with
     | some _ => specUpd a e.k e.v e.vid
     | none => specIns a e,
     some (.optV ((a e.k).map (fun x => (x.v, x.vid)))))
  | .get k => (a, some (.optKV (a k)))
  | .getMut k add =>
    (match a k with
     | some x => specUpd a k (x.v + add) x.vid
     | none => a,
     some (.optV ((a k).map (fun x => (x.v + add, x.vid)))))
  | .remove k => (specDel a k, some (.optKV (a k)))
  | .clear => (fun _ => none, some .unit)
  | .reserve _ => (a, some .unit)
  | .tryReserve _ => (a, none)
  | .shrinkTo _ => (a, some .unit)

/-- side condition of a call: `shrink_to`'s size computation needs `2·len() + 1` to fit `usize`
    (always true of a real map: it could not have been allocated otherwise) -/
def pre (m : Map) (op : Op) : Prop :=
  match op with
  | .shrinkTo _ => m.len + m.len + 1 < USIZE
  | _ => True

theorem absOf_of_perm_same {t t' : Raw} (hp : t'.ents.Perm t.ents) (hnd : (keysOf t.ents).Nodup) :
    ∀ k, absOf t' k = absOf t k := fun k => absOf_perm hp hnd k

/-- **One step refines the reference map** (for every invariant state, argument and oracle):
    the call either ends with a documented capacity-overflow panic / OOM abort of a growth, or
    yields a state satisfying the invariant that denotes the reference result, and returns the
    reference's return value. Never `ub`, never an undocumented panic. -/
theorem OkOrCap.mono {α : Type} {r : Except Fault α} {P Q : α → Prop} (h : OkOrCap r P)
    (hpq : ∀ a, P a → Q a) : OkOrCap r Q := by
  unfold OkOrCap at *
  cases r with
  | error f => exact h
  | ok a => exact hpq a h

theorem step_refines (c : Cfg) (hR : 0 < c.R) (m : Map) (op : Op) (o : Orc) (h : Inv c.R m) (hp : pre m op) :
    OkOrCap (step c m op o) (fun r =>
      Inv c.R r.1 ∧ (∀ k, absOf r.1 k = (specStep (absOf m) op).1 k) ∧
      (∀ ret, (specStep (absOf m) op).2 = some ret → r.2.ret = ret)) := by
  cases op with
  | insert e =>
    show OkOrCap (Map.insert c m e o) _
    refine (Map.insert_spec c hR m e o h).mono (fun r hs => ⟨hs.1, ?_, ?_⟩)
    · intro k; rw [hs.2.1 k]; simp only [specStep]; cases absOf m e.k <;> rfl
    · intro ret hret; simp only [specStep] at hret; injection hret with hret; rw [← hret]; exact hs.2.2.1
  | get k =>
    show OkOrCap (.ok (m, Map.get m k)) _
    simp only [OkOrCap, specStep]
    exact ⟨h, fun _ => trivial, fun ret hret => by injection hret with hret; rw [← hret]; exact (Map.get_spec m k h).1⟩
  | getMut k add =>
    have hs := Map.getMut_spec m k add h
    show OkOrCap (.ok (Map.getMut m k add)) _
    simp only [OkOrCap, specStep]
    refine ⟨hs.1, ?_, fun ret hret => by injection hret with hret; rw [← hret]; exact hs.2.2.1⟩
    intro k'; rw [hs.2.1 k']; cases absOf m k <;> rfl
  | remove k =>
    obtain ⟨m', out, hr, hi, ha, hret, _⟩ := Map.removeEntry_spec hR m k o h
    show OkOrCap (Map.removeEntry m k o) _
    rw [hr]
    simp only [OkOrCap, specStep]
    exact ⟨hi, ha, fun ret hr' => by injection hr' with hr'; rw [← hr']; exact hret⟩
  | clear =>
    have hs := clear_spec m h
    show OkOrCap (.ok (Map.clear m)) _
    simp only [OkOrCap, specStep, Map.clear]
    refine ⟨hs.1, ?_, fun ret hret => by injection hret with hret⟩
    intro k; unfold absOf; rw [hs.2.1]; rfl
  | reserve n =>
    show OkOrCap (Map.reserve c m n o) _
    unfold Map.reserve
    have hs := reserve_spec c hR m n o.hits o.perm h
    cases hr : Raw.reserve c m n o.hits o.perm with
    | error f => rw [hr] at hs; exact hs
    | ok r =>
      rw [hr] at hs
      simp only [OkOrCap, specStep] at hs ⊢
      exact ⟨hs.1, absOf_of_perm_same hs.2.1 h.nodup, fun ret hret => by injection hret with hret⟩
  | tryReserve n =>
    show OkOrCap (Map.tryReserve c m n o) _
    unfold Map.tryReserve
    have hs := (tryReserve_spec c hR m n o.hits o.perm h).toCap
    cases hr : Raw.tryReserve c m n o.hits o.perm with
    | error f => rw [hr] at hs; exact hs
    | ok r =>
      rw [hr] at hs
      simp only [OkOrCap, specStep] at hs ⊢
      exact ⟨hs.1, absOf_of_perm_same hs.2.1 h.nodup, fun ret hret => by cases hret⟩
  | shrinkTo n =>
    show OkOrCap (Map.shrinkTo c m n) _
    unfold Map.shrinkTo
    have hs := shrinkTo_spec c hR m n h hp
    cases hr : Raw.shrinkTo c m n with
    | error f => rw [hr] at hs; exact hs
    | ok r =>
      rw [hr] at hs
      simp only [OkOrCap, specStep] at hs ⊢
      exact ⟨hs.1, absOf_of_perm_same hs.2.1 h.nodup, fun ret hret => by injection hret with hret⟩

/-- run a history; `orcs i` is the oracle of the `i`-th remaining call -/
def run (c : Cfg) : Map → List Op → (Nat → Orc) → Except Fault (Map × List Ret)
  | m, [], _ => .ok (m, [])
  | m, op :: rest, orcs =>
    match step c m op (orcs rest.length) with
    | .error f => .error f
    | .ok (m', out) =>
      match run c m' rest orcs with
      | .error f => .error f
      | .ok (m'', rets) => .ok (m'', out.ret :: rets)

def specRun : (Nat → Option Entry) → List Op → (Nat → Option Entry) × List (Option Ret)
  | a, [] => (a, [])
  | a, op :: rest =>
    let (a', r) := specStep a op
    let (a'', rs) := specRun a' rest
    (a'', r :: rs)

/-- the side conditions hold along the run -/
def runPre (c : Cfg) : Map → List Op → (Nat → Orc) → Prop
  | _, [], _ => True
  | m, op :: rest, orcs =>
    pre m op ∧ ∀ m' out, step c m op (orcs rest.length) = .ok (m', out) → runPre c m' rest orcs

/-- the observed return values agree with the reference wherever the reference determines them -/
def retsAgree : List Ret → List (Option Ret) → Prop
  | [], [] => True
  | r :: rs, s :: ss => (∀ x, s = some x → r = x) ∧ retsAgree rs ss
  | _, _ => False

/-- **Every history refines the reference map**, from any invariant state, for every oracle
    resolution (hence every hasher, placement, tombstone pattern and iteration order). -/
theorem run_refines (c : Cfg) (hR : 0 < c.R) (orcs : Nat → Orc) :
    ∀ (ops : List Op) (m : Map), Inv c.R m → runPre c m ops orcs →
      OkOrCap (run c m ops orcs) (fun r =>
        Inv c.R r.1 ∧ (∀ k, absOf r.1 k = (specRun (absOf m) ops).1 k) ∧
        retsAgree r.2 (specRun (absOf m) ops).2) := by
  intro ops
  induction ops with
  | nil => intro m h _; simp [run, OkOrCap, specRun, h, retsAgree]
  | cons op rest ih =>
    intro m h hpre
    unfold run
    have hs := step_refines c hR m op (orcs rest.length) h hpre.1
    cases hr : step c m op (orcs rest.length) with
    | error f => rw [hr] at hs; exact hs
    | ok p =>
      obtain ⟨m', out⟩ := p
      rw [hr] at hs
      simp only [OkOrCap] at hs
      obtain ⟨hi, ha, hret⟩ := hs
      have h2 := ih m' hi (hpre.2 m' out hr)
      dsimp only
      cases hr2 : run c m' rest orcs with
      | error f => rw [hr2] at h2; exact h2
      | ok q =>
        obtain ⟨m'', rets⟩ := q
        rw [hr2] at h2
        simp only [OkOrCap] at h2 ⊢
        obtain ⟨hi2, ha2, hrets⟩ := h2
        have hfun : absOf m' = (specStep (absOf m) op).1 := funext ha
        simp only [specRun]
        rw [hfun] at ha2 hrets
        exact ⟨hi2, ha2, hret, hrets⟩

end Griddle
