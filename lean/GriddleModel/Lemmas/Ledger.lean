/-
  Object ledger of the iterating calls: `retain`, `drain_filter` (pulled / dropped / forgotten).
  Every key and value object stored before the call is afterwards exactly one of: still stored,
  handed to the caller, dropped by the call.  (The single-element calls are in `MapOps.lean` /
  `Props/C06.lean`.)
-/
import GriddleModel.Lemmas.Retain
namespace Griddle

theorem idsOf_map_ids (es : List Entry) (f : Entry → Entry) (hf : ∀ x, (f x).ids = x.ids) :
    idsOf (es.map f) = idsOf es := by
  induction es with
  | nil => rfl
  | cons a rest ih =>
    simp only [List.map_cons, idsOf, List.flatMap_cons] at ih ⊢
    rw [hf a, ih]

/-- mutating a value in place changes no object identity -/
theorem idsOf_bump (m : Raw) (loc : Loc) (add : Nat) : idsOf (Map.bump m loc add).ents = idsOf m.ents := by
  have hf : ∀ x : Entry, (if x.k == loc.k then { x with v := x.v + add } else x).ids = x.ids := by
    intro x; split <;> rfl
  unfold Map.bump
  split
  · simp only [Raw.ents, idsOf_append]
    rw [idsOf_map_ids _ _ hf]
  · cases hlo : m.lo with
    | none => simp [Raw.ents, hlo]
    | some o =>
      simp only [Raw.ents, hlo, Option.map, idsOf_append]
      rw [idsOf_map_ids _ _ hf]

/-- `retain`'s loop: stored ⊎ dropped is conserved -/
theorem retainLoop_ledger {R : Nat} (hR : 0 < R) (p : Pred) (nMain : Nat) :
    ∀ (ks : List Nat) (i : Nat) (m : Map) (empt : Nat) (cost : Cost) (m' : Map) (cost' : Cost),
      Inv R m → ks.Nodup → Placed nMain i ks m →
      Map.retainLoop p nMain ks i m empt cost = .ok (m', cost') →
      (idsOf m'.ents ++ cost'.dropped).Perm (idsOf m.ents ++ cost.dropped) := by
  intro ks
  induction ks with
  | nil =>
    intro i m empt cost m' cost' _ _ _ hr
    unfold Map.retainLoop at hr
    cases hr; exact List.Perm.refl _
  | cons k rest ih =>
    intro i m empt cost m' cost' h hnd ⟨hp1, hp2⟩ hr
    rw [List.nodup_cons] at hnd
    obtain ⟨b1, b2, b3, b4, b5, b6, b7⟩ := bump_spec h p.add hp1
    have hplaced1 : Placed nMain (i + 1) rest (Map.bump m (Map.locOfIndex nMain i k) p.add) :=
      Placed.of_keep k (fun k' _ hin => by rw [b2]; exact hin) (fun k' _ hin => by rw [b3]; exact hin)
        rest (i + 1) hnd.1 hp2
    unfold Map.retainLoop at hr
    dsimp only at hr
    cases ht : p.test k with
    | true =>
      simp only [ht, if_true] at hr
      have := ih (i + 1) _ empt cost m' cost' b1 hnd.2 hplaced1 hr
      rw [idsOf_bump] at this
      exact this
    | false =>
      simp only [ht, Bool.false_eq_true, if_false] at hr
      have hp1' : PlacedAt nMain i k (Map.bump m (Map.locOfIndex nMain i k) p.add) := by
        unfold PlacedAt at hp1 ⊢
        split
        · rename_i hlt; simp only [hlt, if_true] at hp1; rw [b2]; exact hp1
        · rename_i hlt; simp only [hlt, if_false] at hp1; rw [b3]; exact hp1
      obtain ⟨e1, hf1⟩ := find_of_placed b1 hp1'
      obtain ⟨m2, ec, he, hi2, hperm, hb2, hg2, ea, eh, em, ef, ed, hl2⟩ :=
        eraseAt_spec hR b1 hf1 (decide (0 < empt))
      rw [he] at hr
      dsimp only at hr
      have htab := eraseAt_tables he
      have hlk : (Map.locOfIndex nMain i k).k = k := rfl
      have hplaced2 : Placed nMain (i + 1) rest m2 :=
        Placed.of_keep k (fun k' hk' hin => htab.1 k' (by rw [hlk]; exact hk') hin)
          (fun k' hk' hin => htab.2 k' (by rw [hlk]; exact hk') hin) rest (i + 1) hnd.1 hplaced1
      have hrec := ih (i + 1) m2 _ (cost + ec) m' cost' hi2 hnd.2 hplaced2 hr
      -- I(m') ++ D' ~ I(m2) ++ (D ++ e1.ids) ~ (e1.ids ++ I(m2)) ++ D ~ I(bumped) ++ D = I(m) ++ D
      have hp := idsOf_perm hperm
      rw [idsOf_cons, idsOf_bump] at hp
      simp only [Cost.add_dropped, ed] at hrec
      refine hrec.trans ?_
      have : (idsOf m2.ents ++ (cost.dropped ++ e1.ids)).Perm ((e1.ids ++ idsOf m2.ents) ++ cost.dropped) := by
        rw [← List.append_assoc]
        refine (List.perm_append_comm (l₁ := idsOf m2.ents ++ cost.dropped) (l₂ := e1.ids)).trans ?_
        rw [List.append_assoc]
      refine this.trans (List.Perm.append_right _ ?_)
      simpa [Entry.ids] using hp

/-- `drain_filter`'s loop: stored ⊎ yielded is conserved; the loop itself drops nothing -/
theorem drainFilterLoop_ledger {R : Nat} (hR : 0 < R) (p : Pred) (nMain : Nat) :
    ∀ (ks : List Nat) (i : Nat) (m : Map) (empt : Nat) (take : Option Nat) (acc : List Entry) (cost : Cost)
      (m' : Map) (ys : List Entry) (cost' : Cost) (ro : List Nat),
      Inv R m → ks.Nodup → Placed nMain i ks m →
      Map.drainFilterLoop p nMain ks i m empt take acc cost = .ok (m', ys, cost', ro) →
      (idsOf m'.ents ++ idsOf ys).Perm (idsOf m.ents ++ idsOf acc) ∧ cost'.dropped = cost.dropped := by
  intro ks
  induction ks with
  | nil =>
    intro i m empt take acc cost m' ys cost' ro _ _ _ hr
    unfold Map.drainFilterLoop at hr
    cases hr
    exact ⟨List.Perm.append_left _ (idsOf_perm (List.reverse_perm acc)), rfl⟩
  | cons k rest ih =>
    intro i m empt take acc cost m' ys cost' ro h hnd ⟨hp1, hp2⟩ hr
    rw [List.nodup_cons] at hnd
    unfold Map.drainFilterLoop at hr
    by_cases ht0 : take = some 0
    · simp only [ht0, if_true] at hr
      cases hr
      exact ⟨List.Perm.append_left _ (idsOf_perm (List.reverse_perm acc)), rfl⟩
    · simp only [ht0, if_false] at hr
      obtain ⟨b1, b2, b3, b4, b5, b6, b7⟩ := bump_spec h p.add hp1
      have hplaced1 : Placed nMain (i + 1) rest (Map.bump m (Map.locOfIndex nMain i k) p.add) :=
        Placed.of_keep k (fun k' _ hin => by rw [b2]; exact hin) (fun k' _ hin => by rw [b3]; exact hin)
          rest (i + 1) hnd.1 hp2
      cases htest : p.test k with
      | false =>
        simp only [htest, Bool.false_eq_true, if_false] at hr
        have := ih (i + 1) _ empt take acc cost m' ys cost' ro b1 hnd.2 hplaced1 hr
        rw [idsOf_bump] at this
        exact this
      | true =>
        simp only [htest, if_true] at hr
        have hp1' : PlacedAt nMain i k (Map.bump m (Map.locOfIndex nMain i k) p.add) := by
          unfold PlacedAt at hp1 ⊢
          split
          · rename_i hlt; simp only [hlt, if_true] at hp1; rw [b2]; exact hp1
          · rename_i hlt; simp only [hlt, if_false] at hp1; rw [b3]; exact hp1
        obtain ⟨e1, hf1⟩ := find_of_placed b1 hp1'
        obtain ⟨m2, rc, he, hi2, hperm, hb2, hg2, ra, rh, rm, rd, _, _⟩ :=
          removeAt_spec hR b1 hf1 (decide (0 < empt))
        rw [he] at hr
        dsimp only at hr
        have htab := removeAt_tables he
        have hlk : (Map.locOfIndex nMain i k).k = k := rfl
        have hplaced2 : Placed nMain (i + 1) rest m2 :=
          Placed.of_keep k (fun k' hk' hin => htab.1 k' (by rw [hlk]; exact hk') hin)
            (fun k' hk' hin => htab.2 k' (by rw [hlk]; exact hk') hin) rest (i + 1) hnd.1 hplaced1
        obtain ⟨hrec, hd⟩ := ih (i + 1) m2 _ (take.map (· - 1)) (e1 :: acc) (cost + rc) m' ys cost' ro
          hi2 hnd.2 hplaced2 hr
        have hp := idsOf_perm hperm
        rw [idsOf_cons, idsOf_bump] at hp
        refine ⟨?_, by rw [hd]; simp [rd]⟩
        -- I(m') ++ I(ys) ~ I(m2) ++ I(e1 :: acc) = I(m2) ++ (e1.ids ++ I(acc)) ~ (e1.ids ++ I(m2)) ++ I(acc) ~ I(m) ++ I(acc)
        refine hrec.trans ?_
        rw [idsOf_cons]
        have : (idsOf m2.ents ++ (e1.kid :: e1.vid :: idsOf acc)).Perm ((e1.kid :: e1.vid :: idsOf m2.ents) ++ idsOf acc) := by
          have h1 : (idsOf m2.ents ++ ([e1.kid, e1.vid] ++ idsOf acc)).Perm (([e1.kid, e1.vid] ++ idsOf m2.ents) ++ idsOf acc) := by
            rw [← List.append_assoc]
            exact List.Perm.append_right _ List.perm_append_comm
          simpa using h1
        exact this.trans (List.Perm.append_right _ hp)

end Griddle
