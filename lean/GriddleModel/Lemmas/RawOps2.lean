/-
  Specifications of `carry_all`, `reserve`, `try_reserve`, `shrink_to`, `clear` under the invariant.
-/
import GriddleModel.Lemmas.RawOps
namespace Griddle

/-- with room, the growable `insert` is `insert_no_grow`: hashbrown's `reserve_rehash` (and with it
    `rehash_in_place`) is not reached -/
theorem HB.insertGrowable_room (c : Cfg) (t : HB) (e : Entry) (b : Bool) (hroom : 0 < t.gl) :
    t.insertGrowable c e b = (t.insertNoGrow e b).map (fun t' => (t', {})) := by
  unfold HB.insertGrowable
  cases b
  · have : ¬ t.gl = 0 := by omega
    simp only [Bool.false_eq_true, if_false, this]
    unfold HB.insertNoGrow
    simp [this, Except.map]
  · simp

theorem carryAllLoop_spec (c : Cfg) : ∀ (ents : List Entry) (main : HB) (hits : Nat) (cost : Cost),
    main.WF → ents.length ≤ main.gl →
    OkOr (Raw.carryAllLoop c main ents.length ents hits cost) (fun r =>
      r.1.buckets = main.buckets ∧ r.1.WF ∧ r.1.gl ≤ main.gl ∧ main.gl ≤ r.1.gl + ents.length ∧
      r.1.ents.Perm (main.ents ++ ents) ∧
      r.2.2.moved = cost.moved + ents.length ∧ r.2.2.hashes = cost.hashes + ents.length ∧
      r.2.2.allocs = cost.allocs ∧ r.2.2.frees = cost.frees ∧ r.2.2.dropped = cost.dropped) := by
  intro ents
  induction ents with
  | nil =>
    intro main hits cost hwf _
    simp [Raw.carryAllLoop, OkOr, hwf, idsOf]
  | cons e rest ih =>
    intro main hits cost hwf hroom
    simp only [List.length_cons] at hroom ⊢
    unfold Raw.carryAllLoop
    have hpos : 0 < main.gl := by omega
    rw [HB.insertGrowable_room c main e _ hpos]
    have hins := HB.insertNoGrow_spec main e (decide (0 < hits)) hwf hpos
    match hres : main.insertNoGrow e (decide (0 < hits)) with
    | .error f => rw [hres] at hins; simpa [OkOr, Except.map] using hins
    | .ok m' =>
      rw [hres] at hins
      simp only [OkOr] at hins
      obtain ⟨hb, he, hwf', hg1, hg2⟩ := hins
      simp only [Except.map]
      have := ih m' (hits - 1) (cost + { hashes := 1, moved := 1 } + {}) hwf' (by omega)
      match hrec : Raw.carryAllLoop c m' rest.length rest (hits - 1) (cost + { hashes := 1, moved := 1 } + {}) with
      | .error f => rw [hrec] at this; simp only [hrec]; simpa [OkOr] using this
      | .ok r =>
        rw [hrec] at this
        simp only [hrec]
        simp only [OkOr] at this ⊢
        obtain ⟨h1, h2, h3, h4, h5, h6, h7, h8, h9, h10⟩ := this
        refine ⟨by rw [h1, hb], h2, by omega, by omega, ?_, ?_, ?_, ?_, ?_, ?_⟩
        · rw [he] at h5
          exact h5.trans (List.perm_middle.symm)
        · rw [h6]; simp; omega
        · rw [h7]; simp; omega
        · rw [h8]; simp
        · rw [h9]; simp
        · rw [h10]; simp

/-- `carry_all` under the invariant: every parked element is moved into the main table, which is
    *not* reallocated (the headroom covers them all), and the old table is released. -/
theorem carryAll_spec (c : Cfg) (hR : 0 < c.R) (t : Raw) (hits : Nat) (h : Inv c.R t) :
    OkOr (Raw.carryAll c t hits) (fun r =>
      Inv c.R r.1 ∧ r.1.lo = none ∧ r.1.ents.Perm t.ents ∧ r.1.main.buckets = t.main.buckets ∧
      r.2.2.allocs = 0 ∧ r.2.2.dropped = [] ∧ r.2.2.hashes = r.2.2.moved ∧
      r.2.2.moved = (match t.lo with | some o => o.ents.length | none => 0) ∧
      t.main.capacity ≤ r.1.main.capacity) := by
  unfold Raw.carryAll
  cases hlo : t.lo with
  | none =>
    simp only [OkOr]
    have : t = { main := t.main, lo := none } := by cases t; simp_all
    refine ⟨h, hlo, List.Perm.refl _, ?_, ?_, ?_, ?_, ?_, Nat.le_refl _⟩ <;> first | trivial | rfl
  | some o =>
    simp only
    have hag := h.agree o hlo
    have hhd := (h.head o hlo).1
    rw [hag]
    have hsp := carryAllLoop_spec c o.ents t.main hits {} h.wf (by omega)
    match hres : Raw.carryAllLoop c t.main o.ents.length o.ents hits {} with
    | .error f => rw [hres] at hsp; simpa [OkOr] using hsp
    | .ok (m, hh, cost) =>
      rw [hres] at hsp
      simp only [OkOr] at hsp ⊢
      obtain ⟨h1, h2, h3, h4, h5, h6, h7, h8, h9, h10⟩ := hsp
      have hents : t.ents = t.main.ents ++ o.ents := by simp [Raw.ents, hlo]
      refine ⟨⟨h2, ?_, ?_, ?_⟩, trivial, ?_, h1, ?_, ?_, ?_, ?_, ?_⟩
      · intro o' ho'; cases ho'
      · intro o' ho'; cases ho'
      · rw [Raw.ents_none]
        have hnd := h.nodup
        rw [hents] at hnd
        exact (keysOf_perm h5).nodup_iff.2 hnd
      · rw [Raw.ents_none, hents]; exact h5
      · simp [Old.freeCost, h8]
      · simp [Old.freeCost, h10]
      · simp [Old.freeCost, h6, h7]
      · simp [Old.freeCost, h6]
      · have := h5.length_eq
        simp only [List.length_append] at this
        simp only [HB.capacity]; omega

/-- `clear()`: empty map, invariant, everything stored is dropped. -/
theorem clear_spec {R : Nat} (t : Raw) (h : Inv R t) :
    Inv R (Raw.clear t).1 ∧ (Raw.clear t).1.ents = [] ∧ (Raw.clear t).1.lo = none ∧
    (Raw.clear t).1.main.buckets = t.main.buckets ∧
    (Raw.clear t).2.dropped.Perm (idsOf t.ents) ∧ (Raw.clear t).2.allocs = 0 := by
  unfold Raw.clear HB.clear
  by_cases h0 : t.main.ents.length = 0
  · have hnil : t.main.ents = [] := List.eq_nil_of_length_eq_zero h0
    simp only [h0, if_true]
    refine ⟨⟨h.wf, ?_, ?_, ?_⟩, ?_, trivial, trivial, ?_, ?_⟩
    · intro o ho; cases ho
    · intro o ho; cases ho
    · simp [Raw.ents, hnil, keysOf]
    · simp [Raw.ents, hnil]
    · cases hlo : t.lo <;> simp [Raw.ents, hlo, hnil, Old.dropCost, idsOf]
    · cases hlo : t.lo <;> simp [Old.dropCost]
  · simp only [h0, if_false]
    refine ⟨⟨?_, ?_, ?_, ?_⟩, ?_, trivial, trivial, ?_, ?_⟩
    · simp [HB.WF]
    · intro o ho; cases ho
    · intro o ho; cases ho
    · simp [Raw.ents, keysOf]
    · simp [Raw.ents]
    · cases hlo : t.lo with
      | none => simp [Raw.ents, hlo, idsOf]
      | some o =>
        simp only [Raw.ents, hlo, Old.dropCost, idsOf, Cost.add_dropped, List.flatMap_append]
        exact List.perm_append_comm
    · cases hlo : t.lo <;> simp [Old.dropCost]

theorem Raw.len_eq (t : Raw) : t.len = t.ents.length := by
  unfold Raw.len Raw.ents; cases t.lo <;> simp

/-- what a successful `try_grow` establishes -/
theorem tryGrow_inv (c : Cfg) (hR : 0 < c.R) (t : Raw) (extra : Nat) (perm : List Nat)
    (h : Inv c.R t) (hlo : t.lo = none) :
    OkOr (Raw.tryGrow c t extra perm) (fun r =>
      Inv c.R r.1 ∧ r.1.ents.Perm t.ents ∧ r.2.2.hashes = 0 ∧ r.2.2.moved = 0 ∧ r.2.2.dropped = [] ∧
      r.2.2.allocs ≤ 1 ∧
      (r.2.1 = none → r.1.len + extra ≤ r.1.capacity) ∧
      (∀ e, r.2.1 = some e → r.1 = t ∧ r.2.2 = {})) := by
  have hg := tryGrow_spec c t extra perm hlo h.main_nodup
  match hgr : Raw.tryGrow c t extra perm with
  | .error f => rw [hgr] at hg; simpa [OkOr] using hg
  | .ok (t1, some e, c1) =>
    rw [hgr] at hg
    simp only [OkOr] at hg ⊢
    obtain ⟨g1, g2⟩ := hg
    subst g1 g2
    and_intros <;> first | exact h | exact List.Perm.refl _ | rfl | trivial | omega | (intro hc; cases hc; done) | (intro _ _; exact ⟨rfl, rfl⟩) | (intro _ _; trivial) | (intro _; exact ⟨rfl, rfl⟩) | simp
  | .ok (t1, none, c1) =>
    rw [hgr] at hg
    simp only [OkOr] at hg ⊢
    obtain ⟨g1, g2, g3, g4, g5, g6, g7, g8, g9, g10, g11, _⟩ := hg
    have hcd := ceilDiv_zero c.R hR
    have hi1 : Inv c.R t1 := by
      refine ⟨g2, fun o ho => (g5 o ho).1, fun o ho => ?_, ?_⟩
      · have := g5 o ho
        rw [this.2.1]
        have hp := ceilDiv_pos t.main.ents.length c.R hR (by omega)
        have hm : ceilDiv t.main.ents.length c.R ≤ max extra (ceilDiv t.main.ents.length c.R) := Nat.le_max_right _ _
        omega
      · exact (keysOf_perm g4).nodup_iff.2 h.nodup
    refine ⟨hi1, g4, g9, g10, g11, g8, fun _ => ?_, fun e he => by cases he⟩
    have hlen : t1.len = t.main.ents.length := by
      rw [Raw.len_eq, g4.length_eq]; simp [Raw.ents, hlo]
    have hm : extra ≤ max extra (ceilDiv t.main.ents.length c.R) := Nat.le_max_left _ _
    simp only [Raw.capacity, HB.capacity, g1, List.length_nil]
    omega

/-- `reserve(additional)`: afterwards `capacity() ≥ len() + additional`; contents untouched; at
    most one allocation; the only failure is the documented capacity-overflow panic (or an OOM
    abort). In particular, a pending resize is folded in (`carry_all`) *before* the new table is
    allocated, so there are never three tables. -/
theorem reserve_spec (c : Cfg) (hR : 0 < c.R) (t : Raw) (n hits : Nat) (perm : List Nat) (h : Inv c.R t) :
    OkOrCap (Raw.reserve c t n hits perm) (fun r =>
      Inv c.R r.1 ∧ r.1.ents.Perm t.ents ∧ r.1.len + n ≤ r.1.capacity ∧ r.2.allocs ≤ 1 ∧ r.2.dropped = []) := by
  unfold Raw.reserve
  cases hlo : t.lo with
  | some o =>
    dsimp only
    by_cases hov : USIZE ≤ o.ents.length + n
    · simp [hov, OkOrCap]
    · simp only [hov, if_false]
      by_cases hfast : o.ents.length + n < t.main.gl
      · simp only [hfast, if_true, OkOrCap]
        refine ⟨h, List.Perm.refl _, ?_, Nat.zero_le _, trivial⟩
        unfold Raw.len Raw.capacity HB.capacity
        simp only [hlo]; omega
      · simp only [hfast, if_false, Option.isSome, if_true]
        have hca := carryAll_spec c hR t hits h
        match hcr : Raw.carryAll c t hits with
        | .error f =>
          rw [hcr] at hca
          simp only [OkOr] at hca; simp only [OkOrCap]; exact Or.inl hca
        | .ok (t1, hh, c1) =>
          rw [hcr] at hca
          simp only [OkOr] at hca
          obtain ⟨a1, a2, a3, a4, a5, a6, a7, a8, a9⟩ := hca
          dsimp only
          unfold Raw.grow
          have hg := tryGrow_inv c hR t1 n perm a1 a2
          match hgr : Raw.tryGrow c t1 n perm with
          | .error f => rw [hgr] at hg; simp only [OkOr] at hg; simp only [OkOrCap]; exact Or.inl hg
          | .ok (t2, some .overflow, c2) => simp [OkOrCap]
          | .ok (t2, some .alloc, c2) => simp [OkOrCap]
          | .ok (t2, none, c2) =>
            rw [hgr] at hg
            simp only [OkOr] at hg
            obtain ⟨g1, g2, g3, g4, g5, g6, g7, _⟩ := hg
            simp only [OkOrCap]
            exact ⟨g1, g2.trans a3, g7 trivial, by simp; omega, by simp [a6, g5]⟩
  | none =>
    dsimp only
    simp only [Nat.zero_add]
    by_cases hov : USIZE ≤ n
    · simp [hov, OkOrCap]
    · simp only [hov, if_false]
      by_cases hfast : n < t.main.gl
      · simp only [hfast, if_true, OkOrCap]
        refine ⟨h, List.Perm.refl _, ?_, Nat.zero_le _, trivial⟩
        unfold Raw.len Raw.capacity HB.capacity
        simp only [hlo]; omega
      · simp only [hfast, if_false, Option.isSome, Bool.false_eq_true]
        unfold Raw.grow
        have hg := tryGrow_inv c hR t n perm h hlo
        match hgr : Raw.tryGrow c t n perm with
        | .error f => rw [hgr] at hg; simp only [OkOr] at hg; simp only [OkOrCap]; exact Or.inl hg
        | .ok (t2, some .overflow, c2) => simp [OkOrCap]
        | .ok (t2, some .alloc, c2) => simp [OkOrCap]
        | .ok (t2, none, c2) =>
          rw [hgr] at hg
          simp only [OkOr] at hg
          obtain ⟨g1, g2, g3, g4, g5, g6, g7, _⟩ := hg
          simp only [OkOrCap]
          exact ⟨g1, g2, g7 trivial, g6, g5⟩

/-- `try_reserve(additional)`: never a panic or abort.  `Ok` ⇒ `capacity() ≥ len() + additional`;
    `Err` ⇒ the contents are unchanged (and the map still satisfies the invariant).  It never
    returns `Ok` having reserved less — in either build profile (`c.debug` is arbitrary). -/
theorem tryReserve_spec (c : Cfg) (hR : 0 < c.R) (t : Raw) (n hits : Nat) (perm : List Nat) (h : Inv c.R t) :
    OkOr (Raw.tryReserve c t n hits perm) (fun r =>
      Inv c.R r.1 ∧ r.1.ents.Perm t.ents ∧ r.2.2.allocs ≤ 1 ∧ r.2.2.dropped = [] ∧
      (r.2.1 = none → r.1.len + n ≤ r.1.capacity)) := by
  unfold Raw.tryReserve
  cases hlo : t.lo with
  | some o =>
    dsimp only
    by_cases hov : USIZE ≤ o.ents.length + n
    · simp only [hov, if_true, OkOr]
      exact ⟨h, List.Perm.refl _, Nat.zero_le _, trivial, fun hc => by cases hc⟩
    · simp only [hov, if_false]
      by_cases hfast : o.ents.length + n < t.main.gl
      · simp only [hfast, if_true, OkOr]
        refine ⟨h, List.Perm.refl _, Nat.zero_le _, trivial, fun _ => ?_⟩
        unfold Raw.len Raw.capacity HB.capacity
        simp only [hlo]; omega
      · simp only [hfast, if_false, Option.isSome, if_true]
        have hca := carryAll_spec c hR t hits h
        match hcr : Raw.carryAll c t hits with
        | .error f =>
          rw [hcr] at hca
          simpa [OkOr] using hca
        | .ok (t1, hh, c1) =>
          rw [hcr] at hca
          simp only [OkOr] at hca
          obtain ⟨a1, a2, a3, a4, a5, a6, a7, a8, a9⟩ := hca
          dsimp only
          have hg := tryGrow_inv c hR t1 n perm a1 a2
          match hgr : Raw.tryGrow c t1 n perm with
          | .error f => rw [hgr] at hg; simpa [OkOr] using hg
          | .ok (t2, e, c2) =>
            rw [hgr] at hg
            simp only [OkOr] at hg ⊢
            obtain ⟨g1, g2, g3, g4, g5, g6, g7, _⟩ := hg
            exact ⟨g1, g2.trans a3, by simp; omega, by simp [a6, g5], g7⟩
  | none =>
    dsimp only
    simp only [Nat.zero_add]
    by_cases hov : USIZE ≤ n
    · simp only [hov, if_true, OkOr]
      exact ⟨h, List.Perm.refl _, Nat.zero_le _, trivial, fun hc => by cases hc⟩
    · simp only [hov, if_false]
      by_cases hfast : n < t.main.gl
      · simp only [hfast, if_true, OkOr]
        refine ⟨h, List.Perm.refl _, Nat.zero_le _, trivial, fun _ => ?_⟩
        unfold Raw.len Raw.capacity HB.capacity
        simp only [hlo]; omega
      · simp only [hfast, if_false, Option.isSome, Bool.false_eq_true]
        have hg := tryGrow_inv c hR t n perm h hlo
        match hgr : Raw.tryGrow c t n perm with
        | .error f => rw [hgr] at hg; simpa [OkOr] using hg
        | .ok (t2, e, c2) =>
          rw [hgr] at hg
          simp only [OkOr] at hg ⊢
          obtain ⟨g1, g2, g3, g4, g5, g6, g7, _⟩ := hg
          exact ⟨g1, g2, g6, g5, g7⟩

theorem C04aux_cap_ge_len {R : Nat} {t : Raw} (h : Inv R t) : t.len ≤ t.capacity := by
  unfold Raw.len Raw.capacity HB.capacity
  cases hlo : t.lo with
  | none => simp
  | some o => have := (h.head o hlo).1; simp only; omega

/-- hashbrown `shrink_to` on one table: contents kept, never more buckets, and either nothing
    happened or the new table's capacity covers `max(items, min_size)`. -/
theorem HB.shrinkTo_spec (c : Cfg) (t : HB) (minSize : Nat) (hwf : t.WF) :
    OkOrCap (t.shrinkTo c minSize) (fun r =>
      r.1.ents = t.ents ∧ r.1.WF ∧ (1 ≤ t.buckets → r.1.buckets ≤ t.buckets ∧ 1 ≤ r.1.buckets) ∧
      (r.1 = t ∨ max t.ents.length minSize ≤ r.1.capacity) ∧ r.2.dropped = [] ∧ r.2.allocs ≤ 1) := by
  unfold HB.shrinkTo
  dsimp only
  by_cases hm : max t.ents.length minSize = 0
  · simp only [hm, if_true, OkOrCap]
    have h0 : t.ents.length = 0 := by omega
    have hnil : t.ents = [] := List.eq_nil_of_length_eq_zero h0
    refine ⟨by simp [HB.new, hnil], by simp [HB.new, HB.WF, fullCap], fun hb => ⟨by simp [HB.new]; omega, by simp [HB.new]⟩, ?_, ?_, ?_⟩
    · right; simp [HB.capacity, HB.new]
    · simp [HB.freeCost]
    · simp [HB.freeCost]
  · simp only [hm, if_false]
    cases hcb : capToBuckets (max t.ents.length minSize) with
    | none => simp only [OkOrCap]; exact ⟨trivial, hwf, fun hb => ⟨Nat.le_refl _, hb⟩, Or.inl trivial, trivial, Nat.zero_le _⟩
    | some mb =>
      dsimp only
      by_cases hlt : mb < t.buckets
      · simp only [hlt, if_true]
        cases htw : HB.tryWithCapacity c (max t.ents.length minSize) with
        | error e => cases e <;> simp [OkOrCap]
        | ok nt =>
          obtain ⟨hne, hnwf, hngl, hfc, _, _⟩ := tryWithCapacity_spec c _ nt htw
          have hnb : nt.buckets = mb := by
            unfold HB.tryWithCapacity at htw
            simp only [hm, if_false, hcb] at htw
            split at htw
            · cases htw
            · injection htw with htw; subst htw; rfl
          have h4 := capToBuckets_ge4 _ _ hcb
          dsimp only
          by_cases h0 : t.ents.length = 0
          · have hnil : t.ents = [] := List.eq_nil_of_length_eq_zero h0
            simp only [h0, if_true, OkOrCap]
            refine ⟨by rw [hne, hnil], hnwf, fun _ => ⟨by omega, by omega⟩, Or.inr ?_, ?_, ?_⟩
            · simp only [HB.capacity, hne, List.length_nil]; omega
            · simp [HB.freeCost]
            · simp [HB.freeCost]
          · simp only [h0, if_false, OkOrCap]
            have hle : t.ents.length ≤ nt.gl := by
              have : t.ents.length ≤ max t.ents.length minSize := Nat.le_max_left _ _
              omega
            refine ⟨trivial, ?_, fun _ => ⟨by omega, by omega⟩, Or.inr ?_, ?_, ?_⟩
            · unfold HB.WF at *; simp only; omega
            · simp only [HB.capacity]; omega
            · simp [HB.freeCost]
            · simp [HB.freeCost]
      · simp only [hlt, if_false, OkOrCap]
        exact ⟨trivial, hwf, fun hb => ⟨Nat.le_refl _, hb⟩, Or.inl trivial, trivial, Nat.zero_le _⟩

/-- `shrink_to(min_size)` under the invariant: contents kept, invariant kept (the table it
    installs keeps room for every parked element and the insertions needed to move them — this is
    where the repaired "old table already emptied in place" case matters), never more buckets,
    and `capacity() ≥ max(len(), min(min_size, previous capacity()))`. -/
theorem shrinkTo_spec (c : Cfg) (hR : 0 < c.R) (t : Raw) (minSize : Nat) (h : Inv c.R t)
    (hsmall : t.len + t.len + 1 < USIZE) :
    OkOrCap (Raw.shrinkTo c t minSize) (fun r =>
      Inv c.R r.1 ∧ r.1.ents.Perm t.ents ∧ (1 ≤ t.main.buckets → r.1.main.buckets ≤ t.main.buckets ∧ 1 ≤ r.1.main.buckets) ∧
      max r.1.len (min minSize t.capacity) ≤ r.1.capacity ∧ r.2.dropped = [] ∧ r.2.allocs ≤ 1) := by
  unfold Raw.shrinkTo
  have hcapge := C04aux_cap_ge_len h
  -- the two shapes the state can have after the repair's first step
  have tailNone : ∀ (c0 : Cost), c0.dropped = [] → c0.allocs = 0 → t.ents = t.main.ents →
      OkOrCap (match t.main.shrinkTo c (max ((t.main.ents.length + 0) % USIZE) minSize) with
        | .error f => .error f
        | .ok (m, mc) => .ok (({ main := m, lo := none } : Raw), c0 + mc)) (fun r =>
        Inv c.R r.1 ∧ r.1.ents.Perm t.ents ∧ (1 ≤ t.main.buckets → r.1.main.buckets ≤ t.main.buckets ∧ 1 ≤ r.1.main.buckets) ∧
        max r.1.len (min minSize t.capacity) ≤ r.1.capacity ∧ r.2.dropped = [] ∧ r.2.allocs ≤ 1) := by
    intro c0 hd ha htents
    have hml : t.main.ents.length ≤ t.len := by unfold Raw.len; omega
    have hlt : t.main.ents.length + 0 < USIZE := by omega
    rw [Nat.mod_eq_of_lt hlt]
    have hs := HB.shrinkTo_spec c t.main (max (t.main.ents.length + 0) minSize) h.wf
    match hsh : t.main.shrinkTo c (max (t.main.ents.length + 0) minSize) with
    | .error f => rw [hsh] at hs; simpa [OkOrCap] using hs
    | .ok (m, mc) =>
      rw [hsh] at hs
      simp only [OkOrCap] at hs ⊢
      obtain ⟨s1, s2, s3, s5, s6, s7⟩ := hs
      have hents : Raw.ents { main := m, lo := none } = t.main.ents := by simp [Raw.ents, s1]
      refine ⟨⟨s2, ?_, ?_, ?_⟩, ?_, s3, ?_, by simp [hd, s6], by simp [ha]; exact s7⟩
      · intro o ho; cases ho
      · intro o ho; cases ho
      · rw [hents]; exact h.main_nodup
      · rw [hents, htents]
      · have hlen : Raw.len { main := m, lo := none } = t.main.ents.length := by simp [Raw.len, s1]
        rw [hlen]
        simp only [Raw.capacity] at *
        rcases s5 with heq | hge
        · subst heq; simp only [HB.capacity] at *
          have : min minSize (t.main.ents.length + t.main.gl) ≤ t.main.ents.length + t.main.gl := Nat.min_le_right _ _
          omega
        · have h1 := Nat.le_max_left (t.main.ents.length + 0) minSize
          have h2 := Nat.le_max_right (t.main.ents.length + 0) minSize
          have := Nat.min_le_left minSize t.main.capacity
          omega
  cases hlo : t.lo with
  | none =>
    dsimp only
    have hdbg : (c.debug && decide (USIZE ≤ t.main.ents.length + 0)) = false := by
      have hml : t.main.ents.length ≤ t.len := by unfold Raw.len; omega
      have : decide (USIZE ≤ t.main.ents.length + 0) = false := by simp; omega
      rw [this]; simp
    simp only [hdbg, Bool.false_eq_true, if_false]
    exact tailNone {} rfl rfl (by simp [Raw.ents, hlo])
  | some o =>
    dsimp only
    by_cases h0 : o.ents.length = 0
    · simp only [h0, if_true]
      have hdbg : (c.debug && decide (USIZE ≤ t.main.ents.length + 0)) = false := by
        have hml : t.main.ents.length ≤ t.len := by unfold Raw.len; omega
        have : decide (USIZE ≤ t.main.ents.length + 0) = false := by simp; omega
        rw [this]; simp
      simp only [hdbg, Bool.false_eq_true, if_false]
      exact tailNone o.freeCost rfl rfl (by simp [Raw.ents, hlo, List.eq_nil_of_length_eq_zero h0])
    · simp only [h0, if_false]
      have hpos : 0 < o.ents.length := Nat.pos_of_ne_zero h0
      have hcd := ceilDiv_le_self o.ents.length c.R hR
      have hlt : t.main.ents.length + (o.ents.length + ceilDiv o.ents.length c.R) < USIZE := by
        unfold Raw.len at hsmall; simp only [hlo] at hsmall; omega
      have hdbg : (c.debug && decide (USIZE ≤ t.main.ents.length + (o.ents.length + ceilDiv o.ents.length c.R))) = false := by
        have : decide (USIZE ≤ t.main.ents.length + (o.ents.length + ceilDiv o.ents.length c.R)) = false := by simp; omega
        rw [this]; simp
      simp only [hdbg, Bool.false_eq_true, if_false, Nat.mod_eq_of_lt hlt]
      have hs := HB.shrinkTo_spec c t.main (max (t.main.ents.length + (o.ents.length + ceilDiv o.ents.length c.R)) minSize) h.wf
      match hsh : t.main.shrinkTo c (max (t.main.ents.length + (o.ents.length + ceilDiv o.ents.length c.R)) minSize) with
      | .error f => rw [hsh] at hs; simpa [OkOrCap] using hs
      | .ok (m, mc) =>
        rw [hsh] at hs
        simp only [OkOrCap] at hs ⊢
        obtain ⟨s1, s2, s3, s5, s6, s7⟩ := hs
        have hents : Raw.ents { main := m, lo := some o } = t.ents := by simp [Raw.ents, s1, hlo]
        have hhd := h.head o hlo
        refine ⟨⟨s2, ?_, ?_, ?_⟩, ?_, s3, ?_, by simp [s6], by simp; exact s7⟩
        · intro o' ho'; cases ho'; exact h.agree o hlo
        · intro o' ho'; cases ho'
          rcases s5 with heq | hge
          · subst heq; exact hhd
          · have hml : m.ents.length = t.main.ents.length := by rw [s1]
            simp only [HB.capacity] at hge
            rw [hml] at hge
            have h1 := Nat.le_max_left (t.main.ents.length + (o.ents.length + ceilDiv o.ents.length c.R)) minSize
            have := ceilDiv_pos o.ents.length c.R hR hpos
            show o.ents.length + ceilDiv o.ents.length c.R ≤ m.gl ∧ 1 ≤ m.gl
            exact ⟨by omega, by omega⟩
        · rw [hents]; exact h.nodup
        · rw [hents]
        · have hlen : Raw.len { main := m, lo := some o } = t.main.ents.length + o.ents.length := by simp [Raw.len, s1]
          rw [hlen]
          simp only [Raw.capacity] at *
          rcases s5 with heq | hge
          · subst heq; simp only [HB.capacity, Raw.len, hlo] at *
            have : min minSize (t.main.ents.length + t.main.gl) ≤ t.main.ents.length + t.main.gl := Nat.min_le_right _ _
            omega
          · have h1 := Nat.le_max_left (t.main.ents.length + (o.ents.length + ceilDiv o.ents.length c.R)) minSize
            have h2 := Nat.le_max_right (t.main.ents.length + (o.ents.length + ceilDiv o.ents.length c.R)) minSize
            have := Nat.min_le_left minSize t.main.capacity
            omega

end Griddle
