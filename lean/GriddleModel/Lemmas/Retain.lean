/-
  `retain` and `drain_filter`: the loops over an explicit visiting order.
-/
import Batteries.Data.List.Perm
import GriddleModel.Lemmas.RawOps3
import GriddleModel.Lemmas.Steps
namespace Griddle

macro "triv" : tactic => `(tactic| first | trivial | rfl)

/-- the closure's effect on a visited entry: `*v += add` -/
def bumpE (k add : Nat) (x : Entry) : Entry := if x.k == k then { x with v := x.v + add } else x

theorem bumpE_k (k add : Nat) (x : Entry) : (bumpE k add x).k = x.k := by unfold bumpE; split <;> rfl
theorem bumpE_other {k add : Nat} {x : Entry} (h : x.k ≠ k) : bumpE k add x = x := by
  unfold bumpE; have : (x.k == k) = false := by simpa using h
  simp [this]

theorem lookupIn_map_key (es : List Entry) (f : Entry → Entry) (hf : ∀ e, (f e).k = e.k) (k' : Nat) :
    lookupIn (es.map f) k' = (lookupIn es k').map f := by
  unfold lookupIn
  induction es with
  | nil => rfl
  | cons a rest ih =>
    simp only [List.map_cons, List.find?, hf]
    cases h : (a.k == k') <;> simp [ih]

/-- abstract effect of rewriting the entry stored for `k` with a key-preserving `f` -/
def specMap (a : Nat → Option Entry) (k : Nat) (f : Entry → Entry) (k' : Nat) : Option Entry :=
  if k' = k then (a k).map f else a k'

theorem abs_mapMain (t : Raw) (k : Nat) (f : Entry → Entry) (hf : ∀ e, (f e).k = e.k)
    (hid : ∀ e, e.k ≠ k → f e = e) (hin : k ∈ keysOf t.main.ents) (k' : Nat) :
    absOf { t with main := { t.main with ents := t.main.ents.map f } } k' = specMap (absOf t) k f k' := by
  rw [absOf_split]
  unfold specMap
  have hold : oldEnts { t with main := { t.main with ents := t.main.ents.map f } } = oldEnts t := rfl
  simp only [hold, lookupIn_map_key _ f hf]
  by_cases hk : k' = k
  · subst hk
    simp only [if_true]
    rw [absOf_split]
    cases hl : lookupIn t.main.ents k' with
    | none => exact absurd hin (find_key_none.1 hl)
    | some x => simp [Option.map]
  · simp only [hk, if_false]
    rw [absOf_split]
    cases hl : lookupIn t.main.ents k' with
    | none => simp [Option.map]
    | some x =>
      have := lookupIn_key hl
      simp only [Option.map]
      rw [hid x (by omega)]

theorem abs_mapOld (t : Raw) (k : Nat) (f : Entry → Entry) (hf : ∀ e, (f e).k = e.k)
    (hid : ∀ e, e.k ≠ k → f e = e) (hnin : k ∉ keysOf t.main.ents) (k' : Nat) :
    absOf { t with lo := t.lo.map (fun ol => { ol with ents := ol.ents.map f }) } k'
      = specMap (absOf t) k f k' := by
  rw [absOf_split]
  unfold specMap
  have hold : oldEnts { t with lo := t.lo.map (fun ol => { ol with ents := ol.ents.map f }) }
      = (oldEnts t).map f := by
    unfold oldEnts; cases t.lo <;> simp [Option.map]
  simp only [hold, lookupIn_map_key _ f hf]
  by_cases hk : k' = k
  · subst hk
    simp only [if_true]
    rw [absOf_split]
    have hn : lookupIn t.main.ents k' = none := find_key_none.2 hnin
    simp only [hn]
  · simp only [hk, if_false]
    rw [absOf_split]
    cases hm : lookupIn t.main.ents k' with
    | some x => rfl
    | none =>
      simp only
      cases hl : lookupIn (oldEnts t) k' with
      | none => simp [Option.map]
      | some x =>
        have := lookupIn_key hl
        simp only [Option.map]
        rw [hid x (by omega)]

/-- where the `i`-th visited key lives, as `RawIter` reports it -/
def PlacedAt (nMain i : Nat) (k : Nat) (m : Raw) : Prop :=
  if i < nMain then k ∈ keysOf m.main.ents else k ∈ keysOf (oldEnts m)

/-- every key still to be visited is where the iterator will say it is -/
def Placed (nMain : Nat) : Nat → List Nat → Raw → Prop
  | _, [], _ => True
  | i, k :: rest, m => PlacedAt nMain i k m ∧ Placed nMain (i + 1) rest m

theorem Placed.mono {nMain : Nat} {m m' : Raw}
    (hmain : ∀ k, k ∈ keysOf m.main.ents → k ∈ keysOf m'.main.ents ∨ False)
    (hold : ∀ k, k ∈ keysOf (oldEnts m) → k ∈ keysOf (oldEnts m')) :
    ∀ (ks : List Nat) (i : Nat), Placed nMain i ks m → Placed nMain i ks m' := by
  intro ks
  induction ks with
  | nil => intro i _; trivial
  | cons k rest ih =>
    intro i ⟨h1, h2⟩
    refine ⟨?_, ih (i + 1) h2⟩
    unfold PlacedAt at *
    split
    · rename_i hlt; simp only [hlt, if_true] at h1
      rcases hmain k h1 with h | h
      · exact h
      · exact absurd h (by simp)
    · rename_i hlt; simp only [hlt, if_false] at h1; exact hold k h1

/-- placement restricted to keys other than `k0` survives any change that keeps those keys -/
theorem Placed.of_keep {nMain : Nat} {m m' : Raw} (k0 : Nat)
    (hmain : ∀ k, k ≠ k0 → k ∈ keysOf m.main.ents → k ∈ keysOf m'.main.ents)
    (hold : ∀ k, k ≠ k0 → k ∈ keysOf (oldEnts m) → k ∈ keysOf (oldEnts m')) :
    ∀ (ks : List Nat) (i : Nat), k0 ∉ ks → Placed nMain i ks m → Placed nMain i ks m' := by
  intro ks
  induction ks with
  | nil => intro i _ _; trivial
  | cons k rest ih =>
    intro i hnot ⟨h1, h2⟩
    have hk : k ≠ k0 := fun h => hnot (by rw [h]; exact List.mem_cons_self)
    refine ⟨?_, ih (i + 1) (fun h => hnot (List.mem_cons_of_mem _ h)) h2⟩
    unfold PlacedAt at *
    split
    · rename_i hlt; simp only [hlt, if_true] at h1; exact hmain k hk h1
    · rename_i hlt; simp only [hlt, if_false] at h1; exact hold k hk h1

theorem find_of_placed {R : Nat} {m : Raw} (h : Inv R m) {nMain i k : Nat} (hp : PlacedAt nMain i k m) :
    ∃ e, m.find k = some (Map.locOfIndex nMain i k, e) := by
  unfold PlacedAt at hp
  unfold Map.locOfIndex
  by_cases hlt : i < nMain
  · simp only [hlt, if_true] at hp
    simp only [keysOf, List.mem_map] at hp
    obtain ⟨e, he, hk⟩ := hp
    refine ⟨e, (find_some_iff h k _ e).2 ⟨hk, rfl, Or.inl ⟨by simp [hlt], he⟩⟩⟩
  · simp only [hlt, if_false] at hp
    unfold oldEnts at hp
    cases hlo : m.lo with
    | none => rw [hlo] at hp; simp [keysOf] at hp
    | some o =>
      rw [hlo] at hp
      simp only [keysOf, List.mem_map] at hp
      obtain ⟨e, he, hk⟩ := hp
      exact ⟨e, (find_some_iff h k _ e).2 ⟨hk, rfl, Or.inr ⟨by simp [hlt], o, hlo, he⟩⟩⟩

/-- the value bump keeps the invariant, the keys of both tables, and rewrites exactly that key -/
theorem bump_spec {R : Nat} {m : Raw} (h : Inv R m) {nMain i k : Nat} (add : Nat) (hp : PlacedAt nMain i k m) :
    Inv R (Map.bump m (Map.locOfIndex nMain i k) add) ∧
    keysOf (Map.bump m (Map.locOfIndex nMain i k) add).main.ents = keysOf m.main.ents ∧
    keysOf (oldEnts (Map.bump m (Map.locOfIndex nMain i k) add)) = keysOf (oldEnts m) ∧
    (∀ k', absOf (Map.bump m (Map.locOfIndex nMain i k) add) k' = specMap (absOf m) k (bumpE k add) k') ∧
    (Map.bump m (Map.locOfIndex nMain i k) add).main.buckets = m.main.buckets ∧
    (Map.bump m (Map.locOfIndex nMain i k) add).main.gl = m.main.gl ∧
    (Map.bump m (Map.locOfIndex nMain i k) add).lo.isSome = m.lo.isSome := by
  unfold PlacedAt at hp
  unfold Map.bump Map.locOfIndex
  have hfun : (fun x : Entry => if x.k == k then { x with v := x.v + add } else x) = bumpE k add := rfl
  by_cases hlt : i < nMain
  · simp only [hlt, if_true] at hp
    simp only [hlt, decide_true, if_true, hfun]
    refine ⟨h.map_main _ (bumpE_k k add), ?_, by triv, ?_, by triv, by triv, by triv⟩
    · exact keysOf_map_same _ (bumpE_k k add)
    · exact abs_mapMain m k _ (bumpE_k k add) (fun e he => bumpE_other he) hp
  · simp only [hlt, if_false] at hp
    simp only [hlt, decide_false, Bool.false_eq_true, if_false, hfun]
    have hnin : k ∉ keysOf m.main.ents := by
      intro hm
      unfold oldEnts at hp
      cases hlo : m.lo with
      | none => rw [hlo] at hp; simp [keysOf] at hp
      | some o => rw [hlo] at hp; exact h.disjoint hlo hm hp
    refine ⟨h.map_old _ (bumpE_k k add), by triv, ?_, ?_, by triv, by triv, ?_⟩
    · unfold oldEnts; cases m.lo <;> simp [Option.map, keysOf_map_same _ (bumpE_k k add)]
    · exact abs_mapOld m k _ (bumpE_k k add) (fun e he => bumpE_other he) hnin
    · cases m.lo <;> rfl

theorem mem_keys_filter {es : List Entry} {k k0 : Nat} (hk : k ≠ k0) (h : k ∈ keysOf es) :
    k ∈ keysOf (es.filter (fun x => x.k != k0)) := by
  simp only [keysOf, List.mem_map, List.mem_filter] at *
  obtain ⟨e, he, hek⟩ := h
  exact ⟨e, ⟨he, by simp [hek, hk]⟩, hek⟩

/-- `erase` / `remove` touch only the element with the located key -/
theorem eraseAt_tables {t t' : Raw} {loc : Loc} {b : Bool} {c : Cost}
    (h : Raw.eraseAt t loc b = .ok (t', c)) :
    (∀ k, k ≠ loc.k → k ∈ keysOf t.main.ents → k ∈ keysOf t'.main.ents) ∧
    (∀ k, k ≠ loc.k → k ∈ keysOf (oldEnts t) → k ∈ keysOf (oldEnts t')) := by
  unfold Raw.eraseAt at h
  by_cases hm : loc.inMain = true
  · simp only [hm, if_true] at h
    unfold HB.removeKey at h
    cases hf : t.main.find? loc.k with
    | none => rw [hf] at h; cases h
    | some e =>
      rw [hf] at h
      injection h with h; injection h with h1 _; subst h1
      exact ⟨fun k hk hin => mem_keys_filter hk hin, fun k _ hin => hin⟩
  · simp only [hm, Bool.false_eq_true, if_false] at h
    cases hlo : t.lo with
    | none => rw [hlo] at h; cases h
    | some o =>
      rw [hlo] at h
      simp only at h
      cases hf : o.ents.find? (fun e => e.k == loc.k) with
      | none => rw [hf] at h; cases h
      | some e =>
        rw [hf] at h
        injection h with h; injection h with h1 _; subst h1
        refine ⟨fun k _ hin => hin, fun k hk hin => ?_⟩
        simp only [oldEnts, hlo] at hin ⊢
        exact mem_keys_filter hk hin

theorem removeAt_tables {t t' : Raw} {loc : Loc} {b : Bool} {c : Cost} {e : Entry}
    (h : Raw.removeAt t loc b = .ok (t', e, c)) :
    (∀ k, k ≠ loc.k → k ∈ keysOf t.main.ents → k ∈ keysOf t'.main.ents) ∧
    (∀ k, k ≠ loc.k → k ∈ keysOf (oldEnts t) → k ∈ keysOf (oldEnts t')) := by
  unfold Raw.removeAt at h
  by_cases hm : loc.inMain = true
  · simp only [hm, if_true] at h
    unfold HB.removeKey at h
    cases hf : t.main.find? loc.k with
    | none => rw [hf] at h; cases h
    | some e =>
      rw [hf] at h
      injection h with h; injection h with h1 _; subst h1
      exact ⟨fun k hk hin => mem_keys_filter hk hin, fun k _ hin => hin⟩
  · simp only [hm, Bool.false_eq_true, if_false] at h
    cases hlo : t.lo with
    | none => rw [hlo] at h; cases h
    | some o =>
      rw [hlo] at h
      simp only at h
      cases hf : o.ents.find? (fun e => e.k == loc.k) with
      | none => rw [hf] at h; cases h
      | some e =>
        rw [hf] at h
        simp only at h
        split at h
        · rename_i hz
          injection h with h; injection h with h1 _; subst h1
          refine ⟨fun k _ hin => hin, fun k hk hin => ?_⟩
          simp only [oldEnts, hlo] at hin
          have := mem_keys_filter hk hin
          rw [List.eq_nil_of_length_eq_zero hz] at this
          simp [keysOf] at this
        · injection h with h; injection h with h1 _; subst h1
          refine ⟨fun k _ hin => hin, fun k hk hin => ?_⟩
          simp only [oldEnts, hlo] at hin ⊢
          exact mem_keys_filter hk hin

/-- abstract effect of `retain`'s loop over the visiting order `ks` -/
def specRetain (p : Pred) (a : Nat → Option Entry) (ks : List Nat) (k' : Nat) : Option Entry :=
  if k' ∈ ks then (if p.test k' then (a k').map (bumpE k' p.add) else none) else a k'

theorem specRetain_nil (p : Pred) (a : Nat → Option Entry) : specRetain p a [] = a := by
  funext k'; simp [specRetain]

theorem specRetain_cons_keep (p : Pred) (a : Nat → Option Entry) (k : Nat) (rest : List Nat)
    (hk : k ∉ rest) (ht : p.test k = true) :
    specRetain p (specMap a k (bumpE k p.add)) rest = specRetain p a (k :: rest) := by
  funext k'
  unfold specRetain specMap
  by_cases hkk : k' = k
  · subst hkk; simp [hk, ht]
  · by_cases hr : k' ∈ rest <;> simp [hkk, hr]

theorem specRetain_cons_drop (p : Pred) (a : Nat → Option Entry) (k : Nat) (rest : List Nat)
    (hk : k ∉ rest) (ht : p.test k = false) :
    specRetain p (specDel (specMap a k (bumpE k p.add)) k) rest = specRetain p a (k :: rest) := by
  funext k'
  unfold specRetain specMap specDel
  by_cases hkk : k' = k
  · subst hkk; simp [hk, ht]
  · by_cases hr : k' ∈ rest <;> simp [hkk, hr]

/-- **`retain`'s loop**: for every visiting order whose keys are where the iterator says they are,
    it never faults, keeps the invariant (an emptied old table stays parked), and leaves exactly
    the visited entries that pass the predicate, with the closure's mutation applied. -/
theorem retainLoop_spec {R : Nat} (hR : 0 < R) (p : Pred) (nMain : Nat) :
    ∀ (ks : List Nat) (i : Nat) (m : Map) (empt : Nat) (cost : Cost),
      Inv R m → ks.Nodup → Placed nMain i ks m →
      ∃ m' cost', Map.retainLoop p nMain ks i m empt cost = .ok (m', cost') ∧ Inv R m' ∧
        absOf m' = specRetain p (absOf m) ks ∧
        m'.main.buckets = m.main.buckets ∧ m.main.gl ≤ m'.main.gl ∧ m'.lo.isSome = m.lo.isSome ∧
        cost'.allocs = cost.allocs ∧ cost'.frees = cost.frees ∧ cost'.hashes = cost.hashes ∧ cost'.moved = cost.moved := by
  intro ks
  induction ks with
  | nil =>
    intro i m empt cost h _ _
    exact ⟨m, cost, rfl, h, by rw [specRetain_nil], rfl, Nat.le_refl _, rfl, rfl, rfl, rfl, rfl⟩
  | cons k rest ih =>
    intro i m empt cost h hnd ⟨hp1, hp2⟩
    rw [List.nodup_cons] at hnd
    obtain ⟨b1, b2, b3, b4, b5, b6, b7⟩ := bump_spec h p.add hp1
    have hplaced1 : Placed nMain (i + 1) rest (Map.bump m (Map.locOfIndex nMain i k) p.add) :=
      Placed.of_keep k (fun k' _ hin => by rw [b2]; exact hin) (fun k' _ hin => by rw [b3]; exact hin)
        rest (i + 1) hnd.1 hp2
    unfold Map.retainLoop
    dsimp only
    cases ht : p.test k with
    | true =>
      simp only [if_true]
      obtain ⟨m', c', hr, hi, ha, hb, hg, hl, c1, c2, c3, c4⟩ :=
        ih (i + 1) _ empt cost b1 hnd.2 hplaced1
      refine ⟨m', c', hr, hi, ?_, by rw [hb, b5], by rw [b6] at hg; exact hg, by rw [hl, b7], c1, c2, c3, c4⟩
      rw [ha, funext b4]
      exact specRetain_cons_keep p (absOf m) k rest hnd.1 ht
    | false =>
      simp only [Bool.false_eq_true, if_false]
      have hp1' : PlacedAt nMain i k (Map.bump m (Map.locOfIndex nMain i k) p.add) := by
        unfold PlacedAt at hp1 ⊢
        split
        · rename_i hlt; simp only [hlt, if_true] at hp1; rw [b2]; exact hp1
        · rename_i hlt; simp only [hlt, if_false] at hp1; rw [b3]; exact hp1
      obtain ⟨e1, hf1⟩ := find_of_placed b1 hp1'
      obtain ⟨m2, ec, he, hi2, hperm, hb2, hg2, ea, eh, em, ef, _, hl2⟩ :=
        eraseAt_spec hR b1 hf1 (decide (0 < empt))
      rw [he]
      dsimp only
      have hk1 := (find_loc b1 hf1).2.1
      have htab := eraseAt_tables he
      have hlk : (Map.locOfIndex nMain i k).k = k := rfl
      have hplaced2 : Placed nMain (i + 1) rest m2 :=
        Placed.of_keep k (fun k' hk' hin => htab.1 k' (by rw [hlk]; exact hk') hin)
          (fun k' hk' hin => htab.2 k' (by rw [hlk]; exact hk') hin) rest (i + 1) hnd.1 hplaced1
      obtain ⟨m', c', hr, hi, ha, hb, hg, hl, c1, c2, c3, c4⟩ :=
        ih (i + 1) m2 (if (Map.locOfIndex nMain i k).inMain then empt - 1 else empt) (cost + ec) hi2 hnd.2 hplaced2
      refine ⟨m', c', hr, hi, ?_, by rw [hb, hb2, b5], by omega, by rw [hl, hl2, b7], ?_, ?_, ?_, ?_⟩
      · rw [ha]
        have ha2 : absOf m2 = specDel (specMap (absOf m) k (bumpE k p.add)) k := by
          funext k'
          rw [abs_of_cons_perm hperm b1.nodup k', hk1, funext b4]
        rw [ha2]
        exact specRetain_cons_drop p (absOf m) k rest hnd.1 ht
      · rw [c1]; simp [ea]
      · rw [c2]; simp [ef]
      · rw [c3]; simp [eh]
      · rw [c4]; simp [em]

/-- the shape `iterOrderOk` demands puts every key where the iterator will say it is -/
theorem placed_of_iterOrderOk {R : Nat} (m : Map) (order : List Nat) (h : Inv R m)
    (hok : Map.iterOrderOk m order = true) :
    Placed m.main.ents.length 0 order m ∧ order.Nodup ∧ (∀ k, k ∈ order ↔ k ∈ keysOf m.ents) := by
  unfold Map.iterOrderOk at hok
  simp only [Bool.and_eq_true, decide_eq_true_eq, List.all_eq_true] at hok
  obtain ⟨⟨⟨hlen, hnd⟩, hall⟩, hold⟩ := hok
  have hsplit : order = order.take m.main.ents.length ++ order.drop m.main.ents.length :=
    (List.take_append_drop _ _).symm
  have holdk : order.drop m.main.ents.length = keysOf (oldEnts m) := by
    rw [hold]; unfold oldEnts keysOf
    cases hlo : m.lo with
    | none => rfl
    | some o => simp only; rw [h.agree o hlo, List.take_length]
  have hmaink : ∀ k ∈ order.take m.main.ents.length, k ∈ keysOf m.main.ents := by
    intro k hk
    have := hall k hk
    unfold HB.find? at this
    cases hf : m.main.ents.find? (fun e => e.k == k) with
    | none => rw [hf] at this; cases this
    | some e => have := find_key_some hf; rw [← this.2]; exact List.mem_map_of_mem this.1
  -- general placement lemma for a prefix in main and a suffix in old
  have hplace : ∀ (l : List Nat) (i : Nat),
      (∀ j (hj : j < l.length), (i + j < m.main.ents.length → l[j] ∈ keysOf m.main.ents) ∧
        (¬ i + j < m.main.ents.length → l[j] ∈ keysOf (oldEnts m))) →
      Placed m.main.ents.length i l m := by
    intro l
    induction l with
    | nil => intro i _; trivial
    | cons a rest ih =>
      intro i hl
      refine ⟨?_, ih (i + 1) (fun j hj => ?_)⟩
      · have := hl 0 (by simp)
        unfold PlacedAt
        split
        · rename_i hlt; exact this.1 (by simpa using hlt)
        · rename_i hlt; exact this.2 (by simpa using hlt)
      · have := hl (j + 1) (by simp; omega)
        simp only [List.getElem_cons_succ] at this
        constructor
        · intro hlt; exact this.1 (by omega)
        · intro hlt; exact this.2 (by omega)
  refine ⟨hplace order 0 (fun j hj => ?_), ?_, ?_⟩
  · constructor
    · intro hlt
      apply hmaink
      rw [List.mem_take_iff_getElem]
      exact ⟨j, by simp at hlt; omega, rfl⟩
    · intro hlt
      rw [← holdk]
      rw [List.mem_drop_iff_getElem]
      refine ⟨j - m.main.ents.length, ?_, ?_⟩
      · simp at hlt; omega
      · simp at hlt; congr 1; omega
  · -- duplicate-free: main part is, old part is, and they are disjoint
    rw [hsplit, List.nodup_append]
    refine ⟨hnd, ?_, ?_⟩
    · rw [holdk]; unfold oldEnts
      cases hlo : m.lo with
      | none => simp [keysOf]
      | some o => exact h.old_nodup hlo
    · intro a ha b hb hab
      subst hab
      rw [holdk] at hb
      unfold oldEnts at hb
      cases hlo : m.lo with
      | none => rw [hlo] at hb; simp [keysOf] at hb
      | some o => rw [hlo] at hb; exact h.disjoint hlo (hmaink a ha) hb
  · intro k
    rw [hsplit, List.mem_append, holdk]
    have hents : keysOf m.ents = keysOf m.main.ents ++ keysOf (oldEnts m) := by
      unfold Raw.ents oldEnts keysOf; rw [List.map_append]; cases m.lo <;> rfl
    rw [hents, List.mem_append]
    constructor
    · rintro (h1 | h1)
      · exact Or.inl (hmaink k h1)
      · exact Or.inr h1
    · rintro (h1 | h1)
      · left
        -- the main part is a duplicate-free list of main keys as long as the main table: it has them all
        have hsub : order.take m.main.ents.length ⊆ keysOf m.main.ents := hmaink
        have hperm := (List.subperm_of_subset hnd hsub).perm_of_length_le (by simp [keysOf, hlen])
        exact hperm.mem_iff.2 h1
      · exact Or.inr h1

/-- **`retain(f)`**: `f` is called exactly once per element (the visiting order is a
    duplicate-free enumeration of all keys), exactly the elements for which it returned `true`
    are kept, with the mutation it made; the invariant holds afterwards — also when the call
    empties the old table (which then stays parked until the next key-adding call). -/
theorem Map.retain_spec {R : Nat} (hR : 0 < R) (m : Map) (p : Pred) (o : Orc) (h : Inv R m) :
    OkOr (Map.retain m p o) (fun r =>
      Inv R r.1 ∧ o.calls.Nodup ∧ (∀ k, k ∈ o.calls ↔ k ∈ keysOf m.ents) ∧
      (∀ k, absOf r.1 k = if p.test k then (absOf m k).map (bumpE k p.add) else none) ∧
      r.1.lo.isSome = m.lo.isSome ∧ r.1.main.buckets = m.main.buckets ∧ r.2.cost.allocs = 0 ∧ r.2.cost.hashes = 0) := by
  unfold Map.retain
  cases hok : Map.iterOrderOk m o.calls with
  | false => simp [OkOr]
  | true =>
    simp only [Bool.not_true, Bool.false_eq_true, if_false]
    obtain ⟨hpl, hnd, hcov⟩ := placed_of_iterOrderOk m o.calls h hok
    obtain ⟨m', c', hr, hi, ha, hb, _, hl, c1, _, c3, _⟩ :=
      retainLoop_spec hR p m.main.ents.length o.calls 0 m o.empt {} h hnd hpl
    rw [hr]
    simp only [OkOr]
    refine ⟨hi, hnd, hcov, ?_, hl, hb, c1, c3⟩
    intro k
    rw [ha]
    unfold specRetain
    by_cases hk : k ∈ o.calls
    · simp [hk]
    · simp only [hk, if_false]
      have : absOf m k = none := (absOf_none_iff m k).2 (fun hin => hk ((hcov k).2 hin))
      rw [this]; split <;> rfl

/-! ### `drain_filter` -/

/-- abstract effect of visiting the keys `ks`: matching entries leave, the others get the mutation -/
def specDrain (p : Pred) (a : Nat → Option Entry) (ks : List Nat) (k' : Nat) : Option Entry :=
  if k' ∈ ks then (if p.test k' then none else (a k').map (bumpE k' p.add)) else a k'

/-- what the visit of `ks` yields, in order -/
def yieldOf (p : Pred) (a : Nat → Option Entry) (ks : List Nat) : List Entry :=
  ks.filterMap (fun k => if p.test k then (a k).map (bumpE k p.add) else none)

theorem specDrain_nil (p : Pred) (a : Nat → Option Entry) : specDrain p a [] = a := by
  funext k'; simp [specDrain]

theorem specDrain_append (p : Pred) (a : Nat → Option Entry) (l1 l2 : List Nat)
    (hdis : ∀ k, k ∈ l1 → k ∉ l2) :
    specDrain p (specDrain p a l1) l2 = specDrain p a (l1 ++ l2) := by
  funext k'
  unfold specDrain
  by_cases h2 : k' ∈ l2
  · have h1 : k' ∉ l1 := fun h => hdis k' h h2
    simp [h1, h2]
  · by_cases h1 : k' ∈ l1 <;> simp [h1, h2]

theorem yieldOf_congr (p : Pred) (a b : Nat → Option Entry) (ks : List Nat) (h : ∀ k ∈ ks, a k = b k) :
    yieldOf p a ks = yieldOf p b ks := by
  unfold yieldOf
  apply List.filterMap_congr
  intro k hk; rw [h k hk]

/-- **`drain_filter`'s loop** (`DrainFilter::next` called until `take` items came out, or to the
    end when `take = none`): it stops after a prefix `pre` of the visiting order; the state denotes
    the map with the matching visited entries removed and the others mutated; what was yielded are
    exactly the matching visited entries, in order; the invariant holds (an old table emptied on the
    way is released at once); the keys not yet visited are still where the iterator expects them. -/
theorem drainFilterLoop_spec {R : Nat} (hR : 0 < R) (p : Pred) (nMain : Nat) :
    ∀ (ks : List Nat) (i : Nat) (m : Map) (empt : Nat) (take : Option Nat) (acc : List Entry) (cost : Cost),
      Inv R m → ks.Nodup → Placed nMain i ks m →
      ∃ m' ys cost' restOut pre, Map.drainFilterLoop p nMain ks i m empt take acc cost = .ok (m', ys, cost', restOut) ∧
        ks = pre ++ restOut ∧ Inv R m' ∧ absOf m' = specDrain p (absOf m) pre ∧
        ys = acc.reverse ++ yieldOf p (absOf m) pre ∧
        Placed nMain (i + pre.length) restOut m' ∧
        (take = none → restOut = []) ∧
        (∀ t, take = some t → (yieldOf p (absOf m) pre).length ≤ t ∧
          (restOut ≠ [] → (yieldOf p (absOf m) pre).length = t)) ∧
        cost'.allocs = cost.allocs ∧ cost'.hashes = cost.hashes ∧ cost'.moved = cost.moved ∧
        cost'.dropped = cost.dropped := by
  intro ks
  induction ks with
  | nil =>
    intro i m empt take acc cost h _ _
    refine ⟨m, acc.reverse, cost, [], [], rfl, rfl, h, by rw [specDrain_nil], by simp [yieldOf], trivial,
      fun _ => rfl, fun t _ => ⟨by simp [yieldOf], fun hne => absurd rfl hne⟩, rfl, rfl, rfl, rfl⟩
  | cons k rest ih =>
    intro i m empt take acc cost h hnd ⟨hp1, hp2⟩
    rw [List.nodup_cons] at hnd
    unfold Map.drainFilterLoop
    by_cases ht0 : take = some 0
    · simp only [ht0, if_true]
      refine ⟨m, acc.reverse, cost, k :: rest, [], rfl, rfl, h, by rw [specDrain_nil], by simp [yieldOf],
        ⟨hp1, hp2⟩, fun hc => (by cases hc), fun t ht => ?_, rfl, rfl, rfl, rfl⟩
      injection ht with ht; subst ht
      exact ⟨by simp [yieldOf], fun _ => by simp [yieldOf]⟩
    · simp only [ht0, if_false]
      obtain ⟨b1, b2, b3, b4, b5, b6, b7⟩ := bump_spec h p.add hp1
      have hplaced1 : Placed nMain (i + 1) rest (Map.bump m (Map.locOfIndex nMain i k) p.add) :=
        Placed.of_keep k (fun k' _ hin => by rw [b2]; exact hin) (fun k' _ hin => by rw [b3]; exact hin)
          rest (i + 1) hnd.1 hp2
      cases htest : p.test k with
      | false =>
        simp only [Bool.false_eq_true, if_false]
        obtain ⟨m', ys, c', ro, pre, hr, hks, hi, ha, hy, hpl, hnone, htk, c1, c2, c3, c4⟩ :=
          ih (i + 1) _ empt take acc cost b1 hnd.2 hplaced1
        have hkpre : k ∉ pre := fun hin => hnd.1 (by rw [hks]; exact List.mem_append_left _ hin)
        have hyeq : yieldOf p (absOf (Map.bump m (Map.locOfIndex nMain i k) p.add)) pre = yieldOf p (absOf m) pre := by
          apply yieldOf_congr
          intro k' hk'
          rw [b4 k']; unfold specMap
          have : k' ≠ k := fun heq => hkpre (heq ▸ hk')
          simp [this]
        have hyk : yieldOf p (absOf m) (k :: pre) = yieldOf p (absOf m) pre := by
          simp [yieldOf, htest]
        refine ⟨m', ys, c', ro, k :: pre, hr, by rw [hks]; rfl, hi, ?_, ?_, ?_, hnone, ?_, c1, c2, c3, c4⟩
        · rw [ha, funext b4]
          funext k'
          unfold specDrain specMap
          by_cases hkk : k' = k
          · subst hkk; simp [hkpre, htest]
          · by_cases hr' : k' ∈ pre <;> simp [hkk, hr']
        · rw [hy, hyeq, hyk]
        · simp only [List.length_cons]; rw [show i + (pre.length + 1) = i + 1 + pre.length by omega]; exact hpl
        · intro t ht; rw [hyk]; rw [hyeq] at htk; exact htk t ht
      | true =>
        simp only [if_true]
        have hp1' : PlacedAt nMain i k (Map.bump m (Map.locOfIndex nMain i k) p.add) := by
          unfold PlacedAt at hp1 ⊢
          split
          · rename_i hlt; simp only [hlt, if_true] at hp1; rw [b2]; exact hp1
          · rename_i hlt; simp only [hlt, if_false] at hp1; rw [b3]; exact hp1
        obtain ⟨e1, hf1⟩ := find_of_placed b1 hp1'
        obtain ⟨m2, rc, he, hi2, hperm, hb2, hg2, ra, rh, rm, rd, _, _⟩ :=
          removeAt_spec hR b1 hf1 (decide (0 < empt))
        rw [he]
        dsimp only
        have hk1 := (find_loc b1 hf1).2.1
        have htab := removeAt_tables he
        have hlk : (Map.locOfIndex nMain i k).k = k := rfl
        have hplaced2 : Placed nMain (i + 1) rest m2 :=
          Placed.of_keep k (fun k' hk' hin => htab.1 k' (by rw [hlk]; exact hk') hin)
            (fun k' hk' hin => htab.2 k' (by rw [hlk]; exact hk') hin) rest (i + 1) hnd.1 hplaced1
        obtain ⟨m', ys, c', ro, pre, hr, hks, hi, ha, hy, hpl, hnone, htk, c1, c2, c3, c4⟩ :=
          ih (i + 1) m2 (if (Map.locOfIndex nMain i k).inMain then empt - 1 else empt)
            (take.map (· - 1)) (e1 :: acc) (cost + rc) hi2 hnd.2 hplaced2
        have hkpre : k ∉ pre := fun hin => hnd.1 (by rw [hks]; exact List.mem_append_left _ hin)
        have ha2 : absOf m2 = specDel (specMap (absOf m) k (bumpE k p.add)) k := by
          funext k'
          rw [abs_of_cons_perm hperm b1.nodup k', hk1, funext b4]
        -- the element handed out is the stored one, mutated
        have he1 : (absOf m k).map (bumpE k p.add) = some e1 := by
          have := find_eq_abs b1 k
          rw [hf1] at this
          simp only [Option.map] at this
          rw [b4 k] at this
          unfold specMap at this
          simp only [if_true] at this
          exact this.symm
        have hyeq : yieldOf p (absOf m2) pre = yieldOf p (absOf m) pre := by
          apply yieldOf_congr
          intro k' hk'
          rw [ha2]; unfold specDel specMap
          have : k' ≠ k := fun heq => hkpre (heq ▸ hk')
          simp [this]
        have hyk : yieldOf p (absOf m) (k :: pre) = e1 :: yieldOf p (absOf m) pre := by
          simp only [yieldOf, List.filterMap_cons, htest, if_true, he1]
        refine ⟨m', ys, c', ro, k :: pre, hr, by rw [hks]; rfl, hi, ?_, ?_, ?_, ?_, ?_, ?_, ?_, ?_, ?_⟩
        · rw [ha, ha2]
          funext k'
          unfold specDrain specMap specDel
          by_cases hkk : k' = k
          · subst hkk; simp [hkpre, htest]
          · by_cases hr' : k' ∈ pre <;> simp [hkk, hr']
        · rw [hy, hyeq, hyk]; simp
        · simp only [List.length_cons]; rw [show i + (pre.length + 1) = i + 1 + pre.length by omega]; exact hpl
        · intro hn; apply hnone; rw [hn]; rfl
        · intro t ht
          rw [hyk]
          have ht' : take.map (· - 1) = some (t - 1) := by rw [ht]; rfl
          have := htk (t - 1) ht'
          rw [hyeq] at this
          have htpos : 0 < t := by
            rcases Nat.eq_zero_or_pos t with h0 | h0
            · exfalso; apply ht0; rw [ht, h0]
            · exact h0
          simp only [List.length_cons]
          exact ⟨by omega, fun hne => by have := this.2 hne; omega⟩
        · rw [c1]; simp [ra]
        · rw [c2]; simp [rh]
        · rw [c3]; simp [rm]
        · rw [c4]; simp [rd]

/-- **`drain_filter(f)`** pulled `take` times, then dropped or forgotten.  It yields exactly the
    matching entries among those visited (each once, in visiting order, at most `take`); if the
    iterator is *forgotten* only those are gone (entries visited but not matching keep the
    closure's mutation, the rest of the map is untouched); if it is *dropped* every remaining
    matching entry is removed as well.  The invariant holds in all cases. -/
theorem Map.drainFilter_spec {R : Nat} (hR : 0 < R) (m : Map) (p : Pred) (take : Nat) (forget : Bool) (o : Orc)
    (h : Inv R m) :
    OkOr (Map.drainFilter m p take forget o) (fun r =>
      Inv R r.1 ∧ ∃ pre rest, o.calls = pre ++ rest ∧
        r.2.ret = .ents (yieldOf p (absOf m) pre) ∧ (yieldOf p (absOf m) pre).length ≤ take ∧
        (forget = true → absOf r.1 = specDrain p (absOf m) pre) ∧
        (forget = false → ∀ k, absOf r.1 k = if p.test k then none else (absOf m k).map (bumpE k p.add))) := by
  unfold Map.drainFilter
  cases hok : Map.iterOrderOk m o.calls with
  | false => simp [OkOr]
  | true =>
    simp only [Bool.not_true, Bool.false_eq_true, if_false]
    obtain ⟨hpl, hnd, hcov⟩ := placed_of_iterOrderOk m o.calls h hok
    obtain ⟨m1, ys, c1, ro, pre, hr, hks, hi, ha, hy, hpl1, _, htk, _⟩ :=
      drainFilterLoop_spec hR p m.main.ents.length o.calls 0 m o.empt (some take) [] {} h hnd hpl
    rw [hr]
    dsimp only
    have hys : ys = yieldOf p (absOf m) pre := by simpa using hy
    cases forget with
    | true =>
      simp only [if_true, OkOr]
      exact ⟨hi, pre, ro, hks, by rw [hys], (htk take rfl).1, fun _ => ha, fun hc => (by cases hc)⟩
    | false =>
      simp only [Bool.false_eq_true, if_false]
      have hlen : o.calls.length - ro.length = 0 + pre.length := by rw [hks]; simp
      rw [hlen]
      have hndro : ro.Nodup := by rw [hks] at hnd; exact (List.nodup_append.1 hnd).2.1
      obtain ⟨m2, ys2, c2, ro2, pre2, hr2, hks2, hi2, ha2, _, _, hnone2, _, _⟩ :=
        drainFilterLoop_spec hR p m.main.ents.length ro (0 + pre.length) m1
          (o.empt - (ys.filter (fun e => (m.main.find? e.k).isSome)).length) none [] {} hi hndro hpl1
      rw [hr2]
      simp only [OkOr]
      refine ⟨hi2, pre, ro, hks, by rw [hys], (htk take rfl).1, fun hc => (by cases hc), fun _ k => ?_⟩
      have hro2 : ro2 = [] := hnone2 rfl
      rw [hro2, List.append_nil] at hks2
      rw [ha2, ha, ← hks2]
      have hdis : ∀ k, k ∈ pre → k ∉ ro := by
        intro k hk hk2
        rw [hks] at hnd
        exact (List.nodup_append.1 hnd).2.2 k hk k hk2 rfl
      rw [specDrain_append p (absOf m) pre ro hdis, ← hks]
      unfold specDrain
      by_cases hk : k ∈ o.calls
      · simp [hk]
      · simp only [hk, if_false]
        have : absOf m k = none := (absOf_none_iff m k).2 (fun hin => hk ((hcov k).2 hin))
        rw [this]; split <;> rfl

end Griddle
