/-
  Entry / raw-entry handle chains: a handle obtained from a lookup stays coherent with the map
  through every step, including steps that grow the table or carry elements.
-/
import GriddleModel.Lemmas.Retain
namespace Griddle

/-- elements of the main table stay in the main table across `carry` -/
theorem carry_keeps_main (c : Cfg) (hR : 0 < c.R) (t : Raw) (hits : Nat)
    (hwf : t.main.WF) (hag : ∀ o, t.lo = some o → o.cursor = o.ents.length)
    (hhead : ∀ o, t.lo = some o → o.ents.length + ceilDiv o.ents.length c.R ≤ t.main.gl + 1)
    (hnd : (keysOf t.ents).Nodup) :
    OkOr (Raw.carry c t hits) (fun r => ∀ x ∈ t.main.ents, x ∈ r.1.main.ents) := by
  unfold Raw.carry
  cases hlo : t.lo with
  | none => simp [OkOr]
  | some o =>
    have hago := hag o hlo
    have hh := hhead o hlo
    have hroom : min c.R o.ents.length ≤ t.main.gl := by
      rcases Nat.eq_zero_or_pos o.ents.length with h0 | hpos
      · rw [h0]; simp
      · have := ceilDiv_pos o.ents.length c.R hR hpos
        have : min c.R o.ents.length ≤ o.ents.length := Nat.min_le_right _ _
        omega
    have hsp := carryLoop_spec c.R t.main o hits {} hwf hago hroom
    dsimp only
    cases hres : Raw.carryLoop t.main o c.R hits {} with
    | error f => rw [hres] at hsp; simpa [OkOr] using hsp
    | ok r =>
      obtain ⟨m, lo', h', cost'⟩ := r
      rw [hres] at hsp
      simp only [OkOr] at hsp ⊢
      obtain ⟨_, _, _, _, h5, _⟩ := hsp
      intro x hx
      have hxin : x ∈ m.ents ++ o.ents.drop c.R := h5.mem_iff.2 (List.mem_append_left _ hx)
      rcases List.mem_append.1 hxin with h1 | h2
      · exact h1
      · exfalso
        have hx2 : x ∈ o.ents := List.mem_of_mem_drop h2
        have hnd' := hnd
        simp only [Raw.ents, hlo, keysOf, List.map_append] at hnd'
        exact (List.nodup_append.1 hnd').2.2 x.k (List.mem_map_of_mem hx) x.k (List.mem_map_of_mem hx2) rfl

/-- the element a key-adding call stores is in the main table when the call returns (after any
    growth and carry it performed): the bucket it returns designates it -/
theorem Raw.insert_in_main (c : Cfg) (hR : 0 < c.R) (t : Raw) (e : Entry) (hits : Nat) (perm : List Nat)
    (h : Inv c.R t) (hfresh : e.k ∉ keysOf t.ents) :
    OkOrCap (Raw.insert c t e hits perm) (fun r => e ∈ r.1.main.ents) := by
  -- reduce to: insert_no_grow on an invariant state with room
  have core : ∀ (t1 : Raw), Inv c.R t1 → 0 < t1.main.gl → e.k ∉ keysOf t1.ents →
      OkOr (Raw.insertNoGrow c t1 e hits) (fun r => e ∈ r.1.main.ents) := by
    intro t1 h1 hroom hf1
    unfold Raw.insertNoGrow
    have hins := HB.insertNoGrow_spec t1.main e (decide (0 < hits)) h1.wf hroom
    cases hres : t1.main.insertNoGrow e (decide (0 < hits)) with
    | error f => rw [hres] at hins; simpa [OkOr] using hins
    | ok m =>
      rw [hres] at hins
      simp only [OkOr] at hins
      obtain ⟨hb, he, hwf', hgl1, hgl2⟩ := hins
      dsimp only
      cases hlo : t1.lo with
      | none => simp [OkOr, he]
      | some o =>
        simp only [Option.isSome, if_true]
        have hents' : Raw.ents { main := m, lo := some o } = e :: t1.ents := by simp [Raw.ents, he, hlo]
        have hnd' : (keysOf (Raw.ents { main := m, lo := some o })).Nodup := by
          rw [hents']; simp only [keysOf, List.map_cons, List.nodup_cons]; exact ⟨hf1, h1.nodup⟩
        have hk := carry_keeps_main c hR { main := m, lo := some o } (hits - 1) hwf'
          (fun o' ho' => by cases ho'; exact h1.agree o hlo)
          (fun o' ho' => by cases ho'; have := (h1.head o hlo).1; show o.ents.length + ceilDiv o.ents.length c.R ≤ m.gl + 1; omega)
          hnd'
        cases hcr : Raw.carry c { main := m, lo := some o } (hits - 1) with
        | error f => rw [hcr] at hk; simpa [OkOr] using hk
        | ok r =>
          rw [hcr] at hk
          simp only [OkOr] at hk ⊢
          exact hk e (by rw [he]; exact List.mem_cons_self)
  unfold Raw.insert
  by_cases hgl : t.main.gl = 0
  · simp only [hgl, if_true]
    have hlo : t.lo = none := by
      cases hlo : t.lo with
      | none => rfl
      | some o => have := (h.head o hlo).2; omega
    simp only [hlo, Option.isSome, Bool.false_eq_true, if_false]
    unfold Raw.grow
    have hg := tryGrow_inv c hR t 1 perm h hlo
    cases hgr : Raw.tryGrow c t 1 perm with
    | error f => rw [hgr] at hg; simp only [OkOr] at hg; simp only [OkOrCap]; exact Or.inl hg
    | ok r =>
      obtain ⟨t1, err, c1⟩ := r
      rw [hgr] at hg
      simp only [OkOr] at hg
      cases err with
      | some er => cases er <;> simp [OkOrCap]
      | none =>
        dsimp only
        obtain ⟨g1, g2, _, _, _, _, g7, _⟩ := hg
        have hroom1 : 0 < t1.main.gl := by
          have := g7 rfl
          have hcl := C04aux_cap_ge_len g1
          unfold Raw.capacity HB.capacity at this hcl
          -- capacity ≥ len + 1 and len ≥ main items
          unfold Raw.len at this hcl
          cases h1 : t1.lo <;> simp only [h1] at this hcl <;> omega
        have hf1 : e.k ∉ keysOf t1.ents := fun hin => hfresh ((keysOf_perm g2).mem_iff.1 hin)
        have := core t1 g1 hroom1 hf1
        cases hin : Raw.insertNoGrow c t1 e hits with
        | error f => rw [hin] at this; simp only [OkOr] at this; simp only [OkOrCap]; exact Or.inl this
        | ok r2 => rw [hin] at this; simp only [OkOr] at this; simp only [OkOrCap]; exact this
  · simp only [hgl, if_false]
    exact (core t h (Nat.pos_of_ne_zero hgl) hfresh).toCap

/-- a handle is coherent with the map: an occupied handle designates the element stored for its
    key, in the table it says; a vacant handle's key is absent -/
def HandleOK (m : Map) (k : Nat) : Map.ES → Prop
  | .occ loc _ => ∃ e, m.find k = some (loc, e)
  | .vac _ => m.find k = none
  | .done => True

theorem valueAt_of_find {R : Nat} {m : Map} (h : Inv R m) {k : Nat} {loc : Loc} {e : Entry}
    (hf : m.find k = some (loc, e)) : Map.valueAt m loc = some e := by
  obtain ⟨hek, hlk, hor⟩ := (find_some_iff h k loc e).1 hf
  unfold Map.valueAt
  rcases hor with ⟨hm, hin⟩ | ⟨hm, o, ho, hin⟩
  · simp only [hm, if_true]
    unfold HB.find?; rw [hlk, ← hek]; exact find_key_of_mem h.main_nodup hin
  · simp only [hm, Bool.false_eq_true, if_false, ho]
    rw [hlk, ← hek]; exact find_key_of_mem (h.old_nodup ho) hin

/-- writing a value through a handle: the element stays where it is, the invariant holds, and a
    lookup finds the written value -/
theorem setValAt_spec {R : Nat} {m : Map} (h : Inv R m) {k : Nat} {loc : Loc} {e : Entry}
    (hf : m.find k = some (loc, e)) (v vid : Nat) :
    Inv R (Map.setValAt m loc v vid) ∧
    (Map.setValAt m loc v vid).find k = some (loc, { e with v := v, vid := vid }) ∧
    (∀ k', absOf (Map.setValAt m loc v vid) k' = specUpd (absOf m) k v vid k') := by
  obtain ⟨hek, hlk, hor⟩ := (find_some_iff h k loc e).1 hf
  unfold Map.setValAt
  rcases hor with ⟨hm, hin⟩ | ⟨hm, o, ho, hin⟩
  · simp only [hm, if_true]
    have hi : Inv R { m with main := m.main.setVal loc.k v vid } := h.map_main (updVal loc.k v vid) (updVal_k _ _ _)
    have hkin : k ∈ keysOf m.main.ents := by rw [← hek]; exact List.mem_map_of_mem hin
    refine ⟨hi, ?_, ?_⟩
    · apply (find_some_iff hi k loc _).2
      refine ⟨hek, hlk, Or.inl ⟨hm, ?_⟩⟩
      have : ({ e with v := v, vid := vid } : Entry) = updVal loc.k v vid e := by
        unfold updVal; simp [hlk, hek]
      rw [this]
      exact List.mem_map_of_mem hin
    · intro k'; rw [hlk]; exact abs_setMain h k v vid hkin k'
  · simp only [hm, Bool.false_eq_true, if_false]
    have hi : Inv R { m with lo := m.lo.map (fun ol => { ol with ents := ol.ents.map (updVal loc.k v vid) }) } :=
      h.map_old (updVal loc.k v vid) (updVal_k _ _ _)
    have hknin : k ∉ keysOf m.main.ents := by
      intro hmem; exact h.disjoint ho hmem (by rw [← hek]; exact List.mem_map_of_mem hin)
    refine ⟨hi, ?_, ?_⟩
    · apply (find_some_iff hi k loc _).2
      refine ⟨hek, hlk, Or.inr ⟨hm, { o with ents := o.ents.map (updVal loc.k v vid) }, by simp [ho], ?_⟩⟩
      have : ({ e with v := v, vid := vid } : Entry) = updVal loc.k v vid e := by
        unfold updVal; simp [hlk, hek]
      rw [this]
      exact List.mem_map_of_mem hin
    · intro k'; rw [hlk]; exact abs_setOld h k v vid hknin k'

/-- replacing the stored key object (`replace_key`, `insert_key`): same element otherwise -/
theorem setKidAt_spec {R : Nat} {m : Map} (h : Inv R m) {k : Nat} {loc : Loc} {e : Entry}
    (hf : m.find k = some (loc, e)) (kid : Nat) :
    Inv R (Map.setKidAt m loc kid) ∧ (Map.setKidAt m loc kid).find k = some (loc, { e with kid := kid }) := by
  obtain ⟨hek, hlk, hor⟩ := (find_some_iff h k loc e).1 hf
  unfold Map.setKidAt
  have hfk : ∀ x : Entry, (if x.k == loc.k then { x with kid := kid } else x).k = x.k := by
    intro x; split <;> rfl
  rcases hor with ⟨hm, hin⟩ | ⟨hm, o, ho, hin⟩
  · simp only [hm, if_true]
    have hi : Inv R { m with main := m.main.setKid loc.k kid } :=
      h.map_main (fun x => if x.k == loc.k then { x with kid := kid } else x) hfk
    refine ⟨hi, ?_⟩
    apply (find_some_iff hi k loc _).2
    refine ⟨hek, hlk, Or.inl ⟨hm, ?_⟩⟩
    have : ({ e with kid := kid } : Entry) = (fun x : Entry => if x.k == loc.k then { x with kid := kid } else x) e := by
      simp [hlk, hek]
    rw [this]
    exact List.mem_map_of_mem hin
  · simp only [hm, Bool.false_eq_true, if_false]
    have hi : Inv R { m with lo := m.lo.map (fun ol => { ol with ents := ol.ents.map (fun x => if x.k == loc.k then { x with kid := kid } else x) }) } :=
      h.map_old (fun x => if x.k == loc.k then { x with kid := kid } else x) hfk
    refine ⟨hi, ?_⟩
    apply (find_some_iff hi k loc _).2
    refine ⟨hek, hlk, Or.inr ⟨hm, { o with ents := o.ents.map (fun x => if x.k == loc.k then { x with kid := kid } else x) }, by simp [ho], ?_⟩⟩
    have : ({ e with kid := kid } : Entry) = (fun x : Entry => if x.k == loc.k then { x with kid := kid } else x) e := by
      simp [hlk, hek]
    rw [this]
    exact List.mem_map_of_mem hin

/-- inserting through a vacant handle: afterwards the key designates the new element, which is
    in the main table — the handle `Entry::insert` returns (`occ ⟨true, k⟩`) is coherent -/
theorem vacInsert_handle (c : Cfg) (hR : 0 < c.R) (m : Map) (e : Entry) (hits : Nat) (perm : List Nat)
    (h : Inv c.R m) (hvac : m.find e.k = none) :
    OkOrCap (Raw.insert c m e hits perm) (fun r =>
      Inv c.R r.1 ∧ r.1.find e.k = some (⟨true, e.k⟩, e) ∧ r.2.2.moved ≤ c.R ∧ r.2.2.allocs ≤ 1) := by
  have hfresh : e.k ∉ keysOf m.ents := (find_none_iff h e.k).1 hvac
  have h1 := Raw.insert_spec c hR m e hits perm h hfresh
  have h2 := Raw.insert_in_main c hR m e hits perm h hfresh
  cases hr : Raw.insert c m e hits perm with
  | error f => rw [hr] at h1; exact h1
  | ok r =>
    rw [hr] at h1 h2
    simp only [OkOrCap] at h1 h2 ⊢
    refine ⟨h1.1, ?_, h1.2.2.2.1, h1.2.2.1⟩
    exact (find_some_iff h1.1 e.k ⟨true, e.k⟩ e).2 ⟨rfl, rfl, Or.inl ⟨rfl, h2⟩⟩

/-- `replace_entry` / `replace_key` need the key the `OccupiedEntry` was created with; on a handle
    that has none (one returned by `Entry::insert`) the crate panics, as documented by hashbrown:
    "Panics if this OccupiedEntry was created through Entry::insert".  Such steps are excluded. -/
def Applicable (raw : Bool) : Map.ES → Map.EStep → Prop
  | .occ _ none, .occReplaceEntry _ _ => False
  | .occ _ none, .occReplaceKey _ => raw = true
  | _, _ => True

open Map in
/-- **One handle step keeps the map and the handle coherent** (for every step kind, handle state,
    API flavour and oracle): the invariant holds afterwards — in particular there is still at most
    one element per key — and the handle that comes out designates the key's element (occupied)
    or the key is absent (vacant). -/
theorem chainStep_ok (c : Cfg) (hR : 0 < c.R) (raw : Bool) (k : Nat) (m : Map) (st : ES) (acc : ChainAcc)
    (s : EStep) (o : Orc) (h : Inv c.R m) (hok : HandleOK m k st) (happ : Applicable raw st s) :
    OkOrCap (chainStep c raw k m st acc s o) (fun r => Inv c.R r.1 ∧ HandleOK r.1 k r.2.1) := by
  -- the three ways a step acts on an occupied handle
  have setv : ∀ (loc : Loc) (spare : Option Nat) (e : Entry) (v vid : Nat) (st' : ES) (acc' : ChainAcc),
      m.find k = some (loc, e) → (st' = .occ loc spare ∨ st' = .done) →
      Inv c.R (setValAt m loc v vid) ∧ HandleOK (setValAt m loc v vid) k st' := by
    intro loc spare e v vid st' acc' hf hst
    obtain ⟨hi, hf', _⟩ := setValAt_spec h hf v vid
    refine ⟨hi, ?_⟩
    rcases hst with rfl | rfl
    · exact ⟨_, hf'⟩
    · trivial
  -- inserting through a vacant handle
  have vins : ∀ (e : Entry) (keep : Bool) (acc' : Cost → ChainAcc), e.k = k → m.find k = none →
      OkOrCap (match Raw.insert c m e o.hits o.perm with
               | .error f => .error f
               | .ok (m', _, cost) => .ok (m', (if keep then ES.occ ⟨true, k⟩ none else ES.done), acc' cost))
        (fun r => Inv c.R r.1 ∧ HandleOK r.1 k r.2.1) := by
    intro e keep acc' hek hvac
    have := vacInsert_handle c hR m e o.hits o.perm h (by rw [hek]; exact hvac)
    cases hr : Raw.insert c m e o.hits o.perm with
    | error f => rw [hr] at this; exact this
    | ok r =>
      obtain ⟨m', hh, cost⟩ := r
      rw [hr] at this
      simp only [OkOrCap] at this ⊢
      refine ⟨this.1, ?_⟩
      cases keep
      · trivial
      · exact ⟨e, by rw [← hek]; rw [hek] at this; exact (hek ▸ this.2.1)⟩
  cases st with
  | done => cases s <;> simp only [chainStep, OkOrCap] <;> exact ⟨h, trivial⟩
  | vac key =>
    have hvac : m.find k = none := hok
    cases s with
    | andModify add => simp only [chainStep, OkOrCap]; exact ⟨h, hvac⟩
    | andReplace keep add => simp only [chainStep, OkOrCap]; exact ⟨h, hvac⟩
    | insert kid v vid add =>
      simp only [chainStep]
      exact vins _ true _ rfl hvac
    | orInsert lzy kid v vid add =>
      simp only [chainStep]
      exact vins _ false _ rfl hvac
    | vacInsert rehash kid v vid add =>
      simp only [chainStep]
      exact vins _ false _ rfl hvac
    | vacIntoKey => simp only [chainStep, OkOrCap]; exact ⟨h, trivial⟩
    | occRemove => simp only [chainStep, OkOrCap]; exact ⟨h, trivial⟩
    | occRemoveEntry => simp only [chainStep, OkOrCap]; exact ⟨h, trivial⟩
    | occInsert v vid => simp only [chainStep, OkOrCap]; exact ⟨h, trivial⟩
    | occReplaceEntry v vid => simp only [chainStep, OkOrCap]; exact ⟨h, trivial⟩
    | occReplaceKey kid => simp only [chainStep, OkOrCap]; exact ⟨h, trivial⟩
    | occGetMut add => simp only [chainStep, OkOrCap]; exact ⟨h, trivial⟩
    | occReplaceWith keep add => simp only [chainStep, OkOrCap]; exact ⟨h, trivial⟩
  | occ loc spare =>
    obtain ⟨e, hf⟩ := hok
    have hva := valueAt_of_find h hf
    have hlk := (find_loc h hf).1
    -- removal through the handle (`remove`, `remove_entry`)
    have rem : OkOrCap (match Raw.removeAt m loc (decide (0 < o.empt)) with
                        | .error f => .error f
                        | .ok (m', e', cost) => (.ok (m', ES.done, acc) : Except Fault (Map × ES × ChainAcc)))
        (fun r => Inv c.R r.1 ∧ HandleOK r.1 k r.2.1) := by
      obtain ⟨t', cost, hr, hi, _⟩ := removeAt_spec hR h hf (decide (0 < o.empt))
      rw [hr]; simp only [OkOrCap]; exact ⟨hi, trivial⟩
    -- `replace_entry_with`
    have repl : ∀ (keep : Bool) (add : Nat),
        OkOrCap (match Raw.replaceAt m loc (if keep then some (e.v + add, e.vid) else none) (decide (0 < o.empt)) with
          | .error f => .error f
          | .ok (m', true) => .ok (m', ES.occ loc spare, acc)
          | .ok (m', false) => .ok (m', ES.vac (if raw then none else some e.kid),
              { acc with cost := acc.cost + { dropped := [e.vid] ++ optIds spare ++ (if raw then [e.kid] else []) } }))
        (fun r => Inv c.R r.1 ∧ HandleOK r.1 k r.2.1) := by
      intro keep add
      cases keep with
      | true =>
        simp only [if_true]
        obtain ⟨t', hr, hi, _, _, _, hkeys⟩ := replaceAt_some_spec h hf (e.v + add) e.vid (decide (0 < o.empt))
        rw [hr]
        simp only [OkOrCap]
        refine ⟨hi, ?_⟩
        -- the in-place update is `setValAt`
        have : Raw.replaceAt m loc (some (e.v + add, e.vid)) (decide (0 < o.empt)) = .ok (setValAt m loc (e.v + add) e.vid, true) := by
          obtain ⟨hek, _, hor⟩ := (find_some_iff h k loc e).1 hf
          unfold Raw.replaceAt setValAt
          rcases hor with ⟨hm, hin⟩ | ⟨hm, ol, hol, hin⟩
          · have hfind : m.main.find? loc.k = some e := by
              unfold HB.find?; rw [hlk, ← hek]; exact find_key_of_mem h.main_nodup hin
            simp [hm, hfind]
          · have hfind : ol.ents.find? (fun x => x.k == loc.k) = some e := by
              rw [hlk, ← hek]; exact find_key_of_mem (h.old_nodup hol) hin
            simp [hm, hol, hfind, Option.map, updVal]
        rw [this] at hr
        injection hr with hr; injection hr with hr1 _
        rw [← hr1]
        exact ⟨_, (setValAt_spec h hf (e.v + add) e.vid).2.1⟩
      | false =>
        simp only [Bool.false_eq_true, if_false]
        obtain ⟨t', cost, hr, hi, hp, _⟩ := eraseAt_spec hR h hf (decide (0 < o.empt))
        have hstate := replaceAt_none_state m loc (decide (0 < o.empt))
        rw [hr] at hstate
        cases hrp : Raw.replaceAt m loc none (decide (0 < o.empt)) with
        | error f => rw [hrp] at hstate; cases hstate
        | ok r =>
          obtain ⟨m', b⟩ := r
          rw [hrp] at hstate
          simp only [Except.map] at hstate
          injection hstate with hstate
          subst hstate
          -- the key is gone
          have hgone : m'.find k = none := by
            apply (find_none_iff hi k).2
            have hnd : (keysOf (e :: m'.ents)).Nodup := (keysOf_perm hp).nodup_iff.2 h.nodup
            simp only [keysOf, List.map_cons, List.nodup_cons] at hnd
            rw [← (find_loc h hf).2.1]; exact hnd.1
          cases b <;> simp only [OkOrCap]
          · exact ⟨hi, hgone⟩
          · -- `replace_bucket_with` reported "still occupied" although `f` returned `None`: impossible
            exfalso
            unfold Raw.replaceAt at hrp
            by_cases hm : loc.inMain = true
            · simp only [hm, if_true] at hrp
              cases hk2 : m.main.removeKey loc.k (decide (0 < o.empt)) with
              | error f => rw [hk2] at hrp; cases hrp
              | ok p => rw [hk2] at hrp; injection hrp with hrp; injection hrp with _ hb; cases hb
            · simp only [hm, Bool.false_eq_true, if_false] at hrp
              cases hlo : m.lo with
              | none => rw [hlo] at hrp; cases hrp
              | some ol =>
                rw [hlo] at hrp
                simp only at hrp
                cases hfo : ol.ents.find? (fun e => e.k == loc.k) with
                | none => rw [hfo] at hrp; cases hrp
                | some x => rw [hfo] at hrp; injection hrp with hrp; injection hrp with _ hb; cases hb
    cases s with
    | andModify add =>
      simp only [chainStep, hva, OkOrCap]
      exact setv loc spare e _ _ _ acc hf (Or.inl rfl)
    | andReplace keep add => simp only [chainStep, hva]; exact repl keep add
    | occReplaceWith keep add => simp only [chainStep, hva]; exact repl keep add
    | insert kid v vid add =>
      simp only [chainStep, hva, OkOrCap]
      exact setv loc spare e _ _ _ acc hf (Or.inl rfl)
    | orInsert lzy kid v vid add =>
      simp only [chainStep, hva, OkOrCap]
      exact setv loc spare e _ _ _ acc hf (Or.inr rfl)
    | occRemove =>
      simp only [chainStep]
      obtain ⟨t', cost, hr, hi, _⟩ := removeAt_spec hR h hf (decide (0 < o.empt))
      rw [hr]; simp only [OkOrCap]; exact ⟨hi, trivial⟩
    | occRemoveEntry =>
      simp only [chainStep]
      obtain ⟨t', cost, hr, hi, _⟩ := removeAt_spec hR h hf (decide (0 < o.empt))
      rw [hr]; simp only [OkOrCap]; exact ⟨hi, trivial⟩
    | occInsert v vid =>
      simp only [chainStep, hva, OkOrCap]
      exact setv loc spare e _ _ _ acc hf (Or.inl rfl)
    | occGetMut add =>
      simp only [chainStep, hva, OkOrCap]
      exact setv loc spare e _ _ _ acc hf (Or.inl rfl)
    | occReplaceEntry v vid =>
      simp only [chainStep, hva]
      cases spare with
      | none => exact absurd happ (by simp [Applicable])
      | some sk =>
        simp only [OkOrCap]
        obtain ⟨hi1, hf1, _⟩ := setValAt_spec h hf v vid
        exact ⟨(setKidAt_spec hi1 hf1 sk).1, trivial⟩
    | occReplaceKey kid =>
      simp only [chainStep, hva]
      cases raw with
      | true =>
        simp only [if_true, OkOrCap]
        obtain ⟨hi1, hf1⟩ := setKidAt_spec h hf kid
        exact ⟨hi1, _, hf1⟩
      | false =>
        simp only [Bool.false_eq_true, if_false]
        cases spare with
        | none => simp [Applicable] at happ
        | some sk => simp only [OkOrCap]; exact ⟨(setKidAt_spec h hf sk).1, trivial⟩
    | vacInsert rehash kid v vid add => simp only [chainStep, OkOrCap]; exact ⟨h, trivial⟩
    | vacIntoKey => simp only [chainStep, OkOrCap]; exact ⟨h, trivial⟩

end Griddle
