/-
  The abstraction function (a map from keys to stored entries) and the refinement lemmas for the
  core `HashMap` operations: insert, lookups, in-place update, removal.
-/
import GriddleModel.Map
import GriddleModel.Lemmas.RawOps
namespace Griddle

/-- The abstract map a table state denotes. -/
def absOf (t : Raw) (k : Nat) : Option Entry := t.ents.find? (fun e => e.k == k)

def lookupIn (es : List Entry) (k : Nat) : Option Entry := es.find? (fun e => e.k == k)

theorem lookupIn_perm {a b : List Entry} (hp : a.Perm b) (hnd : (keysOf b).Nodup) (k : Nat) :
    lookupIn a k = lookupIn b k := by
  have hnda : (keysOf a).Nodup := (keysOf_perm hp).nodup_iff.2 hnd
  unfold lookupIn
  cases ha : a.find? (fun e => e.k == k) with
  | none =>
    have := find_key_none.1 ha
    have hb : k ∉ keysOf b := fun h => this ((keysOf_perm hp).mem_iff.2 h)
    exact (find_key_none.2 hb).symm
  | some x =>
    have hx := find_key_some ha
    have hxb : x ∈ b := hp.mem_iff.1 hx.1
    have := find_key_of_mem hnd hxb
    rw [hx.2] at this
    exact this.symm

theorem absOf_perm {t t' : Raw} (hp : t'.ents.Perm t.ents) (hnd : (keysOf t.ents).Nodup) (k : Nat) :
    absOf t' k = absOf t k := lookupIn_perm hp hnd k

/-- `find` computes the abstraction. -/
theorem find_eq_abs {R : Nat} {t : Raw} (h : Inv R t) (k : Nat) :
    (t.find k).map (·.2) = absOf t k := by
  cases hf : t.find k with
  | none =>
    have := (find_none_iff h k).1 hf
    simp only [Option.map]
    exact (find_key_none.2 this).symm
  | some p =>
    obtain ⟨loc, e⟩ := p
    have := find_loc h hf
    simp only [Option.map]
    have hm := find_key_of_mem h.nodup this.2.2
    rw [this.2.1] at hm
    exact hm.symm

theorem absOf_none_iff (t : Raw) (k : Nat) : absOf t k = none ↔ k ∉ keysOf t.ents := find_key_none

/-- in-place update of the value stored for key `k` -/
def updVal (k v vid : Nat) (x : Entry) : Entry := if x.k == k then { x with v := v, vid := vid } else x

theorem updVal_k (k v vid : Nat) (x : Entry) : (updVal k v vid x).k = x.k := by
  unfold updVal; split <;> rfl

theorem lookupIn_map_upd (es : List Entry) (k v vid k' : Nat) :
    lookupIn (es.map (updVal k v vid)) k' = (lookupIn es k').map (updVal k v vid) := by
  unfold lookupIn
  induction es with
  | nil => rfl
  | cons a rest ih =>
    simp only [List.map_cons, List.find?, updVal_k]
    cases h : (a.k == k') <;> simp [ih]

/-- rewriting the values of a table in place (same keys, same counters) keeps the invariant -/
theorem Inv.map_main {R : Nat} {t : Raw} (h : Inv R t) (f : Entry → Entry) (hf : ∀ e, (f e).k = e.k) :
    Inv R { t with main := { t.main with ents := t.main.ents.map f } } := by
  refine ⟨?_, h.agree, h.head, ?_⟩
  · have := h.wf; unfold HB.WF at *; simpa using this
  · have := h.nodup
    simp only [Raw.ents, keysOf, List.map_append, List.map_map] at this ⊢
    have hk : ((fun x => x.k) ∘ f) = (fun x : Entry => x.k) := by funext x; simp [hf]
    rw [hk]; exact this

theorem Inv.map_old {R : Nat} {t : Raw} (h : Inv R t) (f : Entry → Entry) (hf : ∀ e, (f e).k = e.k) :
    Inv R { t with lo := t.lo.map (fun ol => { ol with ents := ol.ents.map f }) } := by
  cases hlo : t.lo with
  | none =>
    have : ({ t with lo := (none : Option Old).map (fun ol => { ol with ents := ol.ents.map f }) } : Raw) = t := by
      cases t; simp_all
    simp only [Option.map] at this ⊢
    rw [this]; exact h
  | some o =>
    simp only [Option.map]
    refine ⟨h.wf, ?_, ?_, ?_⟩
    · intro o' ho'; cases ho'; simp; exact h.agree o hlo
    · intro o' ho'; cases ho'; simp; exact h.head o hlo
    · have := h.nodup
      simp only [Raw.ents, hlo, keysOf, List.map_append, List.map_map] at this ⊢
      have hk : ((fun x => x.k) ∘ f) = (fun x : Entry => x.k) := by funext x; simp [hf]
      rw [hk]; exact this

def oldEnts (t : Raw) : List Entry := match t.lo with | some o => o.ents | none => []

theorem absOf_split (t : Raw) (k : Nat) :
    absOf t k = (match lookupIn t.main.ents k with | some x => some x | none => lookupIn (oldEnts t) k) := by
  unfold absOf Raw.ents lookupIn oldEnts
  rw [List.find?_append]
  cases t.main.ents.find? (fun e => e.k == k) <;> first | rfl | simp [Option.or]

theorem updVal_other {k v vid : Nat} {x : Entry} (h : x.k ≠ k) : updVal k v vid x = x := by
  unfold updVal
  have : (x.k == k) = false := by simpa using h
  simp [this]

theorem lookupIn_key {es : List Entry} {k : Nat} {x : Entry} (h : lookupIn es k = some x) : x.k = k :=
  (find_key_some h).2

/-- The abstract effect of overwriting the value of a present key in place. -/
def specUpd (a : Nat → Option Entry) (k v vid : Nat) (k' : Nat) : Option Entry :=
  if k' = k then (a k).map (fun x => { x with v := v, vid := vid }) else a k'

theorem abs_setMain {R : Nat} {t : Raw} (h : Inv R t) (k v vid : Nat) (hin : k ∈ keysOf t.main.ents) (k' : Nat) :
    absOf { t with main := t.main.setVal k v vid } k' = specUpd (absOf t) k v vid k' := by
  rw [absOf_split]
  unfold specUpd
  have hset : (t.main.setVal k v vid).ents = t.main.ents.map (updVal k v vid) := rfl
  have hold : oldEnts { t with main := t.main.setVal k v vid } = oldEnts t := rfl
  simp only [hset, hold, lookupIn_map_upd]
  by_cases hk : k' = k
  · subst hk
    simp only [if_true]
    rw [absOf_split]
    cases hl : lookupIn t.main.ents k' with
    | none => exact absurd hin (find_key_none.1 hl)
    | some x =>
      have := lookupIn_key hl
      simp [Option.map, updVal, this]
  · simp only [hk, if_false]
    rw [absOf_split]
    cases hl : lookupIn t.main.ents k' with
    | none => simp [Option.map]
    | some x =>
      have := lookupIn_key hl
      simp only [Option.map]
      rw [updVal_other (by omega)]

theorem abs_setOld {R : Nat} {t : Raw} (h : Inv R t) (k v vid : Nat) (hnin : k ∉ keysOf t.main.ents) (k' : Nat) :
    absOf { t with lo := t.lo.map (fun ol => { ol with ents := ol.ents.map (updVal k v vid) }) } k'
      = specUpd (absOf t) k v vid k' := by
  rw [absOf_split]
  unfold specUpd
  have hold : oldEnts { t with lo := t.lo.map (fun ol => { ol with ents := ol.ents.map (updVal k v vid) }) }
      = (oldEnts t).map (updVal k v vid) := by
    unfold oldEnts; cases t.lo <;> simp [Option.map]
  simp only [hold, lookupIn_map_upd]
  by_cases hk : k' = k
  · subst hk
    simp only [if_true]
    rw [absOf_split]
    have hn : lookupIn t.main.ents k' = none := find_key_none.2 hnin
    simp only [hn]
    cases hl : lookupIn (oldEnts t) k' with
    | none => simp [Option.map]
    | some x =>
      have := lookupIn_key hl
      simp [Option.map, updVal, this]
  · simp only [hk, if_false]
    rw [absOf_split]
    cases hm : lookupIn t.main.ents k' with
    | some x => rfl
    | none =>
      simp only
      cases hl : lookupIn (oldEnts t) k' with
      | none => simp [Option.map]
      | some x =>
        have := lookupIn_key hl
        simp only [Option.map]
        rw [updVal_other (by omega)]

/-- abstract effect of inserting `(k ↦ e)` -/
def specIns (a : Nat → Option Entry) (e : Entry) (k' : Nat) : Option Entry :=
  if k' = e.k then some e else a k'

theorem abs_of_perm_cons {t t' : Raw} {e : Entry} (hp : t'.ents.Perm (e :: t.ents))
    (hnd : (keysOf (e :: t.ents)).Nodup) (k' : Nat) : absOf t' k' = specIns (absOf t) e k' := by
  have := lookupIn_perm hp hnd k'
  unfold absOf specIns
  unfold lookupIn at this
  rw [this]
  simp only [List.find?]
  by_cases hk : k' = e.k
  · subst hk; simp
  · have : (e.k == k') = false := by simpa using (fun h => hk h.symm)
    simp [this, hk]

/-- abstract effect of removing key `k` -/
def specDel (a : Nat → Option Entry) (k : Nat) (k' : Nat) : Option Entry :=
  if k' = k then none else a k'

theorem abs_of_cons_perm {t t' : Raw} {e : Entry} (hp : (e :: t'.ents).Perm t.ents)
    (hnd : (keysOf t.ents).Nodup) (k' : Nat) : absOf t' k' = specDel (absOf t) e.k k' := by
  have hnd' : (keysOf (e :: t'.ents)).Nodup := (keysOf_perm hp).nodup_iff.2 hnd
  have := lookupIn_perm hp hnd k'
  unfold absOf specDel
  unfold lookupIn at this
  simp only
  rw [← this]
  simp only [List.find?]
  simp only [keysOf, List.map_cons, List.nodup_cons] at hnd'
  by_cases hk : k' = e.k
  · subst hk; simp
    intro x hx heq
    apply hnd'.1
    rw [← heq]; exact List.mem_map_of_mem hx
  · have : (e.k == k') = false := by simpa using (fun h => hk h.symm)
    simp [this, hk]

theorem idsOf_perm {a b : List Entry} (h : a.Perm b) : (idsOf a).Perm (idsOf b) := by
  unfold idsOf; exact List.Perm.flatMap_right _ h

theorem idsOf_cons (e : Entry) (es : List Entry) : idsOf (e :: es) = e.kid :: e.vid :: idsOf es := by
  simp [idsOf, Entry.ids]

theorem idsOf_append (a b : List Entry) : idsOf (a ++ b) = idsOf a ++ idsOf b := by
  simp [idsOf]

theorem map_updVal_absent {es : List Entry} {k v vid : Nat} (h : k ∉ keysOf es) :
    es.map (updVal k v vid) = es := by
  induction es with
  | nil => rfl
  | cons a rest ih =>
    simp only [keysOf, List.map_cons, List.mem_cons, not_or] at h
    simp only [List.map_cons]
    rw [updVal_other (fun heq => h.1 heq.symm), ih h.2]

/-- overwriting the value stored for a present key swaps exactly one value object -/
theorem idsOf_updVal {es : List Entry} {x : Entry} (hnd : (keysOf es).Nodup) (hx : x ∈ es) (v vid : Nat) :
    (x.vid :: idsOf (es.map (updVal x.k v vid))).Perm (vid :: idsOf es) := by
  induction es with
  | nil => cases hx
  | cons a rest ih =>
    simp only [keysOf, List.map_cons, List.nodup_cons] at hnd
    rcases List.mem_cons.1 hx with rfl | hin
    · have hrest : rest.map (updVal x.k v vid) = rest := map_updVal_absent hnd.1
      simp only [List.map_cons, hrest, idsOf_cons]
      have : updVal x.k v vid x = { x with v := v, vid := vid } := by simp [updVal]
      rw [this]
      simp only
      -- x.vid :: x.kid :: vid :: R  ~  vid :: x.kid :: x.vid :: R
      refine (List.Perm.swap x.kid x.vid _).trans ?_
      refine (List.Perm.cons x.kid (List.Perm.swap vid x.vid _)).trans ?_
      exact List.Perm.swap vid x.kid _
    · have hne : a.k ≠ x.k := by
        intro heq; apply hnd.1; rw [heq]; exact List.mem_map_of_mem hin
      simp only [List.map_cons, updVal_other hne, idsOf_cons]
      have := ih hnd.2 hin
      -- x.vid :: a.kid :: a.vid :: I'  ~  vid :: a.kid :: a.vid :: I
      refine (List.Perm.swap a.kid x.vid _).trans ?_
      refine (List.Perm.cons a.kid (List.Perm.swap a.vid x.vid _)).trans ?_
      refine (List.Perm.cons a.kid (List.Perm.cons a.vid this)).trans ?_
      refine (List.Perm.cons a.kid (List.Perm.swap vid a.vid _)).trans ?_
      exact List.Perm.swap vid a.kid _

/-- `HashMap::insert`.  For every invariant state, entry and oracle: either the documented
    capacity-overflow / OOM outcome of a growth, or a state that denotes the updated abstract map;
    the previous value is returned; at most `R` elements are moved, each hashed once, the key is
    hashed once, at most one table is allocated. -/
theorem Map.insert_spec (c : Cfg) (hR : 0 < c.R) (m : Map) (e : Entry) (o : Orc) (h : Inv c.R m) :
    OkOrCap (Map.insert c m e o) (fun r =>
      Inv c.R r.1 ∧
      (∀ k', absOf r.1 k' = (match absOf m e.k with
                             | some _ => specUpd (absOf m) e.k e.v e.vid k'
                             | none => specIns (absOf m) e k')) ∧
      r.2.ret = .optV ((absOf m e.k).map (fun x => (x.v, x.vid))) ∧
      r.2.cost.moved ≤ c.R ∧ r.2.cost.hashes = 1 + r.2.cost.moved ∧ r.2.cost.allocs ≤ 1 ∧
      ((absOf m e.k).isSome → r.2.cost.allocs = 0) ∧
      ((∃ x, x ∈ m.main.ents ∧ x.k = e.k) → r.2.cost.moved = 0 ∧ r.1.lo = m.lo) ∧
      (∀ ol, m.lo = some ol → (absOf m e.k = none ∨ ∃ x, x ∈ ol.ents ∧ x.k = e.k) →
        r.2.cost.moved = min c.R ol.ents.length ∧
        (ol.ents.length ≤ c.R → r.1.lo = none) ∧
        (c.R < ol.ents.length → ∃ o', r.1.lo = some o' ∧ o'.ents.length = ol.ents.length - c.R)) ∧
      -- ledger: stored ⊎ handed back ⊎ dropped = stored before ⊎ the key and value passed in
      (idsOf r.1.ents ++ r.2.returned ++ r.2.cost.dropped).Perm (idsOf m.ents ++ e.ids)) := by
  unfold Map.insert
  have habs := find_eq_abs h e.k
  cases hf : m.find e.k with
  | none =>
    rw [hf] at habs
    simp only [Option.map] at habs
    have hfresh : e.k ∉ keysOf m.ents := (absOf_none_iff m e.k).1 habs.symm
    simp only
    have hs := Raw.insert_spec c hR m e o.hits o.perm h hfresh
    match hin : Raw.insert c m e o.hits o.perm with
    | .error f => rw [hin] at hs; simpa [OkOrCap] using hs
    | .ok (m', hh, cost) =>
      rw [hin] at hs
      simp only [OkOrCap] at hs ⊢
      obtain ⟨s1, s2, s3, s4, s5, s6, s7, s8⟩ := hs
      have hnd : (keysOf (e :: m.ents)).Nodup := by
        simp only [keysOf, List.map_cons, List.nodup_cons]; exact ⟨hfresh, h.nodup⟩
      refine ⟨s1, ?_, ?_, ?_, ?_, ?_, ?_, ?_, ?_⟩
      · intro k'; rw [← habs]; exact abs_of_perm_cons s2 hnd k'
      · rw [← habs]; rfl
      · simpa using s4
      · simp [s5]
      · simpa using s3
      · rw [← habs]; intro hc; cases hc
      · rintro ⟨x, hx, hk⟩
        exfalso; apply hfresh
        simp only [Raw.ents, keysOf, List.map_append, List.mem_append]
        left; rw [← hk]; exact List.mem_map_of_mem hx
      · refine ⟨?_, ?_⟩
        · intro ol hol _
          obtain ⟨a, b, d⟩ := s8 ol hol
          exact ⟨by simpa using a, b, d⟩
        · have := idsOf_perm s2
          simp only [s6, List.append_nil, Cost.add_dropped, List.nil_append]
          rw [idsOf_cons] at this
          refine this.trans ?_
          simp only [Entry.ids]
          exact (List.perm_append_comm (l₁ := [e.kid, e.vid]) (l₂ := idsOf m.ents))
  | some p =>
    obtain ⟨loc, old⟩ := p
    rw [hf] at habs
    simp only [Option.map] at habs
    have hfs := (find_some_iff h e.k loc old).1 hf
    obtain ⟨hok, hlk, hor⟩ := hfs
    simp only
    rcases hor with ⟨hm, hin⟩ | ⟨hm, ol, hol, hin⟩
    · -- present in the main table: in-place update, nothing else
      simp only [hm, if_true, Bool.not_true, Bool.false_eq_true, if_false, OkOrCap]
      have hkin : e.k ∈ keysOf m.main.ents := by rw [← hok]; exact List.mem_map_of_mem hin
      have hinv : Inv c.R { m with main := m.main.setVal e.k e.v e.vid } :=
        h.map_main (updVal e.k e.v e.vid) (updVal_k _ _ _)
      refine ⟨hinv, ?_, ?_, ?_, ?_, ?_, ?_, ?_, ?_⟩
      · intro k'; rw [← habs]; exact abs_setMain h e.k e.v e.vid hkin k'
      · rw [← habs]; rfl
      · simp
      · simp
      · simp
      · intro _; simp
      · intro _; simp
      · refine ⟨?_, ?_⟩
        · intro ol' hol' hcase
          exfalso
          rcases hcase with hn | ⟨x, hx, hk⟩
          · rw [← habs] at hn; cases hn
          · exact h.disjoint hol' hkin (by rw [← hk]; exact List.mem_map_of_mem hx)
        · have hup := idsOf_updVal h.main_nodup hin e.v e.vid
          rw [hok] at hup
          have hset : (m.main.setVal e.k e.v e.vid).ents = m.main.ents.map (updVal e.k e.v e.vid) := rfl
          simp only [Raw.ents, hset, idsOf_append, Entry.ids, Cost.add_dropped, List.nil_append]
          -- (I(main') ++ I(old)) ++ [old.vid] ++ [e.kid]  ~  (I(main) ++ I(old)) ++ [e.kid, e.vid]
          have h1 : (idsOf (m.main.ents.map (updVal e.k e.v e.vid)) ++ [old.vid]).Perm (idsOf m.main.ents ++ [e.vid]) := by
            refine (List.perm_append_comm).trans ?_
            refine hup.trans ?_
            exact (List.perm_append_comm (l₁ := [e.vid]) (l₂ := idsOf m.main.ents))
          generalize idsOf (m.main.ents.map (updVal e.k e.v e.vid)) = A at h1 ⊢
          generalize idsOf m.main.ents = B at h1 ⊢
          generalize idsOf (match m.lo with | some o => o.ents | none => []) = C
          have step1 : ((A ++ C) ++ [old.vid] ++ [e.kid]).Perm ((A ++ [old.vid]) ++ (C ++ [e.kid])) := by
            simp only [List.append_assoc]
            exact List.Perm.append_left A (List.perm_append_comm_assoc C [old.vid] [e.kid])
          have step2 : ((B ++ [e.vid]) ++ (C ++ [e.kid])).Perm ((B ++ C) ++ [e.kid, e.vid]) := by
            simp only [List.append_assoc]
            apply List.Perm.append_left
            refine (List.perm_append_comm_assoc [e.vid] C [e.kid]).trans ?_
            apply List.Perm.append_left
            exact List.Perm.swap e.kid e.vid []
          exact step1.trans ((List.Perm.append_right _ h1).trans step2)
    · -- present in the old table: in-place update, then carry
      simp only [hm, Bool.false_eq_true, if_false, Bool.not_false, if_true]
      have hknin : e.k ∉ keysOf m.main.ents := by
        intro hmem; exact h.disjoint hol hmem (by rw [← hok]; exact List.mem_map_of_mem hin)
      have hinv : Inv c.R { m with lo := m.lo.map (fun ol => { ol with ents := ol.ents.map (updVal e.k e.v e.vid) }) } :=
        h.map_old (updVal e.k e.v e.vid) (updVal_k _ _ _)
      have hsplit : Raw.isSplit { m with lo := m.lo.map (fun ol => { ol with ents := ol.ents.map (updVal e.k e.v e.vid) }) } = true := by
        simp [Raw.isSplit, hol]
      have hdb : (c.debug && !Raw.isSplit { m with lo := m.lo.map (fun ol => { ol with ents := ol.ents.map (updVal e.k e.v e.vid) }) }) = false := by
        rw [hsplit]; simp
      have hm1 : ({ m with lo := m.lo.map (fun ol => { ol with ents := ol.ents.map (fun x =>
                if x.k == e.k then { x with v := e.v, vid := e.vid } else x) }) } : Raw)
          = { m with lo := m.lo.map (fun ol => { ol with ents := ol.ents.map (updVal e.k e.v e.vid) }) } := rfl
      rw [hm1]
      simp only [hdb, Bool.false_eq_true, if_false]
      have hcs := carry_spec c hR _ o.hits hinv.wf hinv.agree
        (fun o' ho' => by have := (hinv.head o' ho').1; omega) hinv.nodup
      match hcr : Raw.carry c { m with lo := m.lo.map (fun ol => { ol with ents := ol.ents.map (updVal e.k e.v e.vid) }) } o.hits with
      | .error f => rw [hcr] at hcs; simp only [OkOr] at hcs; simp only [OkOrCap]; exact Or.inl hcs
      | .ok (m2, hh, cost) =>
        rw [hcr] at hcs
        simp only [OkOr] at hcs
        simp only [OkOrCap]
        obtain ⟨c1, c2, c3, c4, _, c6⟩ := hcs
        have hlo1 : ({ m with lo := m.lo.map (fun ol => { ol with ents := ol.ents.map (updVal e.k e.v e.vid) }) } : Raw).lo
            = some { ol with ents := ol.ents.map (updVal e.k e.v e.vid) } := by simp [hol]
        obtain ⟨d1, d2, d3, d4, d5, d6, d7, d8, d9⟩ := c6 _ hlo1
        simp only [List.length_map] at d1 d2 d3 d4 d5 d6 d8
        refine ⟨c1, ?_, ?_, ?_, ?_, ?_, ?_, ?_, ?_⟩
        · intro k'
          rw [← habs]
          rw [absOf_perm c2 hinv.nodup k']
          exact abs_setOld h e.k e.v e.vid hknin k'
        · rw [← habs]; rfl
        · simp [d5]; exact Nat.min_le_left _ _
        · simp [d5, d6]
        · simp [d7]
        · intro _; simp [d7]
        · rintro ⟨x, hx, hk⟩
          exfalso; apply hknin; rw [← hk]; exact List.mem_map_of_mem hx
        · refine ⟨?_, ?_⟩
          · intro ol' hol' _
            rw [hol] at hol'; cases hol'
            refine ⟨by simp [d5], d3, fun hlt => ?_⟩
            exact ⟨_, d4 hlt, by simp⟩
          · have hup := idsOf_updVal (h.old_nodup hol) hin e.v e.vid
            rw [hok] at hup
            have hp2 := idsOf_perm c2
            simp only [Entry.ids, Cost.add_dropped, List.nil_append, d9, List.append_nil]
            have hents1 : Raw.ents { m with lo := m.lo.map (fun ol => { ol with ents := ol.ents.map (updVal e.k e.v e.vid) }) }
                = m.main.ents ++ ol.ents.map (updVal e.k e.v e.vid) := by simp [Raw.ents, hol]
            rw [hents1, idsOf_append] at hp2
            have hents0 : m.ents = m.main.ents ++ ol.ents := by simp [Raw.ents, hol]
            rw [hents0, idsOf_append]
            have h1 : (idsOf (ol.ents.map (updVal e.k e.v e.vid)) ++ [old.vid]).Perm (idsOf ol.ents ++ [e.vid]) := by
              refine (List.perm_append_comm).trans ?_
              refine hup.trans ?_
              exact (List.perm_append_comm (l₁ := [e.vid]) (l₂ := idsOf ol.ents))
            generalize idsOf (ol.ents.map (updVal e.k e.v e.vid)) = A at h1 hp2 ⊢
            generalize idsOf ol.ents = B at h1 ⊢
            generalize idsOf m.main.ents = C at hp2 ⊢
            generalize idsOf m2.ents = D at hp2 ⊢
            -- D ++ [old.vid] ++ [e.kid] ~ (C ++ A) ++ [old.vid] ++ [e.kid] ~ C ++ (B ++ [e.vid]) ++ [e.kid] ~ (C ++ B) ++ [e.kid, e.vid]
            have s1 : (D ++ [old.vid] ++ [e.kid]).Perm (C ++ (A ++ [old.vid]) ++ [e.kid]) := by
              simp only [List.append_assoc]
              have := List.Perm.append_right ([old.vid] ++ [e.kid]) hp2
              simpa only [List.append_assoc] using this
            have s2 : (C ++ (A ++ [old.vid]) ++ [e.kid]).Perm (C ++ (B ++ [e.vid]) ++ [e.kid]) :=
              List.Perm.append_right _ (List.Perm.append_left _ h1)
            have s3 : (C ++ (B ++ [e.vid]) ++ [e.kid]).Perm ((C ++ B) ++ [e.kid, e.vid]) := by
              simp only [List.append_assoc]
              apply List.Perm.append_left
              apply List.Perm.append_left
              exact List.Perm.swap e.kid e.vid []
            exact s1.trans (s2.trans s3)

/-- lookups: the abstract map's answer; one hash, nothing else; state untouched -/
theorem Map.get_spec {R : Nat} (m : Map) (k : Nat) (h : Inv R m) :
    (Map.get m k).ret = .optKV (absOf m k) ∧ (Map.get m k).cost = { hashes := 1 } := by
  unfold Map.get
  exact ⟨by rw [find_eq_abs h k], rfl⟩

/-- `get_mut` + write: in-place update of the value, wherever the element is stored -/
theorem Map.getMut_spec {R : Nat} (m : Map) (k add : Nat) (h : Inv R m) :
    Inv R (Map.getMut m k add).1 ∧
    (∀ k', absOf (Map.getMut m k add).1 k' =
      (match absOf m k with
       | some x => specUpd (absOf m) k (x.v + add) x.vid k'
       | none => absOf m k')) ∧
    (Map.getMut m k add).2.ret = .optV ((absOf m k).map (fun x => (x.v + add, x.vid))) ∧
    (Map.getMut m k add).2.cost = { hashes := 1 } ∧
    (Map.getMut m k add).1.main.buckets = m.main.buckets ∧ (Map.getMut m k add).1.main.gl = m.main.gl := by
  unfold Map.getMut
  have habs := find_eq_abs h k
  cases hf : m.find k with
  | none =>
    rw [hf] at habs; simp only [Option.map] at habs
    simp only [← habs]
    refine ⟨h, fun _ => ?_, ?_, ?_, ?_, ?_⟩ <;> first | rfl | trivial
  | some p =>
    obtain ⟨loc, x⟩ := p
    rw [hf] at habs; simp only [Option.map] at habs
    obtain ⟨hxk, hlk, hor⟩ := (find_some_iff h k loc x).1 hf
    simp only [← habs]
    rcases hor with ⟨hm, hin⟩ | ⟨hm, ol, hol, hin⟩
    · simp only [hm, if_true]
      have hkin : k ∈ keysOf m.main.ents := by rw [← hxk]; exact List.mem_map_of_mem hin
      refine ⟨h.map_main (updVal k (x.v + add) x.vid) (updVal_k _ _ _), ?_, ?_, ?_, ?_, ?_⟩ <;> first | rfl | trivial | skip
      intro k'; exact abs_setMain h k (x.v + add) x.vid hkin k'
    · simp only [hm, Bool.false_eq_true, if_false]
      have hknin : k ∉ keysOf m.main.ents := by
        intro hmem; exact h.disjoint hol hmem (by rw [← hxk]; exact List.mem_map_of_mem hin)
      refine ⟨h.map_old (updVal k (x.v + add) x.vid) (updVal_k _ _ _), ?_, ?_, ?_, ?_, ?_⟩ <;> first | rfl | trivial | skip
      intro k'; exact abs_setOld h k (x.v + add) x.vid hknin k'

/-- `remove_entry`: removes exactly that key, hands the stored entry back, one hash, no
    allocation, nothing moved; the invariant (incl. cursor agreement) is kept; if this was the
    old table's last element the old table is released in this very call. -/
theorem Map.removeEntry_spec {R : Nat} (hR : 0 < R) (m : Map) (k : Nat) (o : Orc) (h : Inv R m) :
    ∃ m' out, Map.removeEntry m k o = .ok (m', out) ∧ Inv R m' ∧
      (∀ k', absOf m' k' = specDel (absOf m) k k') ∧
      out.ret = .optKV (absOf m k) ∧
      out.cost.hashes = 1 ∧ out.cost.allocs = 0 ∧ out.cost.moved = 0 ∧ out.cost.dropped = [] ∧
      out.returned = (match absOf m k with | some e => e.ids | none => []) ∧
      (∀ ol, m.lo = some ol → (∃ x, x ∈ ol.ents ∧ x.k = k) → ol.ents.length = 1 → m'.lo = none ∧ out.cost.frees = 1) := by
  unfold Map.removeEntry
  have habs := find_eq_abs h k
  cases hf : m.find k with
  | none =>
    rw [hf] at habs; simp only [Option.map] at habs
    refine ⟨m, _, rfl, h, ?_, ?_, rfl, rfl, rfl, rfl, ?_, ?_⟩
    · intro k'; unfold specDel; by_cases hk : k' = k
      · subst hk; simp [← habs]
      · simp [hk]
    · rw [← habs]
    · rw [← habs]
    · intro ol hol ⟨x, hx, hxk⟩
      exfalso
      have := (absOf_none_iff m k).1 habs.symm
      apply this
      simp only [Raw.ents, hol, keysOf, List.map_append, List.mem_append]
      right; rw [← hxk]; exact List.mem_map_of_mem hx
  | some p =>
    obtain ⟨loc, e⟩ := p
    rw [hf] at habs; simp only [Option.map] at habs
    obtain ⟨t', cost, hr, hi, hp, _, _, ca, ch, cm, cd, hold, _⟩ := removeAt_spec hR h hf (decide (0 < o.empt))
    have hek := (find_loc h hf).2.1
    simp only [hr]
    refine ⟨t', _, rfl, hi, ?_, ?_, ?_, ?_, ?_, ?_, ?_, ?_⟩
    · intro k'; rw [← hek]; exact abs_of_cons_perm hp h.nodup k'
    · rw [← habs]
    · simp [ch]
    · simp [ca]
    · simp [cm]
    · simp [cd]
    · rw [← habs]
    · intro ol hol ⟨x, hx, hxk⟩ hone
      have hloc : loc.inMain = false := by
        obtain ⟨_, _, hor⟩ := (find_some_iff h k loc e).1 hf
        rcases hor with ⟨_, hin⟩ | ⟨hm, _⟩
        · exfalso
          exact h.disjoint hol (k := k) (by rw [← hek]; exact List.mem_map_of_mem hin) (by rw [← hxk]; exact List.mem_map_of_mem hx)
        · exact hm
      have := (hold ol hol hloc).1 hone
      exact ⟨this.1, by simp [this.2]⟩

end Griddle
