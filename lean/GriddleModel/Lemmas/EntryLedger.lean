/-
  Object ledger of entry / raw-entry handle chains: every key and value object that is stored,
  held by the handle, or created by the caller for a step is afterwards exactly one of: stored,
  held by the handle, handed back, dropped.  (Multisets of identities; the bookkeeping is done in
  `Multiset ℕ`, where `abel` closes the re-association goals.)
-/
import Mathlib.Data.Multiset.AddSub
import Mathlib.Algebra.Order.Group.Multiset
import Mathlib.Tactic.Abel
import GriddleModel.Lemmas.Entry
namespace Griddle

/-- identities of a list of entries, as a multiset -/
def msIds (es : List Entry) : Multiset Nat := (idsOf es : List Nat)
def ms (l : List Nat) : Multiset Nat := (l : List Nat)

theorem ms_append (a b : List Nat) : ms (a ++ b) = ms a + ms b := by
  unfold ms; rw [Multiset.coe_add]
theorem ms_perm {a b : List Nat} : a.Perm b ↔ ms a = ms b := Multiset.coe_eq_coe.symm
theorem ms_nil : ms [] = 0 := rfl
theorem msIds_def (es : List Entry) : msIds es = ms (idsOf es) := rfl
theorem msIds_cons (e : Entry) (es : List Entry) : msIds (e :: es) = ms e.ids + msIds es := by
  unfold msIds ms; rw [idsOf_cons, Multiset.coe_add]; rfl
theorem msIds_append (a b : List Entry) : msIds (a ++ b) = msIds a + msIds b := by
  unfold msIds; rw [idsOf_append, Multiset.coe_add]
theorem msIds_perm {a b : List Entry} (h : a.Perm b) : msIds a = msIds b := by
  unfold msIds; exact Multiset.coe_eq_coe.2 (idsOf_perm h)

/-- rewriting the one element with key `x.k` of a duplicate-free list swaps exactly its objects -/
theorem msIds_map_at {es : List Entry} {x : Entry} (hnd : (keysOf es).Nodup) (hx : x ∈ es) (g : Entry → Entry) :
    ms x.ids + msIds (es.map (fun y => if y.k == x.k then g y else y)) = ms (g x).ids + msIds es := by
  induction es with
  | nil => cases hx
  | cons a rest ih =>
    simp only [keysOf, List.map_cons, List.nodup_cons] at hnd
    rcases List.mem_cons.1 hx with rfl | hin
    · have hrest : rest.map (fun y => if y.k == x.k then g y else y) = rest := by
        calc rest.map (fun y => if y.k == x.k then g y else y) = rest.map id := by
              apply List.map_congr_left
              intro y hy
              have : y.k ≠ x.k := fun heq => hnd.1 (by rw [← heq]; exact List.mem_map_of_mem hy)
              simp [this]
          _ = rest := List.map_id _
      simp only [List.map_cons, hrest, beq_self_eq_true, if_true, msIds_cons]
      abel
    · have hne : a.k ≠ x.k := by
        intro heq; apply hnd.1; rw [heq]; exact List.mem_map_of_mem hin
      have hne' : (a.k == x.k) = false := by simpa using hne
      simp only [List.map_cons, hne', Bool.false_eq_true, if_false, msIds_cons]
      have := ih hnd.2 hin
      calc ms x.ids + (ms a.ids + msIds (rest.map fun y => if y.k == x.k then g y else y))
          = ms a.ids + (ms x.ids + msIds (rest.map fun y => if y.k == x.k then g y else y)) := by abel
        _ = ms a.ids + (ms (g x).ids + msIds rest) := by rw [this]
        _ = _ := by abel

/-- rewrite the element at `loc` in place -/
def mapAt (m : Raw) (loc : Loc) (g : Entry → Entry) : Raw :=
  if loc.inMain
  then { m with main := { m.main with ents := m.main.ents.map (fun y => if y.k == loc.k then g y else y) } }
  else { m with lo := m.lo.map (fun ol => { ol with ents := ol.ents.map (fun y => if y.k == loc.k then g y else y) }) }

/-- the same one level up: the element a handle designates, in whichever table it lives -/
theorem msIds_mapAt {R : Nat} {m : Map} (h : Inv R m) {k : Nat} {loc : Loc} {e : Entry}
    (hf : m.find k = some (loc, e)) (g : Entry → Entry) :
    ms e.ids + msIds (mapAt m loc g).ents = ms (g e).ids + msIds m.ents := by
  unfold mapAt
  obtain ⟨hek, hlk, hor⟩ := (find_some_iff h k loc e).1 hf
  have hk : loc.k = e.k := by rw [hlk, hek]
  rcases hor with ⟨hm, hin⟩ | ⟨hm, o, ho, hin⟩
  · simp only [hm, if_true, Raw.ents, msIds_append, hk]
    have := msIds_map_at h.main_nodup hin g
    calc ms e.ids + (msIds (m.main.ents.map fun y => if y.k == e.k then g y else y) + msIds (match m.lo with | some o => o.ents | none => []))
        = (ms e.ids + msIds (m.main.ents.map fun y => if y.k == e.k then g y else y)) + msIds (match m.lo with | some o => o.ents | none => []) := by abel
      _ = (ms (g e).ids + msIds m.main.ents) + msIds (match m.lo with | some o => o.ents | none => []) := by rw [this]
      _ = _ := by abel
  · simp only [hm, Bool.false_eq_true, if_false, Raw.ents, ho, Option.map, msIds_append, hk]
    have := msIds_map_at (h.old_nodup ho) hin g
    calc ms e.ids + (msIds m.main.ents + msIds (o.ents.map fun y => if y.k == e.k then g y else y))
        = msIds m.main.ents + (ms e.ids + msIds (o.ents.map fun y => if y.k == e.k then g y else y)) := by abel
      _ = msIds m.main.ents + (ms (g e).ids + msIds o.ents) := by rw [this]
      _ = _ := by abel

theorem msIds_setValAt {R : Nat} {m : Map} (h : Inv R m) {k : Nat} {loc : Loc} {e : Entry}
    (hf : m.find k = some (loc, e)) (v vid : Nat) :
    ms [e.vid] + msIds (Map.setValAt m loc v vid).ents = ms [vid] + msIds m.ents := by
  have := msIds_mapAt h hf (fun y => { y with v := v, vid := vid })
  have heq : Map.setValAt m loc v vid = mapAt m loc (fun y => { y with v := v, vid := vid }) := by
    unfold Map.setValAt HB.setVal mapAt; rfl
  rw [← heq] at this
  simp only [Entry.ids] at this
  have e1 : ms [e.kid, e.vid] = ms [e.kid] + ms [e.vid] := by rw [← ms_append]; rfl
  have e2 : ms [e.kid, vid] = ms [e.kid] + ms [vid] := by rw [← ms_append]; rfl
  rw [e1, e2, add_assoc, add_assoc] at this
  exact add_left_cancel this

theorem msIds_setKidAt {R : Nat} {m : Map} (h : Inv R m) {k : Nat} {loc : Loc} {e : Entry}
    (hf : m.find k = some (loc, e)) (kid : Nat) :
    ms [e.kid] + msIds (Map.setKidAt m loc kid).ents = ms [kid] + msIds m.ents := by
  have := msIds_mapAt h hf (fun y => { y with kid := kid })
  have heq : Map.setKidAt m loc kid = mapAt m loc (fun y => { y with kid := kid }) := by
    unfold Map.setKidAt HB.setKid mapAt; rfl
  rw [← heq] at this
  simp only [Entry.ids] at this
  have e1 : ms [e.kid, e.vid] = ms [e.vid] + ms [e.kid] := by
    rw [← ms_append]; exact ms_perm.1 (List.Perm.swap _ _ _)
  have e2 : ms [kid, e.vid] = ms [e.vid] + ms [kid] := by
    rw [← ms_append]; exact ms_perm.1 (List.Perm.swap _ _ _)
  rw [e1, e2, add_assoc, add_assoc] at this
  exact add_left_cancel this

theorem ms_swap {a b M M' X Y : Multiset Nat} (key : a + M' = b + M) (hbal : b + (M + X) = a + (M + Y)) :
    M' + X = M + Y := by
  apply add_left_cancel (a := a)
  calc a + (M' + X) = (a + M') + X := by abel
    _ = (b + M) + X := by rw [key]
    _ = b + (M + X) := by abel
    _ = a + (M + Y) := hbal

theorem ms_cons (a : Nat) (l : List Nat) : ms (a :: l) = ms [a] + ms l := by
  rw [← ms_append]; rfl

/-- `replace_bucket_with` whose closure returned `None`: the element is gone, nothing else -/
theorem replaceAt_none_spec {R : Nat} (hR : 0 < R) {m : Map} (h : Inv R m) {k : Nat} {loc : Loc} {e : Entry}
    (hf : m.find k = some (loc, e)) (b : Bool) :
    ∃ m', Raw.replaceAt m loc none b = .ok (m', false) ∧ (e :: m'.ents).Perm m.ents := by
  obtain ⟨t', cost, hr, hi, hp, _⟩ := eraseAt_spec hR h hf b
  have hstate := replaceAt_none_state m loc b
  rw [hr] at hstate
  cases hrp : Raw.replaceAt m loc none b with
  | error f => rw [hrp] at hstate; cases hstate
  | ok r =>
    obtain ⟨m', bb⟩ := r
    rw [hrp] at hstate
    simp only [Except.map] at hstate
    injection hstate with hstate
    subst hstate
    have hb : bb = false := by
      unfold Raw.replaceAt at hrp
      by_cases hm : loc.inMain = true
      · simp only [hm, if_true] at hrp
        cases hk2 : m.main.removeKey loc.k b with
        | error f => rw [hk2] at hrp; cases hrp
        | ok p => rw [hk2] at hrp; injection hrp with hrp; injection hrp with _ hb; exact hb.symm
      · simp only [hm, Bool.false_eq_true, if_false] at hrp
        cases hlo : m.lo with
        | none => rw [hlo] at hrp; cases hrp
        | some ol =>
          rw [hlo] at hrp
          simp only at hrp
          cases hfo : ol.ents.find? (fun e => e.k == loc.k) with
          | none => rw [hfo] at hrp; cases hrp
          | some x => rw [hfo] at hrp; injection hrp with hrp; injection hrp with _ hb; exact hb.symm
    subst hb
    exact ⟨m', rfl, hp⟩

/-- `replace_bucket_with` whose closure returned `Some(v)`: the in-place update -/
theorem replaceAt_some_eq {R : Nat} {m : Map} (h : Inv R m) {k : Nat} {loc : Loc} {e : Entry}
    (hf : m.find k = some (loc, e)) (v vid : Nat) (b : Bool) :
    Raw.replaceAt m loc (some (v, vid)) b = .ok (Map.setValAt m loc v vid, true) := by
  obtain ⟨hek, hlk, hor⟩ := (find_some_iff h k loc e).1 hf
  unfold Raw.replaceAt Map.setValAt
  rcases hor with ⟨hm, hin⟩ | ⟨hm, ol, hol, hin⟩
  · have hfind : m.main.find? loc.k = some e := by
      unfold HB.find?; rw [hlk, ← hek]; exact find_key_of_mem h.main_nodup hin
    simp [hm, hfind]
  · have hfind : ol.ents.find? (fun x => x.k == loc.k) = some e := by
      rw [hlk, ← hek]; exact find_key_of_mem (h.old_nodup hol) hin
    simp [hm, hol, hfind, Option.map]

open Map

/-- the key object a handle carries -/
def heldIds : ES → List Nat
  | .occ _ spare => optIds spare
  | .vac key => optIds key
  | .done => []

/-- handles as the API makes them: raw-entry handles carry no key object, a (non-raw)
    `VacantEntry` owns the key it was created with -/
def ESWF (raw : Bool) : ES → Prop
  | .occ _ spare => raw = true → spare = none
  | .vac key => (raw = true → key = none) ∧ (raw = false → ∃ x, key = some x)
  | .done => True

/-- the objects the caller creates for a step — only when the step applies to the handle's variant
    (otherwise the harness, like a program, just drops the handle) -/
def stepIn (raw : Bool) : ES → EStep → List Nat
  | .occ _ _, .insert kid _ vid _ => vid :: (if raw then [kid] else [])
  | .vac _, .insert kid _ vid _ => vid :: (if raw then [kid] else [])
  | .occ _ _, .orInsert lzy kid _ vid _ => (if lzy then [] else [vid]) ++ (if raw && !lzy then [kid] else [])
  | .vac _, .orInsert _ kid _ vid _ => vid :: (if raw then [kid] else [])
  | .occ _ _, .occInsert _ vid => [vid]
  | .occ _ _, .occReplaceEntry _ vid => [vid]
  | .occ _ _, .occReplaceKey kid => if raw then [kid] else []
  | .vac _, .vacInsert _ kid _ vid _ => vid :: (if raw then [kid] else [])
  | _, _ => []

/-- everything that is not stored in the map: handed back, dropped, or held by the handle -/
def restOf (st : ES) (acc : ChainAcc) : Multiset Nat :=
  ms acc.returned + ms acc.cost.dropped + ms (heldIds st)

open Map in
/-- **One handle step conserves every object** (any step kind, handle state, API flavour, oracle):
    stored ⊎ handed back ⊎ dropped ⊎ held by the handle, afterwards, is the same multiset before
    plus the objects the caller created for the step. -/
theorem chainStep_ledger (c : Cfg) (hR : 0 < c.R) (raw : Bool) (k : Nat) (m : Map) (st : ES) (acc : ChainAcc)
    (s : EStep) (o : Orc) (h : Inv c.R m) (hok : HandleOK m k st) (hwf : ESWF raw st) (happ : Applicable raw st s) :
    OkOrCap (chainStep c raw k m st acc s o) (fun r =>
      ESWF raw r.2.1 ∧
      msIds r.1.ents + restOf r.2.1 r.2.2 = msIds m.ents + (restOf st acc + ms (stepIn raw st s))) := by
  -- inserting through a vacant handle
  have vins : ∀ (key : Option Nat) (kid v vid : Nat) (keep : Bool) (hh : Nat), m.find k = none → ESWF raw (.vac key) →
      OkOrCap (match Raw.insert c m { k := k, kid := (if raw then kid else key.getD kid), v := v, vid := vid } o.hits o.perm with
               | .error f => .error f
               | .ok (m', _, cost) =>
                 (.ok (m', (if keep then ES.occ ⟨true, k⟩ none else ES.done),
                    { acc with cost := acc.cost + { hashes := hh } + cost, seen := some (v, vid) }) :
                   Except Fault (Map × ES × ChainAcc)))
        (fun r => ESWF raw r.2.1 ∧
          msIds r.1.ents + restOf r.2.1 r.2.2
            = msIds m.ents + (restOf (.vac key) acc + ms (vid :: (if raw then [kid] else [])))) := by
    intro key kid v vid keep hh hvac hw
    have hfresh : k ∉ keysOf m.ents := (find_none_iff h k).1 hvac
    have hs := Raw.insert_spec c hR m { k := k, kid := (if raw then kid else key.getD kid), v := v, vid := vid }
      o.hits o.perm h hfresh
    cases hr : Raw.insert c m { k := k, kid := (if raw then kid else key.getD kid), v := v, vid := vid } o.hits o.perm with
    | error f => rw [hr] at hs; exact hs
    | ok r =>
      obtain ⟨m', hh', cost⟩ := r
      rw [hr] at hs
      simp only [OkOrCap] at hs ⊢
      obtain ⟨_, hp, _, _, _, hd, _⟩ := hs
      refine ⟨by cases keep <;> simp [ESWF], ?_⟩
      have hM : msIds m'.ents = ms [(if raw then kid else key.getD kid), vid] + msIds m.ents := by
        rw [msIds_perm hp, msIds_cons]; rfl
      have hheld : ms (heldIds (if keep then ES.occ ⟨true, k⟩ none else ES.done)) = 0 := by
        cases keep <;> rfl
      simp only [restOf, Cost.add_dropped, hd, List.append_nil, hheld, hM]
      cases raw with
      | true =>
        have hk0 : key = none := hw.1 rfl
        subst hk0
        simp only [if_true, heldIds, optIds, ms_nil]
        have e1 : ms [kid, vid] = ms [kid] + ms [vid] := ms_cons _ _
        have e2 : ms [vid, kid] = ms [vid] + ms [kid] := ms_cons _ _
        rw [e1, e2]; abel
      | false =>
        obtain ⟨x, hx⟩ := hw.2 rfl
        subst hx
        simp only [Bool.false_eq_true, if_false, Option.getD, heldIds, optIds]
        have e1 : ms [x, vid] = ms [x] + ms [vid] := ms_cons _ _
        rw [e1]; abel
  cases st with
  | done =>
    cases s <;> simp only [chainStep, OkOrCap, stepIn, ms_nil] <;> exact ⟨trivial, by abel⟩
  | vac key =>
    have hvac : m.find k = none := hok
    cases s with
    | andModify add => simp only [chainStep, OkOrCap, stepIn, ms_nil]; exact ⟨hwf, by abel⟩
    | andReplace keep add => simp only [chainStep, OkOrCap, stepIn, ms_nil]; exact ⟨hwf, by abel⟩
    | insert kid v vid add =>
      simp only [chainStep, stepIn]
      exact vins key kid (v + add) vid true _ hvac hwf
    | orInsert lzy kid v vid add =>
      simp only [chainStep, stepIn]
      exact vins key kid (v + add) vid false _ hvac hwf
    | vacInsert rehash kid v vid add =>
      simp only [chainStep, stepIn]
      exact vins key kid (v + add) vid false _ hvac hwf
    | vacIntoKey =>
      simp only [chainStep, OkOrCap, stepIn, ms_nil, restOf, heldIds, ms_append]
      exact ⟨trivial, by abel⟩
    | occRemove => simp only [chainStep, OkOrCap, stepIn, ms_nil, restOf, heldIds, Cost.add_dropped, ms_append]; exact ⟨trivial, by abel⟩
    | occRemoveEntry => simp only [chainStep, OkOrCap, stepIn, ms_nil, restOf, heldIds, Cost.add_dropped, ms_append]; exact ⟨trivial, by abel⟩
    | occInsert v vid => simp only [chainStep, OkOrCap, stepIn, ms_nil, restOf, heldIds, Cost.add_dropped, ms_append]; exact ⟨trivial, by abel⟩
    | occReplaceEntry v vid => simp only [chainStep, OkOrCap, stepIn, ms_nil, restOf, heldIds, Cost.add_dropped, ms_append]; exact ⟨trivial, by abel⟩
    | occReplaceKey kid => simp only [chainStep, OkOrCap, stepIn, ms_nil, restOf, heldIds, Cost.add_dropped, ms_append]; exact ⟨trivial, by abel⟩
    | occGetMut add => simp only [chainStep, OkOrCap, stepIn, ms_nil, restOf, heldIds, Cost.add_dropped, ms_append]; exact ⟨trivial, by abel⟩
    | occReplaceWith keep add => simp only [chainStep, OkOrCap, stepIn, ms_nil, restOf, heldIds, Cost.add_dropped, ms_append]; exact ⟨trivial, by abel⟩
  | occ loc spare =>
    obtain ⟨e, hf⟩ := hok
    have hva := valueAt_of_find h hf
    have eids : ms e.ids = ms [e.kid] + ms [e.vid] := ms_cons _ _
    -- an in-place value write that keeps the value object
    have keepv : ∀ v, msIds (setValAt m loc v e.vid).ents = msIds m.ents := by
      intro v
      exact add_left_cancel (msIds_setValAt h hf v e.vid)
    -- `replace_entry_with`
    have repl : ∀ (keep : Bool) (add : Nat),
        OkOrCap (match Raw.replaceAt m loc (if keep then some (e.v + add, e.vid) else none) (decide (0 < o.empt)) with
          | .error f => .error f
          | .ok (m', true) => .ok (m', ES.occ loc spare, acc)
          | .ok (m', false) => .ok (m', ES.vac (if raw then none else some e.kid),
              { acc with cost := acc.cost + { dropped := [e.vid] ++ optIds spare ++ (if raw then [e.kid] else []) } }))
        (fun r => ESWF raw r.2.1 ∧
          msIds r.1.ents + restOf r.2.1 r.2.2 = msIds m.ents + (restOf (.occ loc spare) acc + ms [])) := by
      intro keep add
      cases keep with
      | true =>
        simp only [if_true]
        rw [replaceAt_some_eq h hf (e.v + add) e.vid (decide (0 < o.empt))]
        simp only [OkOrCap, keepv, ms_nil]
        exact ⟨hwf, by abel⟩
      | false =>
        simp only [Bool.false_eq_true, if_false]
        obtain ⟨m', hr, hp⟩ := replaceAt_none_spec hR h hf (decide (0 < o.empt))
        rw [hr]
        simp only [OkOrCap]
        refine ⟨by cases raw <;> simp [ESWF], ?_⟩
        have hM : msIds m.ents = ms e.ids + msIds m'.ents := by rw [← msIds_perm hp, msIds_cons]
        simp only [restOf, Cost.add_dropped, ms_append, heldIds, ms_nil, hM, eids]
        cases raw <;> simp only [if_true, Bool.false_eq_true, if_false, optIds, ms_nil] <;> abel
    cases s with
    | andModify add =>
      simp only [chainStep, hva, OkOrCap, stepIn, ms_nil, keepv]
      exact ⟨hwf, by abel⟩
    | andReplace keep add => simp only [chainStep, hva, stepIn]; exact repl keep add
    | occReplaceWith keep add => simp only [chainStep, hva, stepIn]; exact repl keep add
    | occGetMut add =>
      simp only [chainStep, hva, OkOrCap, stepIn, ms_nil, keepv, restOf]
      exact ⟨hwf, by abel⟩
    | insert kid v vid add =>
      simp only [chainStep, hva, OkOrCap, stepIn]
      refine ⟨hwf, ?_⟩
      have key := msIds_setValAt h hf (v + add) vid
      simp only [restOf, Cost.add_dropped, ms_append, heldIds]
      refine ms_swap key ?_
      rw [ms_cons vid (if raw = true then [kid] else [])]
      abel
    | orInsert lzy kid v vid add =>
      simp only [chainStep, hva, OkOrCap, stepIn, keepv]
      refine ⟨trivial, ?_⟩
      simp only [restOf, Cost.add_dropped, ms_append, heldIds, ms_nil]
      abel
    | occRemove =>
      simp only [chainStep, stepIn]
      obtain ⟨t', cost, hr, _, hp, _, _, _, _, _, hd, _⟩ := removeAt_spec hR h hf (decide (0 < o.empt))
      rw [hr]
      simp only [OkOrCap]
      refine ⟨trivial, ?_⟩
      have hM : msIds m.ents = ms e.ids + msIds t'.ents := by rw [← msIds_perm hp, msIds_cons]
      simp only [restOf, Cost.add_dropped, hd, List.append_nil, ms_append, heldIds, ms_nil, hM, eids]
      abel
    | occRemoveEntry =>
      simp only [chainStep, stepIn]
      obtain ⟨t', cost, hr, _, hp, _, _, _, _, _, hd, _⟩ := removeAt_spec hR h hf (decide (0 < o.empt))
      rw [hr]
      simp only [OkOrCap]
      refine ⟨trivial, ?_⟩
      have hM : msIds m.ents = ms e.ids + msIds t'.ents := by rw [← msIds_perm hp, msIds_cons]
      simp only [restOf, Cost.add_dropped, hd, List.append_nil, ms_append, heldIds, ms_nil, hM]
      abel
    | occInsert v vid =>
      simp only [chainStep, hva, OkOrCap, stepIn]
      refine ⟨hwf, ?_⟩
      have key := msIds_setValAt h hf v vid
      simp only [restOf, ms_append, heldIds]
      refine ms_swap key ?_
      abel
    | occReplaceEntry v vid =>
      simp only [chainStep, hva, stepIn]
      cases spare with
      | none => exact absurd happ (by simp [Applicable])
      | some sk =>
        simp only [OkOrCap]
        refine ⟨trivial, ?_⟩
        obtain ⟨hi1, hf1, _⟩ := setValAt_spec h hf v vid
        have k1 := msIds_setValAt h hf v vid
        have k2 := msIds_setKidAt hi1 hf1 sk
        simp only at k2
        simp only [restOf, ms_append, heldIds, optIds, ms_nil]
        have e2 : ms [e.kid, e.vid] = ms [e.kid] + ms [e.vid] := ms_cons _ _
        rw [e2]
        -- ms[e.kid] + M2 = ms[sk] + M1 ; ms[e.vid] + M1 = ms[vid] + M
        apply add_left_cancel (a := ms [e.vid])
        calc ms [e.vid] + (msIds (setKidAt (setValAt m loc v vid) loc sk).ents + (ms acc.returned + (ms [e.kid] + ms [e.vid]) + ms acc.cost.dropped + 0))
            = (ms [e.kid] + msIds (setKidAt (setValAt m loc v vid) loc sk).ents) + (ms [e.vid] + (ms acc.returned + ms [e.vid] + ms acc.cost.dropped)) := by abel
          _ = (ms [sk] + msIds (setValAt m loc v vid).ents) + (ms [e.vid] + (ms acc.returned + ms [e.vid] + ms acc.cost.dropped)) := by rw [k2]
          _ = (ms [e.vid] + msIds (setValAt m loc v vid).ents) + (ms [sk] + (ms acc.returned + ms [e.vid] + ms acc.cost.dropped)) := by abel
          _ = (ms [vid] + msIds m.ents) + (ms [sk] + (ms acc.returned + ms [e.vid] + ms acc.cost.dropped)) := by rw [k1]
          _ = _ := by abel
    | occReplaceKey kid =>
      simp only [chainStep, hva, stepIn]
      cases raw with
      | true =>
        simp only [if_true, OkOrCap]
        refine ⟨hwf, ?_⟩
        have key := msIds_setKidAt h hf kid
        simp only [restOf, ms_append, heldIds]
        refine ms_swap key ?_
        abel
      | false =>
        simp only [Bool.false_eq_true, if_false]
        cases spare with
        | none => simp [Applicable] at happ
        | some sk =>
          simp only [OkOrCap]
          refine ⟨trivial, ?_⟩
          have key := msIds_setKidAt h hf sk
          simp only [restOf, ms_append, heldIds, optIds, ms_nil]
          refine ms_swap key ?_
          abel
    | vacInsert rehash kid v vid add =>
      simp only [chainStep, OkOrCap, stepIn, ms_nil, restOf, heldIds, Cost.add_dropped, ms_append]; exact ⟨trivial, by abel⟩
    | vacIntoKey =>
      simp only [chainStep, OkOrCap, stepIn, ms_nil, restOf, heldIds, Cost.add_dropped, ms_append]; exact ⟨trivial, by abel⟩

end Griddle
