/-
  GriddleModel.Map — layer 3: the public `HashMap` API (`/repo/src/map.rs`) as compositions of
  layer-2 calls, exactly as `map.rs` composes them.  (`HashSet<T>` is `HashMap<T, ()>`,
  `/repo/src/set.rs`; its operations are the `Set.*` definitions at the end.)

  Every user callback (`Hash`) is counted in `Cost.hashes`.
-/
import GriddleModel.Raw
namespace Griddle

/-- What a call hands back to its caller. -/
inductive Ret
  | unit
  | bool (b : Bool)
  /-- `Option<V>` / `Option<&V>`: value and value-object id -/
  | optV (r : Option (Nat × Nat))
  /-- `Option<(K, V)>` / `Option<(&K, &V)>` -/
  | optKV (r : Option Entry)
  /-- `Result<(), TryReserveError>` -/
  | res (e : Option AllocErr)
  /-- a sequence of entries (iterators) -/
  | ents (es : List Entry)
  /-- entry-chain result: was the entry occupied at the start, plus the final value seen -/
  | chain (occupied : Bool) (r : Option (Nat × Nat))
  deriving Repr, DecidableEq

/-- Oracle values for one call (hashbrown's private choices, resolved from observation by the
    correspondence driver, universally quantified in the theorems). -/
structure Orc where
  /-- how many insertions of this call land on tombstones -/
  hits : Nat := 0
  /-- how many main-table erasures of this call write EMPTY -/
  empt : Nat := 0
  /-- iteration order of the main table if this call parks it -/
  perm : List Nat := []
  /-- order in which an iterating call visits keys -/
  calls : List Nat := []
  /-- identities given to cloned objects: key ↦ (kid, vid) -/
  fresh : List (Nat × Nat × Nat) := []
  deriving Repr

structure Out where
  ret : Ret := .unit
  cost : Cost := {}
  /-- object ids handed back to the caller (they are the caller's to drop) -/
  returned : List Nat := []
  deriving Repr

abbrev Map := Raw

/-- A predicate/closure the harness can express: matches `k` iff
    (`k ∈ set` if `useSet` else `k % modulus = rem`) xor `neg`; every call adds `add` to the value. -/
structure Pred where
  useSet : Bool := false
  set : List Nat := []
  modulus : Nat := 1
  rem : Nat := 0
  neg : Bool := false
  add : Nat := 0
  deriving Repr

def Pred.test (p : Pred) (k : Nat) : Bool :=
  (if p.useSet then p.set.contains k else k % p.modulus == p.rem) != p.neg

namespace Map

def withCapacity (c : Cfg) (cap : Nat) : Except Fault (Map × Out) :=
  match Raw.withCapacity c cap with
  | .error f => .error f
  | .ok (t, cost) => .ok (t, { cost := cost })

/-- `insert(k, v)` -/
def insert (c : Cfg) (m : Map) (e : Entry) (o : Orc) : Except Fault (Map × Out) :=
  match m.find e.k with
  | some (loc, old) =>
    -- mem::replace of the value; the key argument is dropped
    let m1 : Map :=
      if loc.inMain then { m with main := m.main.setVal e.k e.v e.vid }
      else { m with lo := m.lo.map (fun ol => { ol with ents := ol.ents.map (fun x =>
                if x.k == e.k then { x with v := e.v, vid := e.vid } else x) }) }
    if !loc.inMain then
      if c.debug && !m1.isSplit then .error (.panic .debugAssert)
      else match Raw.carry c m1 o.hits with
        | .error f => .error f
        | .ok (m2, _, cost) =>
          .ok (m2, { ret := .optV (some (old.v, old.vid)),
                     cost := { hashes := 1, dropped := [e.kid] } + cost, returned := [old.vid] })
    else .ok (m1, { ret := .optV (some (old.v, old.vid)),
                    cost := { hashes := 1, dropped := [e.kid] }, returned := [old.vid] })
  | none =>
    match Raw.insert c m e o.hits o.perm with
    | .error f => .error f
    | .ok (m', _, cost) => .ok (m', { ret := .optV none, cost := { hashes := 1 } + cost })

/-- `get_key_value(k)` (also `get`, `contains_key`, `index`: projections of it) -/
def get (m : Map) (k : Nat) : Out :=
  { ret := .optKV ((m.find k).map (·.2)), cost := { hashes := 1 } }

/-- `get_mut(k)` followed by `*v += add` through the returned reference -/
def getMut (m : Map) (k add : Nat) : Map × Out :=
  match m.find k with
  | none => (m, { ret := .optV none, cost := { hashes := 1 } })
  | some (loc, e) =>
    let m' : Map :=
      if loc.inMain then { m with main := m.main.setVal k (e.v + add) e.vid }
      else { m with lo := m.lo.map (fun ol => { ol with ents := ol.ents.map (fun x =>
                if x.k == k then { x with v := e.v + add, vid := e.vid } else x) }) }
    (m', { ret := .optV (some (e.v + add, e.vid)), cost := { hashes := 1 } })

/-- `remove_entry(k)` (`remove(k)` drops the key it gets back) -/
def removeEntry (m : Map) (k : Nat) (o : Orc) : Except Fault (Map × Out) :=
  match m.find k with
  | none => .ok (m, { ret := .optKV none, cost := { hashes := 1 } })
  | some (loc, _) =>
    match Raw.removeAt m loc (decide (0 < o.empt)) with
    | .error f => .error f
    | .ok (m', e, cost) =>
      .ok (m', { ret := .optKV (some e), cost := { hashes := 1 } + cost, returned := e.ids })

def clear (m : Map) : Map × Out :=
  let (m', cost) := Raw.clear m
  (m', { cost := cost })

def reserve (c : Cfg) (m : Map) (n : Nat) (o : Orc) : Except Fault (Map × Out) :=
  match Raw.reserve c m n o.hits o.perm with
  | .error f => .error f
  | .ok (m', cost) => .ok (m', { cost := cost })

def tryReserve (c : Cfg) (m : Map) (n : Nat) (o : Orc) : Except Fault (Map × Out) :=
  match Raw.tryReserve c m n o.hits o.perm with
  | .error f => .error f
  | .ok (m', e, cost) => .ok (m', { ret := .res e, cost := cost })

def shrinkTo (c : Cfg) (m : Map) (n : Nat) : Except Fault (Map × Out) :=
  match Raw.shrinkTo c m n with
  | .error f => .error f
  | .ok (m', cost) => .ok (m', { cost := cost })

/-- The order in which `RawIter` (main table, then a clone of the cached old-table iterator)
    may visit keys: some enumeration of the main table, then the old table in cursor order. -/
def iterOrderOk (m : Map) (order : List Nat) : Bool :=
  let nMain := m.main.ents.length
  let mainPart := order.take nMain
  let oldPart := order.drop nMain
  decide (mainPart.length = nMain) && decide mainPart.Nodup
    && mainPart.all (fun k => (m.main.find? k).isSome)
    && decide (oldPart = (match m.lo with | some o => (o.ents.take o.cursor).map (·.k) | none => []))

/-- `into_iter` / `drain` order: old table (cursor order) first, then main. -/
def drainOrderOk (m : Map) (order : List Nat) : Bool :=
  let oldKeys := match m.lo with | some o => (o.ents.take o.cursor).map (·.k) | none => []
  let oldPart := order.take oldKeys.length
  let mainPart := order.drop oldKeys.length
  decide (oldPart = oldKeys) && decide (mainPart.length = m.main.ents.length) && decide mainPart.Nodup
    && mainPart.all (fun k => (m.main.find? k).isSome)

/-- add `add` to the value of `k`, wherever it lives -/
def bump (m : Map) (loc : Loc) (add : Nat) : Map :=
  if loc.inMain then
    { m with main := { m.main with ents := m.main.ents.map (fun x =>
        if x.k == loc.k then { x with v := x.v + add } else x) } }
  else { m with lo := m.lo.map (fun ol => { ol with ents := ol.ents.map (fun x =>
        if x.k == loc.k then { x with v := x.v + add } else x) }) }

/-- the `in_main` flag `RawIter` attaches to the `i`-th element it yields -/
def locOfIndex (nMain : Nat) (i : Nat) (k : Nat) : Loc := ⟨decide (i < nMain), k⟩

/-- `retain(f)`'s loop over an explicit visiting order. -/
def retainLoop (p : Pred) (nMain : Nat) : List Nat → Nat → Map → Nat → Cost → Except Fault (Map × Cost)
  | [], _, m, _, cost => .ok (m, cost)
  | k :: rest, i, m, empt, cost =>
    let loc := locOfIndex nMain i k
    let m1 := bump m loc p.add
    if p.test k then retainLoop p nMain rest (i + 1) m1 empt cost
    else
      match Raw.eraseAt m1 loc (decide (0 < empt)) with
      | .error f => .error f
      | .ok (m2, ec) =>
        retainLoop p nMain rest (i + 1) m2 (if loc.inMain then empt - 1 else empt) (cost + ec)

/-- `retain(f)` with `f = |k, v| { *v += p.add; p.test k }` -/
def retain (m : Map) (p : Pred) (o : Orc) : Except Fault (Map × Out) :=
  if !iterOrderOk m o.calls then .error (.oracle "retain: visiting order is not main-then-old")
  else match retainLoop p m.main.ents.length o.calls 0 m o.empt {} with
    | .error f => .error f
    | .ok (m', cost) => .ok (m', { cost := cost })

/-- `DrainFilter::next` repeated: visit keys in order, remove the matching ones, stop after `take`
    have been yielded (`take = none`: run to the end, which is what dropping it does). -/
def drainFilterLoop (p : Pred) (nMain : Nat) :
    List Nat → Nat → Map → Nat → Option Nat → List Entry → Cost → Except Fault (Map × List Entry × Cost × List Nat)
  | [], _, m, _, _, acc, cost => .ok (m, acc.reverse, cost, [])
  | k :: rest, i, m, empt, take, acc, cost =>
    if take = some 0 then .ok (m, acc.reverse, cost, k :: rest)
    else
      let loc := locOfIndex nMain i k
      let m1 := bump m loc p.add
      if p.test k then
        match Raw.removeAt m1 loc (decide (0 < empt)) with
        | .error f => .error f
        | .ok (m2, e, rc) =>
          drainFilterLoop p nMain rest (i + 1) m2 (if loc.inMain then empt - 1 else empt)
            (take.map (· - 1)) (e :: acc) (cost + rc)
      else drainFilterLoop p nMain rest (i + 1) m1 empt take acc cost

/-- `drain_filter(f)`, `take` items pulled, then the iterator is dropped (`forget = false`:
    the rest of the matching elements are removed and dropped) or forgotten.
    `o.calls` is the full order the underlying `RawIter` would visit. -/
def drainFilter (m : Map) (p : Pred) (take : Nat) (forget : Bool) (o : Orc) : Except Fault (Map × Out) :=
  if !iterOrderOk m o.calls then .error (.oracle "drain_filter: visiting order is not main-then-old")
  else
    let nMain := m.main.ents.length
    match drainFilterLoop p nMain o.calls 0 m o.empt (some take) [] {} with
    | .error f => .error f
    | .ok (m1, yielded, cost, rest) =>
      if forget then .ok (m1, { ret := .ents yielded, cost := cost, returned := idsOf yielded })
      else
        -- Drop: `while let Some(item) = self.next() { drop(item) }`
        let visited := o.calls.length - rest.length
        let usedEmpt := (yielded.filter (fun e => (m.main.find? e.k).isSome)).length
        match drainFilterLoop p nMain rest visited m1 (o.empt - usedEmpt) none [] {} with
        | .error f => .error f
        | .ok (m2, dropped, cost2, _) =>
          .ok (m2, { ret := .ents yielded, cost := cost + cost2 + { dropped := idsOf dropped },
                     returned := idsOf yielded })

/-- the cached iterator claims more elements than the old table holds (`into_iter_from`'s
    precondition would be violated) -/
def overCount (m : Map) : Bool :=
  match m.lo with | some ol => decide (ol.ents.length < ol.cursor) | none => false

/-- `drain()`, `take` items pulled, then dropped or forgotten. -/
def drain (m : Map) (take : Nat) (forget : Bool) (o : Orc) : Except Fault (Map × Out) :=
  if !drainOrderOk m o.calls then .error (.oracle "drain: order is not old-then-main")
  else if overCount m then
    .error (.ub "into_iter_from: iterator count exceeds the table's elements")
  else
    let all := o.calls.filterMap (fun k => (m.find k).map (·.2))
    let yielded := all.take take
    let restE := all.drop take
    -- elements of the old table the cached iterator no longer covers are dropped with the table
    let uncovered : List Entry := match m.lo with | some ol => ol.ents.drop ol.cursor | none => []
    let oldFree : Cost := match m.lo with | some ol => ol.freeCost | none => {}
    if forget then
      -- the main table's allocation stays with the forgotten `RawDrain`; the map keeps `NEW`.
      -- A forgotten old-table `RawIntoIter` leaks the old table as well.
      -- (the old table's iterator is released by the first `next()` after its last element)
      let nOld := match m.lo with | some ol => ol.cursor | none => 0
      .ok ({ main := HB.new, lo := none },
           { ret := .ents yielded, cost := if nOld < take then oldFree else {}, returned := idsOf yielded })
    else
      .ok ({ main := m.main.clearNoDrop, lo := none },
           { ret := .ents yielded, cost := oldFree + { dropped := idsOf restE ++ idsOf uncovered },
             returned := idsOf yielded })

/-- `into_iter()`, `take` items pulled, then the iterator is dropped: the map is consumed; what was
    not yielded is dropped, both tables are freed. -/
def intoIter (m : Map) (take : Nat) (o : Orc) : Except Fault Out :=
  if !drainOrderOk m o.calls then .error (.oracle "into_iter: order is not old-then-main")
  else if overCount m then
    .error (.ub "into_iter_from: iterator count exceeds the table's elements")
  else
    let all := o.calls.filterMap (fun k => (m.find k).map (·.2))
    let yielded := all.take take
    let restE := all.drop take
    let uncovered : List Entry := match m.lo with | some ol => ol.ents.drop ol.cursor | none => []
    let oldFree : Cost := match m.lo with | some ol => ol.freeCost | none => {}
    .ok { ret := .ents yielded, cost := oldFree + m.main.freeCost + { dropped := idsOf restE ++ idsOf uncovered },
          returned := idsOf yielded }

/-- `iter()` (and `iter_mut`, `keys`, `values`, `values_mut`): the sequence yielded. -/
def iter (m : Map) (o : Orc) : Except Fault Out :=
  if !iterOrderOk m o.calls then .error (.oracle "iter: order is not main-then-old")
  else .ok { ret := .ents (o.calls.filterMap (fun k => (m.find k).map (·.2))) }

/-- `iter_mut()` with `*v += add` on every element -/
def iterMutAdd (m : Map) (add : Nat) : Map :=
  { main := { m.main with ents := m.main.ents.map (fun x => { x with v := x.v + add }) },
    lo := m.lo.map (fun ol => { ol with ents := ol.ents.map (fun x => { x with v := x.v + add }) }) }

def freshOf (fresh : List (Nat × Nat × Nat)) (e : Entry) : Entry :=
  match fresh.find? (fun x => x.1 == e.k) with
  | some (_, kid, vid) => { e with kid := kid, vid := vid }
  | none => e

/-- `clone()` -/
def clone (c : Cfg) (m : Map) (o : Orc) : Except Fault (Map × Out) :=
  match Raw.cloneWith c m (freshOf o.fresh) o.hits with
  | .error f => .error f
  | .ok (m', cost) => .ok (m', { cost := cost })

/-- `dst.clone_from(&src)` -/
def cloneFrom (c : Cfg) (dst src : Map) (o : Orc) : Except Fault (Map × Out) :=
  match Raw.cloneFrom c dst src (freshOf o.fresh) o.hits with
  | .error f => .error f
  | .ok (m', cost) => .ok (m', { cost := cost })

/-! ### `extend` / `from_iter` -/

/-- `iter.for_each(|(k, v)| { self.insert(k, v); })` — the value an overwriting `insert` hands back is
    dropped on the spot.  `orc m n`: the oracle of the call issued in state `m` with `n` pairs still to come
    (hashbrown's choices may depend on everything that happened before). -/
def extendLoop (c : Cfg) (orc : Map → Nat → Orc) : Map → List Entry → Cost → Except Fault (Map × Cost)
  | m, [], cost => .ok (m, cost)
  | m, e :: rest, cost =>
    match insert c m e (orc m rest.length) with
    | .error f => .error f
    | .ok (m', out) => extendLoop c orc m' rest (cost + out.cost + { dropped := out.returned })

/-- `extend(iter)`: reserve the whole `size_hint().0` if the map is empty, half of it (rounded up) otherwise, then
    insert every pair.  `hint` is what the iterator CLAIMS (`size_hint` is advisory: it need not be the number of
    pairs, and may be `usize::MAX`); the rounding is `hint / 2 + hint % 2`, which cannot overflow — an unsatisfiable
    hint ends in `reserve`'s capacity-overflow panic.  `from_iter` is `extend` on `with_capacity_and_hasher(0, …)`. -/
def extend (c : Cfg) (m : Map) (items : List Entry) (hint : Nat) (orc : Map → Nat → Orc) : Except Fault (Map × Out) :=
  let hint := if m.len = 0 then hint else hint / 2 + hint % 2
  match reserve c m hint (orc m items.length) with
  | .error f => .error f
  | .ok (m1, out1) =>
    match extendLoop c orc m1 items out1.cost with
    | .error f => .error f
    | .ok (m2, cost) => .ok (m2, { cost := cost })

/-! ### Entry / raw-entry handle chains (`entry(k)…`, `raw_entry_mut().from_*(k)…`) -/

/-- One method call on an entry handle.  Steps for the occupied (`occ…`) or vacant (`vac…`) variant
    are skipped by the harness (the handle is dropped) when the entry is the other variant. -/
inductive EStep
  /-- `and_modify(|v| *v += add)` -/
  | andModify (add : Nat)
  /-- `and_replace_entry_with(|_, v| if keep { Some(v + add) } else { None })` -/
  | andReplace (keep : Bool) (add : Nat)
  /-- `Entry::insert(v)` / `RawEntryMut::insert(k, v)`; the occupied handle returned is then
      written through (`*get_mut() += add`) and read -/
  | insert (kid v vid add : Nat)
  /-- `or_insert(v)` (`lzy = false`) or `or_insert_with*` / `or_default` (`lzy = true`: the value
      object only exists if the entry was vacant); the reference returned gets `+= add` -/
  | orInsert (lzy : Bool) (kid v vid add : Nat)
  | occRemove
  | occRemoveEntry
  | occInsert (v vid : Nat)
  /-- `OccupiedEntry::replace_entry(v)` -/
  | occReplaceEntry (v vid : Nat)
  /-- `OccupiedEntry::replace_key()` / `RawOccupiedEntryMut::insert_key(k)` -/
  | occReplaceKey (kid : Nat)
  /-- `get_mut()` / `into_mut()` / `into_key_value()` then `+= add` -/
  | occGetMut (add : Nat)
  /-- `replace_entry_with` on the occupied handle -/
  | occReplaceWith (keep : Bool) (add : Nat)
  /-- `VacantEntry::insert(v)` / `RawVacantEntryMut::insert*(k, v)` then `+= add`;
      `rehash`: the call hashes the key again (`RawVacantEntryMut::insert`) -/
  | vacInsert (rehash : Bool) (kid v vid add : Nat)
  | vacIntoKey
  deriving Repr

/-- State of a handle: occupied (where the element is, and the spare key object an
    `OccupiedEntry` still carries) or vacant (the key object a `VacantEntry` owns). -/
inductive ES
  | occ (loc : Loc) (spare : Option Nat)
  | vac (key : Option Nat)
  /-- consumed by a terminal call -/
  | done
  deriving Repr

structure ChainAcc where
  cost : Cost := {}
  returned : List Nat := []
  seen : Option (Nat × Nat) := none
  deriving Repr

def optIds (o : Option Nat) : List Nat := match o with | some x => [x] | none => []

/-- value currently stored for the located element -/
def valueAt (m : Map) (loc : Loc) : Option Entry :=
  if loc.inMain then m.main.find? loc.k
  else match m.lo with | some o => o.ents.find? (fun e => e.k == loc.k) | none => none

def setValAt (m : Map) (loc : Loc) (v vid : Nat) : Map :=
  if loc.inMain then { m with main := m.main.setVal loc.k v vid }
  else { m with lo := m.lo.map (fun ol => { ol with ents := ol.ents.map (fun x =>
          if x.k == loc.k then { x with v := v, vid := vid } else x) }) }

def setKidAt (m : Map) (loc : Loc) (kid : Nat) : Map :=
  if loc.inMain then { m with main := m.main.setKid loc.k kid }
  else { m with lo := m.lo.map (fun ol => { ol with ents := ol.ents.map (fun x =>
          if x.k == loc.k then { x with kid := kid } else x) }) }

/-- `raw = true`: the raw-entry API (no spare key in the handle; keys are passed at insertion). -/
def chainStep (c : Cfg) (raw : Bool) (k : Nat) (m : Map) (st : ES) (acc : ChainAcc) (s : EStep) (o : Orc) :
    Except Fault (Map × ES × ChainAcc) :=
  let bad : Except Fault (Map × ES × ChainAcc) := .error (.ub "handle designates no element")
  /- drop the handle: the spare / owned key object goes with it -/
  let dropHandle (st : ES) (acc : ChainAcc) : ChainAcc :=
    match st with
    | .occ _ spare => { acc with cost := acc.cost + { dropped := optIds spare } }
    | .vac key => { acc with cost := acc.cost + { dropped := optIds key } }
    | .done => acc
  /- inserting through a vacant handle -/
  let vacIns (key : Option Nat) (rehash : Bool) (kid v vid add : Nat) (acc : ChainAcc) (keep : Bool) :=
    let kid' := if raw then kid else key.getD kid
    match Raw.insert c m { k := k, kid := kid', v := v + add, vid := vid } o.hits o.perm with
    | .error f => .error f
    | .ok (m', _, cost) =>
      let acc' := { acc with cost := acc.cost + { hashes := if rehash then 1 else 0 } + cost,
                             seen := some (v + add, vid) }
      -- `Entry::insert` returns an occupied handle without a spare key
      .ok (m', if keep then ES.occ ⟨true, k⟩ none else ES.done, acc')
  match s, st with
  | _, .done => .ok (m, .done, acc)
  | .andModify add, .occ loc spare =>
    match valueAt m loc with
    | none => bad
    | some e => .ok (setValAt m loc (e.v + add) e.vid, .occ loc spare, acc)
  | .andModify _, .vac key => .ok (m, .vac key, acc)
  | .andReplace keep add, .occ loc spare | .occReplaceWith keep add, .occ loc spare =>
    match valueAt m loc with
    | none => bad
    | some e =>
      match Raw.replaceAt m loc (if keep then some (e.v + add, e.vid) else none) (decide (0 < o.empt)) with
      | .error f => .error f
      | .ok (m', true) => .ok (m', .occ loc spare, acc)
      | .ok (m', false) =>
        -- the closure consumed (dropped) the value; the stored key becomes the vacant handle's key
        -- (raw API: it is dropped), the spare key is dropped with the old handle
        let acc' := { acc with cost := acc.cost + { dropped := [e.vid] ++ optIds spare ++ (if raw then [e.kid] else []) } }
        .ok (m', .vac (if raw then none else some e.kid), acc')
  | .andReplace _ _, .vac key => .ok (m, .vac key, acc)
  | .insert kid v vid add, .occ loc spare =>
    match valueAt m loc with
    | none => bad
    | some e =>
      -- old value dropped inside the call; raw API: the key argument is dropped too
      let acc' := { acc with cost := acc.cost + { dropped := [e.vid] ++ (if raw then [kid] else []) },
                             seen := some (v + add, vid) }
      .ok (setValAt m loc (v + add) vid, .occ loc spare, acc')
  | .insert kid v vid add, .vac key => vacIns key raw kid v vid add acc true
  | .orInsert lzy kid v vid add, .occ loc spare =>
    match valueAt m loc with
    | none => bad
    | some e =>
      let unused := (if lzy then [] else [vid]) ++ (if raw && !lzy then [kid] else [])
      let acc' := { acc with cost := acc.cost + { dropped := unused ++ optIds spare },
                             seen := some (e.v + add, e.vid) }
      .ok (setValAt m loc (e.v + add) e.vid, .done, acc')
  | .orInsert _ kid v vid add, .vac key => vacIns key raw kid v vid add acc false
  | .occRemove, .occ loc spare =>
    match Raw.removeAt m loc (decide (0 < o.empt)) with
    | .error f => .error f
    | .ok (m', e, cost) =>
      .ok (m', .done, { acc with cost := acc.cost + cost + { dropped := [e.kid] ++ optIds spare },
                                 returned := acc.returned ++ [e.vid], seen := some (e.v, e.vid) })
  | .occRemoveEntry, .occ loc spare =>
    match Raw.removeAt m loc (decide (0 < o.empt)) with
    | .error f => .error f
    | .ok (m', e, cost) =>
      .ok (m', .done, { acc with cost := acc.cost + cost + { dropped := optIds spare },
                                 returned := acc.returned ++ e.ids, seen := some (e.v, e.vid) })
  | .occInsert v vid, .occ loc spare =>
    match valueAt m loc with
    | none => bad
    | some e =>
      .ok (setValAt m loc v vid, .occ loc spare,
           { acc with returned := acc.returned ++ [e.vid], seen := some (e.v, e.vid) })
  | .occReplaceEntry v vid, .occ loc spare =>
    match valueAt m loc, spare with
    | some e, some sk =>
      .ok (setKidAt (setValAt m loc v vid) loc sk, .done,
           { acc with returned := acc.returned ++ [e.kid, e.vid], seen := some (e.v, e.vid) })
    | _, _ => bad
  | .occReplaceKey kid, .occ loc spare =>
    match valueAt m loc with
    | none => bad
    | some e =>
      if raw then
        .ok (setKidAt m loc kid, .occ loc spare, { acc with returned := acc.returned ++ [e.kid] })
      else match spare with
        | some sk => .ok (setKidAt m loc sk, .done, { acc with returned := acc.returned ++ [e.kid] })
        | none => bad
  | .occGetMut add, .occ loc spare =>
    match valueAt m loc with
    | none => bad
    | some e =>
      .ok (setValAt m loc (e.v + add) e.vid, .occ loc spare, { acc with seen := some (e.v + add, e.vid) })
  | .vacInsert rehash kid v vid add, .vac key => vacIns key rehash kid v vid add acc false
  | .vacIntoKey, .vac key => .ok (m, .done, { acc with returned := acc.returned ++ optIds key })
  -- a step for the other variant: the harness drops the handle
  | _, st => .ok (m, .done, dropHandle st acc)

/-- A chain may erase and insert several times (`insert` … `replace_entry_with(None)` … `insert` …), and what
    hashbrown does with one erasure decides the fate of the insertion after it: the oracle of a chain is
    therefore read position by position — step `i` sees digit `i` of `empt` (base 2: does this step's erasure
    write EMPTY) and of `hits` (base `B`: tombstone landings of this step's insertion). -/
def _root_.Griddle.Orc.digit (B : Nat) (o : Orc) : Orc := { o with empt := o.empt % 2, hits := o.hits % B }
def _root_.Griddle.Orc.shift (B : Nat) (o : Orc) : Orc := { o with empt := o.empt / 2, hits := o.hits / B }

def chainLoop (c : Cfg) (raw : Bool) (k : Nat) : List EStep → Map → ES → ChainAcc → Orc →
    Except Fault (Map × ES × ChainAcc)
  | [], m, st, acc, _ => .ok (m, st, acc)
  | s :: rest, m, st, acc, o =>
    match chainStep c raw k m st acc s (o.digit (c.R + 2)) with
    | .error f => .error f
    | .ok (m', st', acc') => chainLoop c raw k rest m' st' acc' (o.shift (c.R + 2))

/-- the handle a lookup yields -/
def lookupState (raw : Bool) (m : Map) (k kid : Nat) : ES :=
  match m.find k with
  | some (loc, _) => .occ loc (if raw then none else some kid)
  | none => .vac (if raw then none else some kid)

/-- `entry(k)` (or `raw_entry_mut().from_key(&k)` etc.), the steps, then the handle is dropped.
    `lookupHashes`: hash computations of the lookup itself (0 for `from_key_hashed_nocheck` /
    `from_hash`, where the caller supplies the hash). -/
def entryChain (c : Cfg) (raw : Bool) (lookupHashes : Nat) (m : Map) (k kid : Nat) (steps : List EStep) (o : Orc) :
    Except Fault (Map × Out) :=
  let st0 : ES := lookupState raw m k kid
  let occ0 := match st0 with | .occ _ _ => true | _ => false
  match chainLoop c raw k steps m st0 { cost := { hashes := lookupHashes } } o with
  | .error f => .error f
  | .ok (m', st, acc) =>
    let final : Cost := match st with
      | .occ _ spare => { dropped := optIds spare }
      | .vac key => { dropped := optIds key }
      | .done => {}
    .ok (m', { ret := .chain occ0 acc.seen, cost := acc.cost + final, returned := acc.returned })

/-- `a == b`: lengths, then every element of `a` looked up in `b`. -/
def eq (a b : Map) : Bool :=
  a.len == b.len &&
    a.ents.all (fun e => match b.find e.k with | some (_, e') => e'.v == e.v | none => false)

/-- dropping the map -/
def dropAll (m : Map) : Cost :=
  (match m.lo with | some o => o.dropCost | none => {}) + { dropped := idsOf m.main.ents } + m.main.freeCost

end Map
end Griddle
