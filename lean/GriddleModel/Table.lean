/-
  GriddleModel.Table — layer 1: an abstract *contract* model of one hashbrown raw table.

  A table is its contents (a list), its bucket count and `growth_left`.  The number of
  tombstones is not stored: it is `fullCap buckets - items - growth_left` (hashbrown maintains
  `items + growth_left + #DELETED = bucket_mask_to_capacity(bucket_mask)`).

  hashbrown's private choices are oracle arguments:
  * `onTomb`  — an insertion lands on a DELETED control byte (possible only if one exists);
  * `toEmpty` — an erasure writes EMPTY (growth_left + 1) rather than DELETED.
  Preconditions of the `unsafe` API are explicit `Fault.ub` results.
-/
import GriddleModel.Basic
namespace Griddle

/-- One stored `(K, V)`.  `kid` / `vid` are ghost identities of the key and value *objects*
    (the harness's drop ledger uses the same numbers). -/
structure Entry where
  k : Nat
  kid : Nat
  v : Nat
  vid : Nat
  deriving Repr, DecidableEq, Inhabited

/-- Resource / work counters of one call, and the objects the map dropped during it. -/
structure Cost where
  hashes : Nat := 0
  allocs : Nat := 0
  frees : Nat := 0
  moved : Nat := 0
  dropped : List Nat := []
  deriving Repr, DecidableEq

def Cost.add (a b : Cost) : Cost :=
  { hashes := a.hashes + b.hashes, allocs := a.allocs + b.allocs, frees := a.frees + b.frees,
    moved := a.moved + b.moved, dropped := a.dropped ++ b.dropped }

instance : Add Cost := ⟨Cost.add⟩

def Entry.ids (e : Entry) : List Nat := [e.kid, e.vid]
def idsOf (es : List Entry) : List Nat := es.flatMap Entry.ids

structure HB where
  /-- `bucket_mask + 1`; `1` is the unallocated empty singleton -/
  buckets : Nat := 1
  ents : List Entry := []
  /-- `growth_left` -/
  gl : Nat := 0
  deriving Repr, DecidableEq

namespace HB

def new : HB := {}
def len (t : HB) : Nat := t.ents.length
/-- hashbrown `capacity()` = `items + growth_left`. -/
def capacity (t : HB) : Nat := t.ents.length + t.gl
def allocated (t : HB) : Bool := t.buckets != 1
def tombs (t : HB) : Nat := fullCap t.buckets - t.ents.length - t.gl
def find? (t : HB) (k : Nat) : Option Entry := t.ents.find? (fun e => e.k == k)
def freeCost (t : HB) : Cost := { frees := if t.allocated then 1 else 0 }

/-- `RawTable::try_with_capacity` / `with_capacity` (the caller decides what an error means). -/
def tryWithCapacity (c : Cfg) (cap : Nat) : Except AllocErr HB :=
  if cap = 0 then .ok HB.new
  else match capToBuckets cap with
    | none => .error .overflow
    | some b =>
      match allocCheck c b with
      | some e => .error e
      | none => .ok { buckets := b, ents := [], gl := fullCap b }

/-- `insert_no_grow` (also `insert_in_slot`): there must be room. -/
def insertNoGrow (t : HB) (e : Entry) (onTomb : Bool) : Except Fault HB :=
  if onTomb then
    if t.ents.length + t.gl < fullCap t.buckets then .ok { t with ents := e :: t.ents }
    else .error (.oracle "insertion on a tombstone in a table without tombstones")
  else if t.gl = 0 then .error (.ub "insert_no_grow without room")
  else .ok { t with ents := e :: t.ents, gl := t.gl - 1 }

/-- The growable `RawTable::insert(hash, value, hasher)`: when `growth_left == 0` and the slot
    found is EMPTY it first runs `reserve_rehash(1)` — rehash in place if at most half full,
    else resize to `max(items + 1, fullCap + 1)`.  Returns the extra cost of that path. -/
def insertGrowable (c : Cfg) (t : HB) (e : Entry) (onTomb : Bool) : Except Fault (HB × Cost) :=
  if onTomb then (insertNoGrow t e true).map (fun t' => (t', {}))
  else if t.gl = 0 then
    let items := t.ents.length
    let full := fullCap t.buckets
    if items + 1 ≤ full / 2 then
      -- rehash_in_place: tombstones reclaimed, every element re-hashed
      .ok ({ t with ents := e :: t.ents, gl := full - items - 1 }, { hashes := items })
    else
      match tryWithCapacity c (max (items + 1) (full + 1)) with
      | .error .overflow => .error (.panic .capacityOverflow)
      | .error .alloc => .error .abort
      | .ok nt =>
        .ok ({ nt with ents := e :: t.ents, gl := nt.gl - items - 1 },
             { hashes := items, allocs := 1 } + t.freeCost)
  else .ok ({ t with ents := e :: t.ents, gl := t.gl - 1 }, {})

/-- `erase` / `remove` of the (full) bucket holding key `k`. -/
def removeKey (t : HB) (k : Nat) (toEmpty : Bool) : Except Fault (HB × Entry) :=
  match t.find? k with
  | none => .error (.ub "bucket is not a full bucket of this table")
  | some e =>
    .ok ({ t with ents := t.ents.filter (fun x => x.k != k),
                  gl := if toEmpty then t.gl + 1 else t.gl }, e)

/-- Overwrite the value stored for `k` in place. -/
def setVal (t : HB) (k v vid : Nat) : HB :=
  { t with ents := t.ents.map (fun x => if x.k == k then { x with v := v, vid := vid } else x) }

/-- Overwrite the key object stored for `k` in place (`replace_key`, `insert_key`). -/
def setKid (t : HB) (k kid : Nat) : HB :=
  { t with ents := t.ents.map (fun x => if x.k == k then { x with kid := kid } else x) }

/-- `clear()`: returns early when `items == 0` (tombstones then stay). -/
def clear (t : HB) : HB × Cost :=
  if t.ents.length = 0 then (t, {})
  else ({ t with ents := [], gl := fullCap t.buckets }, { dropped := idsOf t.ents })

/-- `clear_no_drop` (what a dropped `RawDrain` does to the table). -/
def clearNoDrop (t : HB) : HB := { t with ents := [], gl := fullCap t.buckets }

/-- `shrink_to(min_size, hasher)`. -/
def shrinkTo (c : Cfg) (t : HB) (minSize : Nat) : Except Fault (HB × Cost) :=
  let items := t.ents.length
  let m := max items minSize
  if m = 0 then .ok (HB.new, t.freeCost)
  else match capToBuckets m with
    | none => .ok (t, {})
    | some mb =>
      if mb < t.buckets then
        match tryWithCapacity c m with
        | .error .overflow => .error (.panic .capacityOverflow)
        | .error .alloc => .error .abort
        | .ok nt =>
          if items = 0 then .ok (nt, { allocs := 1 } + t.freeCost)
          else .ok ({ nt with ents := t.ents, gl := nt.gl - items },
                    { hashes := items, allocs := 1 } + t.freeCost)
      else .ok (t, {})

/-- `Clone::clone`: same bucket count, control bytes copied (so `growth_left` too).
    `fresh` gives the identities of the cloned objects. -/
def cloneWith (t : HB) (fresh : Entry → Entry) : HB × Cost :=
  if t.allocated then ({ t with ents := t.ents.map fresh }, { allocs := 1 })
  else (HB.new, {})

end HB
end Griddle
