/-
  GriddleModel.Basic — sizing arithmetic of hashbrown 0.14.5 as griddle relies on it,
  and the small vocabulary (faults, configuration) shared by every layer of the model.

  Model files import nothing outside core Lean, so that the protocol driver links as a
  native executable.
-/
namespace Griddle

/-- `usize::MAX + 1` on the 64-bit targets the harness runs on. -/
def USIZE : Nat := 2 ^ 64
/-- `isize::MAX`. -/
def ISIZE_MAX : Nat := 2 ^ 63 - 1

/-- `(a + r - 1) / r`, the "old +R-1 trick" of `try_grow` / `shrink_to`. -/
def ceilDiv (a r : Nat) : Nat := (a + r - 1) / r

/-- Doubling loop used by `nextPow2`. -/
def nextPow2Go (n : Nat) : Nat → Nat → Nat
  | 0, p => p
  | fuel + 1, p => if n ≤ p then p else nextPow2Go n fuel (2 * p)

/-- `usize::next_power_of_two` for arguments below `2^64` (64 doublings suffice). -/
def nextPow2 (n : Nat) : Nat := nextPow2Go n 64 1

/-- hashbrown `bucket_mask_to_capacity`, as a function of the bucket count
    (`buckets = bucket_mask + 1`; the unallocated singleton has one bucket). -/
def fullCap (buckets : Nat) : Nat :=
  if buckets ≤ 8 then buckets - 1 else buckets / 8 * 7

/-- hashbrown `capacity_to_buckets` (argument non-zero); `none` = the checked multiplication
    overflowed. -/
def capToBuckets (cap : Nat) : Option Nat :=
  if cap < 4 then some 4
  else if cap < 8 then some 8
  else if USIZE ≤ cap * 8 then none
  else some (nextPow2 (cap * 8 / 7))

/-- Build profile: `debug` = debug assertions and overflow checks on. -/
structure Cfg where
  /-- elements moved per `carry` (8 in production builds of griddle) -/
  R : Nat := 8
  debug : Bool := true
  /-- `size_of::<(K, V)>()` of the harness element type -/
  elemSize : Nat := 40
  /-- the harness allocator refuses requests above this many bytes -/
  allocLimit : Nat := 2 ^ 30
  deriving Repr

inductive PanicKind
  | capacityOverflow     -- "Hash table capacity overflow" (documented)
  | indexMissing         -- `map[&k]` of a missing key (documented)
  | assertLeftovers      -- `assert!(self.leftovers.is_none())` in `insert`
  | unreachable          -- `unreachable!("invalid bucket state")`
  | arith                -- overflow check of an unchecked `+` (debug profile)
  | debugAssert          -- a `debug_assert!` / `cfg!(debug_assertions)` check
  | resizeDespite        -- "resize despite sufficient capacity"
  deriving Repr, DecidableEq

inductive Fault
  | panic (k : PanicKind)
  /-- a precondition of hashbrown's `unsafe` API was not met -/
  | ub (why : String)
  /-- infallible allocation failed: `handle_alloc_error` aborts the process -/
  | abort
  /-- an oracle value was outside the window hashbrown's contract allows -/
  | oracle (why : String)
  deriving Repr, DecidableEq

inductive AllocErr
  | overflow   -- `TryReserveError::CapacityOverflow`
  | alloc      -- `TryReserveError::AllocError`
  deriving Repr, DecidableEq

/-- hashbrown `TableLayout::calculate_layout_for` + the allocator, for an element type of
    `c.elemSize` bytes with `ctrl_align = 16` (`Group::WIDTH`, SSE2). -/
def allocCheck (c : Cfg) (buckets : Nat) : Option AllocErr :=
  let data := c.elemSize * buckets
  if USIZE ≤ data then some .overflow
  else if USIZE ≤ data + 15 then some .overflow
  else
    let ctrlOff := (data + 15) / 16 * 16
    let len := ctrlOff + (buckets + 16)
    if USIZE ≤ len then some .overflow
    else if ISIZE_MAX - 15 < len then some .overflow
    else if c.allocLimit < len then some .alloc
    else none

end Griddle
