/-
  GriddleModel.Raw — layer 2: griddle's `RawTable` (`/repo/src/raw/mod.rs`), one Lean function
  per Rust function, same control flow.  Loops are structural recursion on their trip count.

  The old table is kept *in cursor order*: `ents` lists the elements the cached
  `hashbrown::raw::RawIter` would still yield, in that order; `cursor` is that iterator's
  `items` counter.  `cursor = ents.length` is the agreement invariant (I2) — it is a theorem,
  not an assumption: every function below updates the two separately, the way the code does.
-/
import GriddleModel.Table
namespace Griddle

structure Old where
  buckets : Nat
  ents : List Entry
  cursor : Nat
  deriving Repr, DecidableEq

structure Raw where
  main : HB := {}
  lo : Option Old := none
  deriving Repr, DecidableEq

def Old.freeCost (_o : Old) : Cost := { frees := 1 }
/-- dropping an old table: frees it and drops whatever it still holds -/
def Old.dropCost (o : Old) : Cost := { frees := 1, dropped := idsOf o.ents }

/-- Where `find` located an element: the `in_main` flag of griddle's `Bucket`. -/
structure Loc where
  inMain : Bool
  k : Nat
  deriving Repr, DecidableEq

namespace Raw

def new : Raw := {}

def withCapacity (c : Cfg) (cap : Nat) : Except Fault (Raw × Cost) :=
  match HB.tryWithCapacity c cap with
  | .error .overflow => .error (.panic .capacityOverflow)
  | .error .alloc => .error .abort
  | .ok t => .ok ({ main := t, lo := none }, { allocs := if t.allocated then 1 else 0 })

def len (t : Raw) : Nat :=
  t.main.ents.length + (match t.lo with | some o => o.ents.length | none => 0)

def capacity (t : Raw) : Nat := t.main.capacity
def isSplit (t : Raw) : Bool := t.lo.isSome

/-- `find`: main table first, then the old one. -/
def find (t : Raw) (k : Nat) : Option (Loc × Entry) :=
  match t.main.find? k with
  | some e => some (⟨true, k⟩, e)
  | none =>
    match t.lo with
    | some o => (o.ents.find? (fun e => e.k == k)).map (fun e => (⟨false, k⟩, e))
    | none => none

/-- all stored entries (main first) -/
def ents (t : Raw) : List Entry :=
  t.main.ents ++ (match t.lo with | some o => o.ents | none => [])

/-- Number of insertions an oracle says land on tombstones: the first `hits` insertions of a call
    do (the order is immaterial: a tombstone hit only consumes a tombstone, a fresh slot only
    consumes `growth_left`). -/
abbrev Hits := Nat

/-- Body of `carry`'s `for _ in 0..R` loop, plus the check after it. -/
def carryLoop (main : HB) (o : Old) : Nat → Hits → Cost → Except Fault (HB × Option Old × Hits × Cost)
  | 0, hits, cost =>
    if o.ents.length = 0 then .ok (main, none, hits, cost + o.dropCost)
    else .ok (main, some o, hits, cost)
  | n + 1, hits, cost =>
    if o.cursor = 0 then
      -- `lo.items.next()` returned `None`: the old table is released, with anything left in it
      .ok (main, none, hits, cost + o.dropCost)
    else
      match o.ents with
      | [] => .error (.ub "cached iterator advanced past the last element of the old table")
      | e :: rest =>
        match main.insertNoGrow e (decide (0 < hits)) with
        | .error f => .error f
        | .ok main' =>
          carryLoop main' { o with ents := rest, cursor := o.cursor - 1 } n (hits - 1)
            (cost + { hashes := 1, moved := 1 })

/-- `carry(hasher)`. -/
def carry (c : Cfg) (t : Raw) (hits : Hits) : Except Fault (Raw × Hits × Cost) :=
  match t.lo with
  | none => .ok (t, hits, {})
  | some o =>
    match carryLoop t.main o c.R hits {} with
    | .error f => .error f
    | .ok (m, lo, h, cost) => .ok ({ main := m, lo := lo }, h, cost)

/-- `carry_all`'s `while let Some(e) = lo.items.next()` loop (trip count = the cursor's count). -/
def carryAllLoop (c : Cfg) (main : HB) : Nat → List Entry → Hits → Cost → Except Fault (HB × Hits × Cost)
  | 0, rest, hits, cost => .ok (main, hits, cost + { dropped := idsOf rest })
  | _ + 1, [], _, _ => .error (.ub "cached iterator advanced past the last element of the old table")
  | n + 1, e :: rest, hits, cost =>
    match main.insertGrowable c e (decide (0 < hits)) with
    | .error f => .error f
    | .ok (main', extra) =>
      carryAllLoop c main' n rest (hits - 1) (cost + { hashes := 1, moved := 1 } + extra)

/-- `carry_all(hasher)`. -/
def carryAll (c : Cfg) (t : Raw) (hits : Hits) : Except Fault (Raw × Hits × Cost) :=
  match t.lo with
  | none => .ok (t, hits, {})
  | some o =>
    match carryAllLoop c t.main o.cursor o.ents hits {} with
    | .error f => .error f
    | .ok (m, h, cost) => .ok ({ main := m, lo := none }, h, cost + o.freeCost)

/-- The order in which hashbrown iterates the table being parked (oracle `perm`, a list of keys)
    must enumerate exactly its keys. -/
def reorder (es : List Entry) (perm : List Nat) : Option (List Entry) :=
  if perm.length = es.length ∧ perm.Nodup ∧ (∀ k ∈ perm, (es.find? (fun e => e.k == k)).isSome)
      ∧ (∀ e ∈ es, e.k ∈ perm) then
    some (perm.filterMap (fun k => es.find? (fun e => e.k == k)))
  else none

/-- `try_grow(extra, fallible)`.  An `AllocErr` is returned, not raised: `try_reserve` reports
    it, `grow` turns it into the documented panic (or an abort).  -/
def tryGrow (c : Cfg) (t : Raw) (extra : Nat) (perm : List Nat) :
    Except Fault (Raw × Option AllocErr × Cost) :=
  if c.debug && t.lo.isSome then .error (.panic .debugAssert)
  else
    let need := t.main.ents.length
    let inserts := ceilDiv need c.R
    let add := max extra inserts
    if USIZE ≤ need + inserts + add then .ok (t, some .overflow, {})
    else match HB.tryWithCapacity c (need + inserts + add) with
      | .error e => .ok (t, some e, {})
      | .ok nt =>
        let acost : Cost := { allocs := if nt.allocated then 1 else 0 }
        if need = 0 then
          .ok ({ main := nt, lo := t.lo }, none, acost + t.main.freeCost)
        else match reorder t.main.ents perm with
          | none => .error (.oracle "iteration order of the parked table is not a permutation of it")
          | some es =>
            -- (release profile only) a previous old table would be overwritten, i.e. dropped
            let lost : Cost := match t.lo with | some o => o.dropCost | none => {}
            .ok ({ main := nt, lo := some { buckets := t.main.buckets, ents := es, cursor := es.length } },
                 none, acost + lost)

/-- `grow(extra)` = `try_grow(extra, false)`: errors are fatal. -/
def grow (c : Cfg) (t : Raw) (extra : Nat) (perm : List Nat) : Except Fault (Raw × Cost) :=
  match tryGrow c t extra perm with
  | .error f => .error f
  | .ok (_, some .overflow, _) => .error (.panic .capacityOverflow)
  | .ok (_, some .alloc, _) => .error .abort
  | .ok (t', none, cost) => .ok (t', cost)

/-- `insert_no_grow(hash, value, hasher)` of griddle: hashbrown's, then `carry` if split. -/
def insertNoGrow (c : Cfg) (t : Raw) (e : Entry) (hits : Hits) : Except Fault (Raw × Hits × Cost) :=
  match t.main.insertNoGrow e (decide (0 < hits)) with
  | .error f => .error f
  | .ok m =>
    let t' : Raw := { t with main := m }
    if t'.lo.isSome then carry c t' (hits - 1) else .ok (t', hits - 1, {})

/-- `insert(hash, value, hasher)` (the element is known to be absent). -/
def insert (c : Cfg) (t : Raw) (e : Entry) (hits : Hits) (perm : List Nat) :
    Except Fault (Raw × Hits × Cost) :=
  if t.main.gl = 0 then
    if t.lo.isSome then .error (.panic .assertLeftovers)
    else match grow c t 1 perm with
      | .error f => .error f
      | .ok (t', gc) =>
        match insertNoGrow c t' e hits with
        | .error f => .error f
        | .ok (t'', h, cost) => .ok (t'', h, gc + cost)
  else insertNoGrow c t e hits

/-- `remove(bucket)`. -/
def removeAt (t : Raw) (loc : Loc) (toEmpty : Bool) : Except Fault (Raw × Entry × Cost) :=
  if loc.inMain then
    match t.main.removeKey loc.k toEmpty with
    | .error f => .error f
    | .ok (m, e) => .ok ({ t with main := m }, e, {})
  else match t.lo with
    | none => .error (.panic .unreachable)
    | some o =>
      match o.ents.find? (fun e => e.k == loc.k) with
      | none => .error (.ub "bucket is not a full bucket of the old table")
      | some e =>
        let o' : Old := { o with ents := o.ents.filter (fun x => x.k != loc.k), cursor := o.cursor - 1 }
        if o'.ents.length = 0 then .ok ({ t with lo := none }, e, o'.freeCost)
        else .ok ({ t with lo := some o' }, e, {})

/-- `erase(bucket)`: like `remove` but drops the element and never releases the old table. -/
def eraseAt (t : Raw) (loc : Loc) (toEmpty : Bool) : Except Fault (Raw × Cost) :=
  if loc.inMain then
    match t.main.removeKey loc.k toEmpty with
    | .error f => .error f
    | .ok (m, e) => .ok ({ t with main := m }, { dropped := e.ids })
  else match t.lo with
    | none => .error (.panic .unreachable)
    | some o =>
      match o.ents.find? (fun e => e.k == loc.k) with
      | none => .error (.ub "bucket is not a full bucket of the old table")
      | some e =>
        .ok ({ t with lo := some { o with ents := o.ents.filter (fun x => x.k != loc.k),
                                          cursor := o.cursor - 1 } },
             { dropped := e.ids })

/-- `replace_bucket_with(bucket, f)` where `f` returned `newVal` (`none` = remove).  The key
    object is handed back to the caller when the element is removed (`spare_key`). -/
def replaceAt (t : Raw) (loc : Loc) (newVal : Option (Nat × Nat)) (toEmpty : Bool) :
    Except Fault (Raw × Bool) :=
  match newVal with
  | some (v, vid) =>
    if loc.inMain then
      match t.main.find? loc.k with
      | none => .error (.ub "bucket is not a full bucket of this table")
      | some _ => .ok ({ t with main := t.main.setVal loc.k v vid }, true)
    else match t.lo with
      | none => .error (.panic .unreachable)
      | some o =>
        match o.ents.find? (fun e => e.k == loc.k) with
        | none => .error (.ub "bucket is not a full bucket of the old table")
        | some _ =>
          .ok ({ t with lo := some { o with ents := o.ents.map (fun x =>
                  if x.k == loc.k then { x with v := v, vid := vid } else x) } }, true)
  | none =>
    if loc.inMain then
      match t.main.removeKey loc.k toEmpty with
      | .error f => .error f
      | .ok (m, _) => .ok ({ t with main := m }, false)
    else match t.lo with
      | none => .error (.panic .unreachable)
      | some o =>
        match o.ents.find? (fun e => e.k == loc.k) with
        | none => .error (.ub "bucket is not a full bucket of the old table")
        | some _ =>
          .ok ({ t with lo := some { o with ents := o.ents.filter (fun x => x.k != loc.k),
                                            cursor := o.cursor - 1 } }, false)

/-- `clear()`. -/
def clear (t : Raw) : Raw × Cost :=
  let locost : Cost := match t.lo with | some o => o.dropCost | none => {}
  let (m, mc) := t.main.clear
  ({ main := m, lo := none }, locost + mc)

/-- `shrink_to(min_size, hasher)` (with the repair that releases an already-empty old table). -/
def shrinkTo (c : Cfg) (t : Raw) (minSize : Nat) : Except Fault (Raw × Cost) :=
  let (lo, c0) : Option Old × Cost :=
    match t.lo with
    | some o => if o.ents.length = 0 then (none, o.freeCost) else (some o, {})
    | none => (none, {})
  let need := t.main.ents.length +
    (match lo with | some o => o.ents.length + ceilDiv o.ents.length c.R | none => 0)
  if c.debug && USIZE ≤ need then .error (.panic .arith)
  else
    match t.main.shrinkTo c (max (need % USIZE) minSize) with
    | .error f => .error f
    | .ok (m, mc) => .ok ({ main := m, lo := lo }, c0 + mc)

/-- `reserve(additional, hasher)`. -/
def reserve (c : Cfg) (t : Raw) (additional : Nat) (hits : Hits) (perm : List Nat) :
    Except Fault (Raw × Cost) :=
  let L := match t.lo with | some o => o.ents.length | none => 0
  if USIZE ≤ L + additional then .error (.panic .capacityOverflow)
  else
    let need := L + additional
    if need < t.main.gl then .ok (t, {})
    else if t.lo.isSome then
      match carryAll c t hits with
      | .error f => .error f
      | .ok (t1, _, c1) =>
        match grow c t1 additional perm with
        | .error f => .error f
        | .ok (t2, c2) => .ok (t2, c1 + c2)
    else grow c t additional perm

/-- `try_reserve(additional, hasher)`. -/
def tryReserve (c : Cfg) (t : Raw) (additional : Nat) (hits : Hits) (perm : List Nat) :
    Except Fault (Raw × Option AllocErr × Cost) :=
  let L := match t.lo with | some o => o.ents.length | none => 0
  if USIZE ≤ L + additional then .ok (t, some .overflow, {})
  else
    let need := L + additional
    if need < t.main.gl then .ok (t, none, {})
    else if t.lo.isSome then
      match carryAll c t hits with
      | .error f => .error f
      | .ok (t1, _, c1) =>
        match tryGrow c t1 additional perm with
        | .error f => .error f
        | .ok (t2, e, c2) => .ok (t2, e, c1 + c2)
    else tryGrow c t additional perm

/-- `and_carry_with_hasher`: clone every element still in the source's old table into `m`
    with the growable insert. -/
def andCarryLoop (c : Cfg) (fresh : Entry → Entry) (m : HB) : List Entry → Hits → Cost →
    Except Fault (HB × Hits × Cost)
  | [], hits, cost => .ok (m, hits, cost)
  | e :: rest, hits, cost =>
    match m.insertGrowable c (fresh e) (decide (0 < hits)) with
    | .error f => .error f
    | .ok (m', extra) => andCarryLoop c fresh m' rest (hits - 1) (cost + { hashes := 1 } + extra)

/-- `clone_with_hasher`. The source's cached iterator is cloned and run to its end, so it yields
    `cursor` elements (an over-read if that exceeds what is there). -/
def cloneWith (c : Cfg) (t : Raw) (fresh : Entry → Entry) (hits : Hits) : Except Fault (Raw × Cost) :=
  let (m, mc) := t.main.cloneWith fresh
  match t.lo with
  | none => .ok ({ main := m, lo := none }, mc)
  | some o =>
    if o.ents.length < o.cursor then .error (.ub "cached iterator advanced past the last element of the old table")
    else match andCarryLoop c fresh m (o.ents.take o.cursor) hits {} with
      | .error f => .error f
      | .ok (m', _, cc) => .ok ({ main := m', lo := none }, mc + cc)

/-- `clone_from_with_hasher` (with the repair: `RawTable::clone_from` on the main table). -/
def cloneFrom (c : Cfg) (dst src : Raw) (fresh : Entry → Entry) (hits : Hits) :
    Except Fault (Raw × Cost) :=
  let c0 : Cost := match dst.lo with | some o => o.dropCost | none => {}
  -- hashbrown `Clone::clone_from`
  let (m, c1) : HB × Cost :=
    if !src.main.allocated then (HB.new, { dropped := idsOf dst.main.ents } + dst.main.freeCost)
    else if dst.main.buckets = src.main.buckets then
      ({ src.main with ents := src.main.ents.map fresh }, { dropped := idsOf dst.main.ents })
    else
      ({ src.main with ents := src.main.ents.map fresh },
       { dropped := idsOf dst.main.ents, allocs := 1 } + dst.main.freeCost)
  match src.lo with
  | none => .ok ({ main := m, lo := none }, c0 + c1)
  | some o =>
    if o.ents.length < o.cursor then .error (.ub "cached iterator advanced past the last element of the old table")
    else match andCarryLoop c fresh m (o.ents.take o.cursor) hits {} with
      | .error f => .error f
      | .ok (m', _, cc) => .ok ({ main := m', lo := none }, c0 + c1 + cc)

end Raw
end Griddle
