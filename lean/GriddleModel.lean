import GriddleModel.Basic
import GriddleModel.Table
import GriddleModel.Raw
import GriddleModel.Map
import GriddleModel.Protocol
