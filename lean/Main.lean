/-
  gmodel — line-protocol driver: replays a harness transcript on the model and reports where the
  model's observation differs from the implementation's.  Uses exactly the definitions the
  theorems are about (`GriddleModel.Map` and below).
-/
import GriddleModel.Protocol
import GriddleModel.Iter
import GriddleModel.Set
import GriddleModel.Panic
open Griddle

structure DState where
  cfg : Cfg := {}
  maps : List (Nat × Map) := []
  hist : String := "?"
  diverged : Bool := false
  lines : Nat := 0
  checked : Nat := 0
  mismatches : Nat := 0
  hists : Nat := 0
  mask : List String := []

def getMap (s : DState) (i : Nat) : Option Map := (s.maps.find? (·.1 == i)).map (·.2)
def setMap (s : DState) (i : Nat) (m : Map) : DState :=
  { s with maps := (i, m) :: s.maps.filter (·.1 != i) }
def delMap (s : DState) (i : Nat) : DState := { s with maps := s.maps.filter (·.1 != i) }

def parsePred (s : String) : Option Pred :=
  match s.splitOn ":" with
  | ["mod", a, b, n, add] => do
    pure { modulus := ← a.toNat?, rem := ← b.toNat?, neg := n == "1", add := ← add.toNat? }
  | ["set", ks, n, add] => do
    let l ← if ks == "" || ks == "-" then some [] else (ks.splitOn ".").mapM (·.toNat?)
    pure { useSet := true, set := l, neg := n == "1", add := ← add.toNat? }
  | _ => none

def parseStep (s : String) : Option Map.EStep :=
  match s.splitOn ":" with
  | ["and_modify", a] => do pure (.andModify (← a.toNat?))
  | ["and_replace", k, a] => do pure (.andReplace (k == "1") (← a.toNat?))
  | ["insert", kid, v, vid, a] => do pure (.insert (← kid.toNat?) (← v.toNat?) (← vid.toNat?) (← a.toNat?))
  | ["or_insert", l, kid, v, vid, a] => do
    pure (.orInsert (l == "1") (← kid.toNat?) (← v.toNat?) (← vid.toNat?) (← a.toNat?))
  | ["occ_remove"] => some .occRemove
  | ["occ_remove_entry"] => some .occRemoveEntry
  | ["occ_insert", v, vid] => do pure (.occInsert (← v.toNat?) (← vid.toNat?))
  | ["occ_replace_entry", v, vid] => do pure (.occReplaceEntry (← v.toNat?) (← vid.toNat?))
  | ["occ_replace_key", kid] => do pure (.occReplaceKey (← kid.toNat?))
  | ["occ_get_mut", a] => do pure (.occGetMut (← a.toNat?))
  | ["occ_replace_with", k, a] => do pure (.occReplaceWith (k == "1") (← a.toNat?))
  | ["vac_insert", r, kid, v, vid, a] => do
    pure (.vacInsert (r == "1") (← kid.toNat?) (← v.toNat?) (← vid.toNat?) (← a.toNat?))
  | ["vac_into_key"] => some .vacIntoKey
  | _ => none

/-- result of replaying one line on the model -/
inductive Replay
  | ok (s : DState) (fields : List (String × String))
  | fault (f : Fault)
  | bad (why : String)

/-- Resolve `hits` (tombstone landings): the value for which the model's post-call `growth_left`
    equals the observed one; the model itself rejects values outside hashbrown's contract. -/
def resolveHits (run : Nat → Except Fault (Map × Out)) (glObs : Option Nat) (maxH : Nat) :
    Except Fault (Map × Out) :=
  match glObs with
  | none => run 0
  | some g =>
    let rec go (h : Nat) (fuel : Nat) (first : Except Fault (Map × Out)) : Except Fault (Map × Out) :=
      match fuel with
      | 0 => first
      | fuel + 1 =>
        match run h with
        | .ok (m, out) => if m.main.gl == g then .ok (m, out) else go (h + 1) fuel first
        | .error _ => go (h + 1) fuel first
    let first := run 0
    match first with
    | .ok (m, _) => if m.main.gl == g then first else
        -- analytic guess first, then a linear search
        (match run (g - m.main.gl) with
         | .ok (m2, o2) => if m2.main.gl == g then .ok (m2, o2) else go 1 maxH first
         | .error _ => go 1 maxH first)
    | .error _ => go 1 maxH first

def resolveEmpt (run : Nat → Except Fault (Map × Out)) (glObs : Option Nat) : Except Fault (Map × Out) :=
  match glObs with
  | none => run 0
  | some g =>
    match run 0 with
    | .ok (m, out) =>
      if m.main.gl == g then .ok (m, out)
      else (match run (g - m.main.gl) with
            | .ok r => .ok r
            | .error f => .error f)
    | .error f =>
      -- an erasure followed by an insertion (entry chains): the insertion's fate depends on it
      (match run 1 with
       | .ok (m, out) => if m.main.gl == g then .ok (m, out) else .error f
       | .error _ => .error f)

/-- Entry chains may erase and insert several times in one call; their oracle is read digit by digit
    (`Orc.digit` / `Orc.shift`): position `i` of `empt` (base 2) and of `hits` (base `B`) belongs to step `i`.
    Candidates are enumerated only over the positions whose step can erase / insert; the one whose final
    `growth_left` and bucket count equal the observed ones is taken. -/
def stepErases : Map.EStep → Bool
  | .andReplace false _ | .occReplaceWith false _ | .occRemove | .occRemoveEntry => true
  | _ => false
def stepInserts : Map.EStep → Bool
  | .insert .. | .orInsert .. | .vacInsert .. => true
  | _ => false

def chainCands (B : Nat) : Nat → List Map.EStep → List (Nat × Nat)
  | _, [] => [(0, 0)]
  | i, s :: rest =>
    let tails := chainCands B (i + 1) rest
    let es := if stepErases s then [0, 1] else [0]
    let hs := if stepInserts s then List.range B else [0]
    hs.flatMap fun hd => es.flatMap fun ed => tails.map fun (e, h) => (e + ed * 2 ^ i, h + hd * B ^ i)

/-- what a resolved candidate must reproduce besides `growth_left`: every structural counter and the number of
    allocations (a growth into a table of the same size can otherwise pass for a landing on tombstones) -/
def structOk (obs : List (String × String)) (m : Map) (out : Out) : Bool :=
  (obsFields m out).all (fun (k, v) =>
    if k == "mi" || k == "old" || k == "da" || k == "len" || k == "mb" || k == "mgl" then
      (match field? obs k with | some iv => iv == v | none => true)
    else true)

def resolveBoth (run : Nat → Nat → Except Fault (Map × Out)) (glObs mbObs : Option Nat) (cands : List (Nat × Nat))
    (obs : List (String × String) := []) : Except Fault (Map × Out) :=
  match glObs with
  | none => run 0 0
  | some g =>
    let first := run 0 0
    let rec go : List (Nat × Nat) → Except Fault (Map × Out)
      | [] => first
      | (e, h) :: rest =>
        match run e h with
        | .ok (m, out) =>
          if m.main.gl == g && (match mbObs with | some b => m.main.buckets == b | none => true) && structOk obs m out
          then .ok (m, out) else go rest
        | .error _ => go rest
    go cands

/-- the same two resolutions for fused calls -/
def resolveHitsF (run : Nat → Except Fault (Map × Out × Bool)) (glObs : Option Nat) (maxH : Nat) :
    Except Fault (Map × Out × Bool) :=
  match glObs with
  | none => run 0
  | some g =>
    let first := run 0
    let rec go : List Nat → Except Fault (Map × Out × Bool)
      | [] => first
      | h :: rest =>
        match run h with
        | .ok (m, out, b) => if m.main.gl == g then .ok (m, out, b) else go rest
        | .error _ => go rest
    go (List.range (maxH + 1))

def resolveEmptF (run : Nat → Except Fault (Map × Out × Bool)) (glObs : Option Nat) :
    Except Fault (Map × Out × Bool) :=
  match glObs with
  | none => run 0
  | some g =>
    match run 0 with
    | .ok (m, out, b) =>
      if m.main.gl == g then .ok (m, out, b) else run (g - m.main.gl)
    | .error f => .error f

def sortEnts (es : List Entry) : List Entry := (es.toArray.qsort (fun a b => a.k < b.k)).toList

/-! ### `extend`: resolving the per-call oracles

`Map.extend` takes one oracle per call (the `reserve`, then each `insert`).  What is observed is the state after the
whole `extend`.  Erasures do not happen inside `extend`, so tombstones are only consumed; landing on a tombstone as
early as possible is then always a valid schedule, and every schedule with the same total leads to the same final
state.  The resolution therefore searches one number — the total `T` of tombstone landings —, assigns it greedily
to the earliest calls, and builds the iteration order of a table parked by a growth from the observed final order of
the old table (the elements carried since, in any order, then what is still parked, in the observed order). -/

def tombs (m : Map) : Nat := fullCap m.main.buckets - m.main.ents.length - m.main.gl

def permFor (m : Map) (finalOld : List Nat) : List Nat :=
  -- (a `reserve` on a split map carries everything over before it grows: all keys are parked then)
  let ks := m.ents.map (·.k)
  ks.filter (fun k => !finalOld.contains k) ++ finalOld.filter (fun k => ks.contains k)

/-- one greedy simulation for a total of `T` landings: the oracle of every call (reserve first), or `none` if a call
    fails or landings are left when a growth discards the tombstones -/
def extendOrcs (c : Cfg) (m : Map) (items : List Entry) (hint0 : Nat) (finalOld : List Nat) (T : Nat) : Option (List Orc × Map) :=
  let hint := if m.len = 0 then hint0 else hint0 / 2 + hint0 % 2
  let o0 : Orc := { hits := T, perm := permFor m finalOld }
  match Map.reserve c m hint o0 with
  | .error _ => none
  | .ok (m1, _) =>
    let used0 := if m1.main.buckets == m.main.buckets then tombs m - tombs m1 else T
    if m1.main.buckets != m.main.buckets && T != 0 && m.lo.isNone then none else
    let rec go (m : Map) (items : List Entry) (left : Nat) (acc : List Orc) : Option (List Orc × Map) :=
      match items with
      | [] => some (acc.reverse, m)
      | e :: rest =>
        let o : Orc := { hits := left, perm := permFor m finalOld }
        match Map.insert c m e o with
        | .error _ => none
        | .ok (m', _) =>
          if m'.main.buckets == m.main.buckets then go m' rest (left - (tombs m - tombs m')) (o :: acc)
          else if left != 0 then none
          else go m' rest 0 (o :: acc)
    go m1 items (T - used0) [o0]

def resolveExtend (c : Cfg) (m : Map) (items : List Entry) (hint : Nat) (finalOld : List Nat) (glObs mbObs : Option Nat)
    (obs : List (String × String)) : Except Fault (Map × Out) :=
  let run (T : Nat) : Option (Except Fault (Map × Out)) :=
    match extendOrcs c m items hint finalOld T with
    | none => none
    | some (orcs, _) =>
      -- the definition the theorems are about, on the resolved oracles (indexed by the pairs still to come)
      some (Map.extend c m items hint (fun _ n => orcs.getD (items.length - n) {}))
  -- a candidate is accepted when everything structural agrees AND the number of allocations does: a growth into a
  -- table of the same size (tombstone-saturated tables) can end in the same counters as landing on the tombstones
  let good (r : Except Fault (Map × Out)) : Bool :=
    match r, glObs with
    | .ok (m', out), some g =>
      m'.main.gl == g && (match mbObs with | some b => m'.main.buckets == b | none => true) &&
      (obsFields m' out).all (fun (k, v) =>
        if k == "mi" || k == "old" || k == "da" || k == "len" then
          (match field? obs k with | some iv => iv == v | none => true)
        else true)
    | .ok _, none => true
    | .error _, _ => false
  let first := (run 0).getD (Map.extend c m items hint (fun m' _ => { perm := permFor m' finalOld }))
  if good first then first else
  let guess : Nat := match first, glObs with
    | .ok (m', _), some g => g - m'.main.gl
    | _, _ => 0
  let cands := guess :: (List.range (tombs m + 1)).filter (fun t => t != 0 && t != guess)
  let rec search : List Nat → Except Fault (Map × Out)
    | [] => first
    | t :: rest =>
      match run t with
      | some r => if good r then r else search rest
      | none => search rest
  search cands

def replayLine (s : DState) (op : String) (mid : Nat) (args : List String) (orc : List (String × String))
    (obs : List (String × String)) : Replay :=
  let c := s.cfg
  let glObs : Option Nat := (field? obs "mgl").bind (·.toNat?)
  let o : Orc := { perm := fieldList orc "perm", calls := fieldList orc "calls",
                   fresh := ((field? orc "fresh").bind parseFresh).getD [] }
  let fin (r : Except Fault (Map × Out)) : Replay :=
    match r with
    | .ok (m, out) => .ok (setMap s mid m) (obsFields m out)
    | .error f => .fault f
  -- fused calls: the model says whether the injected panic fires
  let finF (r : Except Fault (Map × Out × Bool)) : Replay :=
    match r with
    | .ok (m, out, fired) =>
      .ok (setMap s mid m) ((obsFields m out).map (fun (k, v) =>
        if k == "panic" then (k, if fired then "injected" else "-") else (k, v)))
    | .error f => .fault f
  -- set lines: own `ret`; ids of unit values (0) do not exist; `remove` drops the key it takes out
  let finSet (r : Except Fault (Map × Out)) (retOf : Map → Out → String) (dropsReturned : Bool) : Replay :=
    match r with
    | .ok (m, out) =>
      let dropped := (if dropsReturned then out.returned ++ out.cost.dropped else out.cost.dropped).filter (· != 0)
      .ok (setMap s mid m) ((obsFields m out).filterMap (fun (f, v) =>
        if f == "ret" then some (f, retOf m out)
        else if f == "drop" then some (f, fmtIds dropped)
        else if f == "retd" then none
        else some (f, v)))
    | .error f => .fault f
  let needMap (k : Map → Replay) : Replay :=
    match getMap s mid with
    | some m => k m
    | none => .bad s!"no map {mid}"
  -- `size_hint()` readings: the step machines of `GriddleModel/Iter.lean` are pulled as often as the harness pulled
  let nHints : Nat := match field? obs "hints" with
    | some h => if h == "" || h == "-" then 0 else (h.splitOn ",").length
    | none => 0
  let fmtHints (hs : List (Nat × Option Nat)) : String :=
    ",".intercalate (hs.map fun (lo, hi) =>
      match hi with
      | some h => if h == lo then toString lo else s!"{lo}/{h}"
      | none => s!"{lo}/none")
  let drainHints (m : Map) : Except Fault (List (String × String)) :=
    if nHints == 0 then .ok [] else
    let mo := It.mainInOrder m (o.calls.drop (o.calls.length - m.main.ents.length))
    match It.DIt.run nHints (It.DIt.ofMap m mo) with
    | .ok (hs, _, _) => .ok [("hints", fmtHints hs)]
    | .error f => .error f
  let nat (x : String) (k : Nat → Replay) : Replay :=
    match x.toNat? with | some n => k n | none => .bad s!"bad number {x}"
  match op, args with
  | "new", [cap] => nat cap fun cap => fin (Map.withCapacity c cap)
  | "insert", [k, kid, v, vid] =>
    nat k fun k => nat kid fun kid => nat v fun v => nat vid fun vid => needMap fun m =>
      fin (resolveHits (fun h => Map.insert c m ⟨k, kid, v, vid⟩ { o with hits := h }) glObs (c.R + 2))
  | "get", [k] => nat k fun k => needMap fun m => .ok s (obsFields m (Map.get m k))
  | "getmut", [k, add] => nat k fun k => nat add fun add => needMap fun m =>
      fin (.ok (Map.getMut m k add))
  | "remove", [k] => nat k fun k => needMap fun m =>
      fin (resolveEmpt (fun e => Map.removeEntry m k { o with empt := e }) glObs)
  | "clear", [] => needMap fun m => fin (.ok (Map.clear m))
  | "reserve", [n] => nat n fun n => needMap fun m => fin (Map.reserve c m n o)
  | "tryreserve", [n] => nat n fun n => needMap fun m =>
      -- a failed try_reserve after carry_all leaves a main table whose growth_left shows the hits
      fin (resolveHits (fun h => Map.tryReserve c m n { o with hits := h }) glObs (m.len + 2))
  | "shrink", [n] => nat n fun n => needMap fun m => fin (Map.shrinkTo c m n)
  | "retain", [p] => needMap fun m =>
      match parsePred p with
      | none => .bad "pred"
      | some p => fin (resolveEmpt (fun e => Map.retain m p { o with empt := e }) glObs)
  | "drainfilter", [p, take, forget] => nat take fun take => needMap fun m =>
      match parsePred p with
      | none => .bad "pred"
      | some p => fin (resolveEmpt (fun e => Map.drainFilter m p take (forget == "1") { o with empt := e }) glObs)
  | "drain", [take, forget] => nat take fun take => needMap fun m =>
      match Map.drain m take (forget == "1") o, drainHints m with
      | .ok (m', out), .ok hf => .ok (setMap s mid m') (obsFields m' out ++ hf)
      | .error f, _ => .fault f
      | _, .error f => .fault f
  | "intoiter", [take] => nat take fun take => needMap fun m =>
      match Map.intoIter m take o, drainHints m with
      | .ok out, .ok hf =>
        -- the map is gone: report what the call itself showed
        .ok (delMap s mid) ([("ret", fmtRet out.ret), ("da", toString out.cost.allocs), ("df", toString out.cost.frees),
                            ("drop", fmtIds out.cost.dropped), ("retd", fmtIds out.returned), ("panic", "-")] ++ hf)
      | .error f, _ => .fault f
      | _, .error f => .fault f
  | "iter", [] => needMap fun m =>
      match Map.iter m o with
      | .ok out =>
        if nHints == 0 then .ok s (obsFields m out) else
        let mo := It.mainInOrder m (o.calls.take m.main.ents.length)
        (match It.RIt.run nHints (It.RIt.ofMap m mo) with
         | .ok (hs, _, _) => .ok s (obsFields m out ++ [("hints", fmtHints hs)])
         | .error f => .fault f)
      | .error f => .fault f
  | "itermut", [add] => nat add fun add => needMap fun m => fin (.ok (Map.iterMutAdd m add, {}))
  | "dump", [] => needMap fun m => .ok s (obsFields m { ret := .ents (sortEnts m.ents) })
  | "clone", [src] => nat src fun src =>
      match getMap s src with
      | none => .bad "no src"
      | some sm => fin (resolveHits (fun h => Map.clone c sm { o with hits := h }) glObs (sm.len + 2))
  | "clonefrom", [src] => nat src fun src => needMap fun m =>
      match getMap s src with
      | none => .bad "no src"
      | some sm => fin (resolveHits (fun h => Map.cloneFrom c m sm { o with hits := h }) glObs (sm.len + 2))
  | "eq", [other] => nat other fun other => needMap fun m =>
      match getMap s other with
      | none => .bad "no other"
      | some m2 => .ok s (obsFields m { ret := .bool (Map.eq m m2) })
  | "entry", [raw, lh, k, kid, steps] =>
    nat lh fun lh => nat k fun k => nat kid fun kid => needMap fun m =>
      let stepsL := if steps == "-" then some [] else (steps.splitOn ";").mapM parseStep
      match stepsL with
      | none => .bad s!"steps {steps}"
      | some st =>
        fin (resolveBoth (fun e h => Map.entryChain c (raw == "1") lh m k kid st { o with empt := e, hits := h })
              glObs ((field? obs "mb").bind (·.toNat?)) (chainCands (c.R + 2) 0 st) obs)
  | "extend", [items, hint] => nat hint fun hint => needMap fun m =>
      let pe (x : String) : Option Entry :=
        match x.splitOn ":" with
        | [k, kid, v, vid] => do
          pure { k := ← k.toNat?, kid := ← kid.toNat?, v := ← v.toNat?, vid := ← vid.toNat? }
        | _ => none
      match (if items == "-" then some [] else (items.splitOn ",").mapM pe) with
      | none => .bad "extend items"
      | some es =>
        fin (resolveExtend c m es hint (fieldList orc "oldorder") glObs ((field? obs "mb").bind (·.toNat?)) obs)
  | "finsert", [k, kid, v, vid, fuse] =>
    nat k fun k => nat kid fun kid => nat v fun v => nat vid fun vid => nat fuse fun fuse => needMap fun m =>
      finF (resolveHitsF (fun h => Map.insertFused c m ⟨k, kid, v, vid⟩ fuse { o with hits := h }) glObs (c.R + 2))
  | "fretain", [p, fuse] => nat fuse fun fuse => needMap fun m =>
      match parsePred p with
      | none => .bad "pred"
      | some p => finF (resolveEmptF (fun e => Map.retainFusedOut m p fuse { o with empt := e }) glObs)
  | "fdrainfilter", [p, fuse] => nat fuse fun fuse => needMap fun m =>
      match parsePred p with
      | none => .bad "pred"
      | some p => finF (resolveEmptF (fun e => Map.drainFilterFusedOut m p fuse { o with empt := e }) glObs)
  | "freplace", [k, kid] => nat k fun k => nat kid fun kid => needMap fun m =>
      finF (resolveEmptF (fun e => Map.replaceFusedOut m k kid { o with empt := e }) glObs)
  -- single-set operations of a `HashSet` (`extra set`): `SetOps` of GriddleModel/Set.lean; a `()` is no object (id 0)
  | "sinsert", [k, kid] => nat k fun k => nat kid fun kid => needMap fun m =>
      finSet (resolveHits (fun h => SetOps.insert c m k kid { o with hits := h }) glObs (c.R + 2))
        (fun _ out => if out.ret == .optV none then "1" else "0") false
  | "sreplace", [k, kid] => nat k fun k => nat kid fun kid => needMap fun m =>
      let steps : List Map.EStep := if (m.find k).isSome then [.occReplaceKey kid] else [.vacInsert false kid 0 0 0]
      finSet (resolveBoth (fun e h => SetOps.replace c m k kid { o with empt := e, hits := h }) glObs
                ((field? obs "mb").bind (·.toNat?)) (chainCands (c.R + 2) 0 steps))
        (fun _ out => fmtIds (out.returned.filter (· != 0))) false
  | "sgoi", [k, kid, lzy] => nat k fun k => nat kid fun kid => needMap fun m =>
      finSet (resolveBoth (fun e h => SetOps.getOrInsert c m k kid (lzy == "1") { o with empt := e, hits := h }) glObs
                ((field? obs "mb").bind (·.toNat?)) (chainCands (c.R + 2) 0 [.orInsert (lzy == "1") kid 0 0 0]))
        (fun m' _ => match SetOps.repr m' k with | some x => toString x | none => "-") false
  | "sremove", [k] => nat k fun k => needMap fun m =>
      finSet (resolveEmpt (fun e => SetOps.remove m k { o with empt := e }) glObs)
        (fun _ out => if out.ret == .optKV none then "0" else "1") true
  | "stake", [k] => nat k fun k => needMap fun m =>
      finSet (resolveEmpt (fun e => SetOps.remove m k { o with empt := e }) glObs)
        (fun _ out => fmtIds (out.returned.filter (· != 0))) false
  | "sget", [k] => nat k fun k => needMap fun m =>
      .ok s ((obsFields m (SetOps.get m k)).map (fun (f, v) =>
        if f == "ret" then (f, match SetOps.repr m k with | some x => toString x | none => "-") else (f, v)))
  -- hashbrown's raw table driven directly (`extra hb`): the contract model `HB` of GriddleModel/Table.lean alone
  | "hbnew", [cap] => nat cap fun cap =>
      match HB.tryWithCapacity c cap with
      | .ok t => .ok (setMap s mid { main := t, lo := none }) (obsFields { main := t, lo := none } { cost := { allocs := if t.allocated then 1 else 0 } })
      | .error .overflow => .fault (.panic .capacityOverflow)
      | .error .alloc => .fault .abort
  | "hbinsng", [k] => nat k fun k => needMap fun m =>
      let run (hit : Bool) : Except Fault (Map × Out) :=
        (m.main.insertNoGrow ⟨k, 0, 0, 0⟩ hit).map (fun t => ({ m with main := t }, {}))
      fin (resolveHits (fun h => run (decide (0 < h))) glObs 1)
  | "hbins", [k] => nat k fun k => needMap fun m =>
      let run (hit : Bool) : Except Fault (Map × Out) :=
        (m.main.insertGrowable c ⟨k, 0, 0, 0⟩ hit).map (fun (t, cost) => ({ m with main := t }, { cost := cost }))
      fin (resolveHits (fun h => run (decide (0 < h))) glObs 1)
  | "hbrem", [k] => nat k fun k => needMap fun m =>
      let run (e : Bool) : Except Fault (Map × Out) :=
        (m.main.removeKey k e).map (fun (t, _) => ({ m with main := t }, {}))
      fin (resolveEmpt (fun e => run (decide (0 < e))) glObs)
  | "hbclear", [] => needMap fun m =>
      fin (.ok ({ m with main := m.main.clear.1 }, {}))
  | "hbshrink", [n] => nat n fun n => needMap fun m =>
      fin ((m.main.shrinkTo c n).map (fun (t, cost) => ({ m with main := t }, { cost := cost })))
  | "hbclone", [src] => nat src fun src =>
      match getMap s src with
      | none => .bad "no src"
      | some sm =>
        let (t, cost) := sm.main.cloneWith id
        fin (.ok ({ main := t, lo := none }, { cost := cost }))
  | "setalg", [] =>
      -- stateless: the set-operation adaptors of src/set.rs against `GriddleModel/Set.lean`
      let a := SetAlg.viewOfIter (fieldList orc "ai") (fieldNat orc "al")
      let b := SetAlg.viewOfIter (fieldList orc "bi") (fieldNat orc "bl")
      let ks (l : List Nat) : String := if l.isEmpty then "-" else ",".intercalate (l.map toString)
      let bit (x : Bool) : String := if x then "1" else "0"
      .ok s [("union", ks (SetAlg.union a b)), ("inter", ks (SetAlg.intersection a b)), ("diff", ks (SetAlg.difference a b)),
             ("symdiff", ks (SetAlg.symmetricDifference a b)), ("disjoint", bit (SetAlg.isDisjoint a b)),
             ("subset", bit (SetAlg.isSubset a b)), ("superset", bit (SetAlg.isSuperset a b)), ("eq", bit (SetAlg.eq a b)),
             ("panic", "-")]
  | "feq", [kind, k, kid, v, vid] =>
    nat kind fun kind => nat k fun k => nat kid fun kid => nat v fun v => nat vid fun vid => needMap fun m =>
      -- (the return value is compared by the plain operations; here the state, the cost and the dropped objects are)
      let finF := fun (r : Except Fault (Map × Out × Bool)) =>
        match finF r with
        | .ok s' fields => Replay.ok s' (fields.filter (fun f => f.1 != "ret" && f.1 != "retd"))
        | other => other
      let fired := (field? orc "fired").getD "0" == "1"
      if fired then finF (Map.eqFused c kind m ⟨k, kid, v, vid⟩ true o)
      else if kind == 0 then
        finF (resolveHitsF (fun h => Map.eqFused c 0 m ⟨k, kid, v, vid⟩ false { o with hits := h }) glObs (c.R + 2))
      else if kind == 1 then
        finF (resolveEmptF (fun e => Map.eqFused c 1 m ⟨k, kid, v, vid⟩ false { o with empt := e }) glObs)
      else if kind == 3 then
        finF (resolveHitsF (fun h => Map.eqFused c 3 m ⟨k, kid, v, vid⟩ false { o with hits := h }) glObs (c.R + 2))
      else finF (Map.eqFused c kind m ⟨k, kid, v, vid⟩ false o)
  | "fentry", [k, kid, raw, inserting] => nat k fun k => nat kid fun kid => needMap fun m =>
      finF (.ok (Map.entryFused m k kid (raw == "1") (inserting == "1")))
  | "drop", [] => needMap fun m =>
      .ok (delMap s mid) [("drop", fmtIds (Map.dropAll m).dropped), ("df", toString (Map.dropAll m).frees)]
  | "forget", [] => .ok (delMap s mid) []
  | "sync", [] =>
    -- adopt the implementation's state (after a call the model does not replay step by step)
    let pe (x : String) : Option Entry :=
      match x.splitOn ":" with
      | [a, b] => (match a.splitOn "#", b.splitOn "#" with
        | [k, kid], [v, vid] => do
          pure { k := ← k.toNat?, kid := ← kid.toNat?, v := ← v.toNat?, vid := ← vid.toNat? }
        | _, _ => none)
      | _ => none
    let pl (f : String) : Option (List Entry) :=
      match field? orc f with
      | none => some []
      | some "-" => some []
      | some x => (x.splitOn ",").mapM pe
    match pl "main", pl "oldents" with
    | some me, some oe =>
      let lo : Option Old := match (field? orc "ob").bind (·.toNat?) with
        | some ob => some { buckets := ob, ents := oe, cursor := fieldNat orc "cur" }
        | none => none
      let m : Map := { main := { buckets := fieldNat orc "mb", ents := me, gl := fieldNat orc "mgl" }, lo := lo }
      .ok (setMap s mid m) []
    | _, _ => .bad "sync"
  | _, _ => .bad s!"unknown op {op} {args}"

def processLine (s : DState) (line : String) : DState × List String :=
  let line := line.trimAscii.toString
  if line.isEmpty || line.startsWith "#" then (s, [])
  else
    let s := { s with lines := s.lines + 1 }
    let secs := line.splitOn " | "
    let head := (secs.getD 0 "").splitOn " " |>.filter (· ≠ "")
    match head with
    | "MASK" :: fs => ({ s with mask := fs }, [])
    | "H" :: rest =>
      let fs := parseFields rest
      -- R is the constant of the properties (8), not what the crate reports: a different quota in
      -- the crate must show up as a disagreement
      let cfg : Cfg := { R := 8, debug := fieldNat fs "debug" == 1,
                         elemSize := fieldNat fs "elem", allocLimit := fieldNat fs "limit" }
      ({ s with cfg := cfg, maps := [], hist := (field? fs "id").getD "?", diverged := false,
                hists := s.hists + 1 }, [])
    | op :: mid :: args =>
      if s.diverged then (s, [])
      else
        let orc := parseFields (((secs.getD 1 "").splitOn " ").filter (· ≠ ""))
        let obs := parseFields (((secs.getD 2 "").splitOn " ").filter (· ≠ ""))
        match mid.toNat? with
        | none => (s, [s!"BAD line={s.lines} hist={s.hist} not a map id: {mid}"])
        | some midN =>
          let implPanic := (field? obs "panic").getD "-"
          match replayLine s op midN args orc obs with
          | .bad why => ({ s with diverged := true, mismatches := s.mismatches + 1 },
                         [s!"MISMATCH line={s.lines} hist={s.hist} op={op} field=protocol model={why} impl=?"])
          | .fault f =>
            let mf := fmtFault f
            if mf == implPanic then
              -- both panicked the same way; the model keeps no state for a panicked map
              ({ delMap s midN with checked := s.checked + 1 }, [])
            else
              ({ s with diverged := true, mismatches := s.mismatches + 1 },
               [s!"MISMATCH line={s.lines} hist={s.hist} op={op} field=panic model={mf} impl={implPanic}"])
          | .ok s' fields =>
            let diffs := fields.filterMap (fun (k, v) =>
              match field? obs k with
              | some iv => if iv == v then none else some (k, v, iv)
              | none => none)
            let diffs := if implPanic != "-" && !(diffs.any (·.1 == "panic")) && !(fields.any (· == ("panic", implPanic))) then
                diffs ++ [("panic", "-", implPanic)] else diffs
            let hard := diffs.filter (fun d => s.mask.isEmpty || s.mask.contains d.1)
            let msgs := diffs.map (fun (k, v, iv) =>
              let tag := if s.mask.isEmpty || s.mask.contains k then "MISMATCH" else "NOTE"
              s!"{tag} line={s.lines} hist={s.hist} op={op} field={k} model={v} impl={iv}")
            if hard.isEmpty then ({ s' with checked := s'.checked + 1 }, msgs)
            else ({ s' with diverged := true, mismatches := s'.mismatches + 1 }, msgs)
    | _ => (s, [s!"BAD line={s.lines}"])

partial def loop (h : IO.FS.Stream) (s : DState) : IO DState := do
  let line ← h.getLine
  if line.isEmpty then return s
  let (s', msgs) := processLine s line
  for m in msgs do IO.println m
  loop h s'

def main : IO UInt32 := do
  let s ← loop (← IO.getStdin) {}
  IO.println s!"DONE lines={s.lines} checked={s.checked} mismatches={s.mismatches} hists={s.hists}"
  return (if s.mismatches == 0 then 0 else 1)
