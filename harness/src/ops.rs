//! Operations on the real `griddle::HashMap<Key, Val, VBuild>`: parsing, execution under the
//! instrumentation window, transcript lines for the Lean driver, and the model-independent
//! ("direct") oracles.
use crate::alloc;
use crate::elem::*;
use griddle::hash_map::{Entry, RawEntryMut};
use griddle::HashMap;
use std::collections::BTreeMap;
use std::panic::{catch_unwind, AssertUnwindSafe};

pub type M = HashMap<Key, Val, VBuild>;

#[derive(Clone, Debug)]
pub struct Pred {
    pub set: Option<Vec<u64>>,
    pub modulus: u64,
    pub rem: u64,
    pub neg: bool,
    pub add: u64,
}
impl Pred {
    pub fn test(&self, k: u64) -> bool {
        let b = match &self.set {
            Some(s) => s.contains(&k),
            None => k % self.modulus == self.rem,
        };
        b != self.neg
    }
    pub fn fmt(&self) -> String {
        match &self.set {
            Some(s) => format!(
                "set:{}:{}:{}",
                if s.is_empty() { "-".to_string() } else { s.iter().map(|x| x.to_string()).collect::<Vec<_>>().join(".") },
                self.neg as u8,
                self.add
            ),
            None => format!("mod:{}:{}:{}:{}", self.modulus, self.rem, self.neg as u8, self.add),
        }
    }
    pub fn parse(s: &str) -> Option<Pred> {
        let p: Vec<&str> = s.split(':').collect();
        match p.as_slice() {
            ["mod", a, b, n, add] => Some(Pred { set: None, modulus: a.parse().ok()?, rem: b.parse().ok()?, neg: *n == "1", add: add.parse().ok()? }),
            ["set", ks, n, add] => {
                let set = if *ks == "-" || ks.is_empty() { vec![] } else { ks.split('.').map(|x| x.parse().ok()).collect::<Option<Vec<u64>>>()? };
                Some(Pred { set: Some(set), modulus: 1, rem: 0, neg: *n == "1", add: add.parse().ok()? })
            }
            _ => None,
        }
    }
}

/// One method call on an entry handle (see `EStep` in GriddleModel/Map.lean).
#[derive(Clone, Debug)]
pub enum Step {
    AndModify(u64),
    AndReplace(bool, u64),
    /// `Entry::insert(v)`, then `*handle.get_mut() += add`
    Insert(u64, u64),
    /// flavour: 0 or_insert, 1 or_insert_with, 2 or_insert_with_key, 3 or_default
    OrInsert(u8, u64, u64),
    OccRemove,
    OccRemoveEntry,
    OccInsert(u64),
    OccReplaceEntry(u64),
    OccReplaceKey,
    /// flavour: 0 get_mut, 1 into_mut
    OccGetMut(u8, u64),
    OccReplaceWith(bool, u64),
    /// flavour (raw only): 0 insert, 1 insert_hashed_nocheck, 2 insert_with_hasher
    VacInsert(u8, u64, u64),
    VacIntoKey,
}
impl Step {
    pub fn fmt(&self) -> String {
        match self {
            Step::AndModify(a) => format!("and_modify:{a}"),
            Step::AndReplace(k, a) => format!("and_replace:{}:{a}", *k as u8),
            Step::Insert(v, a) => format!("insert:{v}:{a}"),
            Step::OrInsert(f, v, a) => format!("or_insert:{f}:{v}:{a}"),
            Step::OccRemove => "occ_remove".into(),
            Step::OccRemoveEntry => "occ_remove_entry".into(),
            Step::OccInsert(v) => format!("occ_insert:{v}"),
            Step::OccReplaceEntry(v) => format!("occ_replace_entry:{v}"),
            Step::OccReplaceKey => "occ_replace_key".into(),
            Step::OccGetMut(f, a) => format!("occ_get_mut:{f}:{a}"),
            Step::OccReplaceWith(k, a) => format!("occ_replace_with:{}:{a}", *k as u8),
            Step::VacInsert(f, v, a) => format!("vac_insert:{f}:{v}:{a}"),
            Step::VacIntoKey => "vac_into_key".into(),
        }
    }
    pub fn parse(s: &str) -> Option<Step> {
        let p: Vec<&str> = s.split(':').collect();
        let n = |x: &str| x.parse::<u64>().ok();
        Some(match p.as_slice() {
            ["and_modify", a] => Step::AndModify(n(a)?),
            ["and_replace", k, a] => Step::AndReplace(*k == "1", n(a)?),
            ["insert", v, a] => Step::Insert(n(v)?, n(a)?),
            ["or_insert", f, v, a] => Step::OrInsert(n(f)? as u8, n(v)?, n(a)?),
            ["occ_remove"] => Step::OccRemove,
            ["occ_remove_entry"] => Step::OccRemoveEntry,
            ["occ_insert", v] => Step::OccInsert(n(v)?),
            ["occ_replace_entry", v] => Step::OccReplaceEntry(n(v)?),
            ["occ_replace_key"] => Step::OccReplaceKey,
            ["occ_get_mut", f, a] => Step::OccGetMut(n(f)? as u8, n(a)?),
            ["occ_replace_with", k, a] => Step::OccReplaceWith(*k == "1", n(a)?),
            ["vac_insert", f, v, a] => Step::VacInsert(n(f)? as u8, n(v)?, n(a)?),
            ["vac_into_key"] => Step::VacIntoKey,
            _ => return None,
        })
    }
    pub fn terminal(&self) -> bool {
        !matches!(self, Step::AndModify(_) | Step::AndReplace(..) | Step::Insert(..) | Step::OccInsert(_) | Step::OccGetMut(0, _) | Step::OccReplaceWith(..))
    }
}

#[derive(Clone, Debug)]
pub enum Op {
    New { cap: usize, seed: u64 },
    Insert { k: u64, v: u64 },
    /// variant: 0 get_key_value, 1 get, 2 contains_key, 3 index, 4 get_key_value_mut (read only),
    /// 5 raw_entry().from_key, 6 raw_entry().from_key_hashed_nocheck, 7 raw_entry().from_hash
    Get { k: u64, variant: u8 },
    GetMut { k: u64, add: u64 },
    /// variant: 0 remove_entry, 1 remove
    Remove { k: u64, variant: u8 },
    Clear,
    Reserve { n: usize },
    TryReserve { n: usize },
    Shrink { n: usize },
    ShrinkToFit,
    Retain { p: Pred },
    DrainFilter { p: Pred, take: usize, forget: bool },
    Drain { take: usize, forget: bool },
    /// variant: 0 iter, 1 keys+values, 2 into_iter on &map, 3 iter_mut (read only), 4 values_mut (read only)
    Iter { variant: u8 },
    IterMut { add: u64, variant: u8 },
    Dump,
    Clone { src: usize },
    CloneFrom { src: usize },
    Eq { other: usize },
    /// via: 0 entry(k); 1 raw from_key; 2 raw from_key_hashed_nocheck; 3 raw from_hash
    Entry { via: u8, k: u64, steps: Vec<Step> },
    /// extend with (k, v) pairs; variant 0 owned pairs, 1 from_iter into a fresh map (mid = new map)
    /// `hint`: what the iterator's `size_hint().0` claims (`None`: the truth; `size_hint` is advisory, safe code may lie)
    Extend { items: Vec<(u64, u64)>, hint: Option<usize> },
    /// consume the map with into_iter, pull `take`, drop the rest
    IntoIter { take: usize },
    /// C04's wording, executed on the map itself: insert capacity()-len() unseen keys `start..`
    FillProbe { start: u64 },
    /// `insert(k, v)` under a `Hash` that panics on its `fuse`-th invocation within the call (caught)
    FInsert { k: u64, v: u64, fuse: usize },
    /// `retain` whose closure panics on entering its `fuse`-th call (caught)
    FRetain { p: Pred, fuse: usize },
    /// `entry(k)`, and if occupied `replace_entry_with` with a closure that panics (caught)
    FReplace { k: u64 },
    /// an entry call whose closure panics as soon as it is called (caught): kind 0 `entry(k).or_insert_with`,
    /// 1 `entry(k).and_modify`, 2 raw `or_insert_with`, 3 `entry(k).or_insert_with_key`, 4 raw `and_modify`
    FEntry { k: u64, kind: u8 },
    /// a call under an `Eq` that panics on its `fuse`-th invocation inside the call (caught): kind 0 insert, 1 remove,
    /// 2 get, 3 entry(k).or_insert(v), 4 get_mut
    FEq { kind: u8, k: u64, v: u64, fuse: usize },
    /// `drain_filter` pulled to the end, its closure panicking on entering its `fuse`-th call (caught)
    FDrainFilter { p: Pred, fuse: usize },
    Drop,
}

pub struct Line {
    pub mid: usize,
    pub op: Op,
}

/// one `size_hint()` reading for the transcript: `lo` when it is exact, `lo/hi` otherwise
pub fn hint_fmt(h: (usize, Option<usize>)) -> String {
    match h {
        (lo, Some(hi)) if lo == hi => format!("{lo}"),
        (lo, Some(hi)) => format!("{lo}/{hi}"),
        (lo, None) => format!("{lo}/none"),
    }
}

pub fn fmt_op(mid: usize, op: &Op) -> String {
    match op {
        Op::New { cap, seed } => format!("new {mid} {cap} {seed}"),
        Op::Insert { k, v } => format!("insert {mid} {k} {v}"),
        Op::Get { k, variant } => format!("get {mid} {k} {variant}"),
        Op::GetMut { k, add } => format!("getmut {mid} {k} {add}"),
        Op::Remove { k, variant } => format!("remove {mid} {k} {variant}"),
        Op::Clear => format!("clear {mid}"),
        Op::Reserve { n } => format!("reserve {mid} {n}"),
        Op::TryReserve { n } => format!("tryreserve {mid} {n}"),
        Op::Shrink { n } => format!("shrink {mid} {n}"),
        Op::ShrinkToFit => format!("shrinkfit {mid}"),
        Op::Retain { p } => format!("retain {mid} {}", p.fmt()),
        Op::DrainFilter { p, take, forget } => format!("drainfilter {mid} {} {take} {}", p.fmt(), *forget as u8),
        Op::Drain { take, forget } => format!("drain {mid} {take} {}", *forget as u8),
        Op::Iter { variant } => format!("iter {mid} {variant}"),
        Op::IterMut { add, variant } => format!("itermut {mid} {add} {variant}"),
        Op::Dump => format!("dump {mid}"),
        Op::Clone { src } => format!("clone {mid} {src}"),
        Op::CloneFrom { src } => format!("clonefrom {mid} {src}"),
        Op::Eq { other } => format!("eq {mid} {other}"),
        Op::Entry { via, k, steps } => format!(
            "entry {mid} {via} {k} {}",
            if steps.is_empty() { "-".to_string() } else { steps.iter().map(|s| s.fmt()).collect::<Vec<_>>().join(";") }
        ),
        Op::Extend { items, hint } => format!(
            "extend {mid} {} {}",
            if items.is_empty() { "-".to_string() } else { items.iter().map(|(k, v)| format!("{k}:{v}")).collect::<Vec<_>>().join(",") },
            hint.map_or("-".to_string(), |h| h.to_string())
        ),
        Op::IntoIter { take } => format!("intoiter {mid} {take}"),
        Op::FillProbe { start } => format!("fillprobe {mid} {start}"),
        Op::FInsert { k, v, fuse } => format!("finsert {mid} {k} {v} {fuse}"),
        Op::FRetain { p, fuse } => format!("fretain {mid} {} {fuse}", p.fmt()),
        Op::FReplace { k } => format!("freplace {mid} {k}"),
        Op::FEntry { k, kind } => format!("fentry {mid} {k} {kind}"),
        Op::FEq { kind, k, v, fuse } => format!("feq {mid} {kind} {k} {v} {fuse}"),
        Op::FDrainFilter { p, fuse } => format!("fdrainfilter {mid} {} {fuse}", p.fmt()),
        Op::Drop => format!("drop {mid}"),
    }
}

pub fn parse_op(line: &str) -> Option<Line> {
    let t: Vec<&str> = line.split_whitespace().collect();
    if t.len() < 2 {
        return None;
    }
    let mid: usize = t[1].parse().ok()?;
    let u = |i: usize| -> Option<u64> { t.get(i)?.parse().ok() };
    let z = |i: usize| -> Option<usize> { t.get(i)?.parse().ok() };
    let op = match t[0] {
        "new" => Op::New { cap: z(2)?, seed: u(3).unwrap_or(0) },
        "insert" => Op::Insert { k: u(2)?, v: u(3)? },
        "get" => Op::Get { k: u(2)?, variant: u(3).unwrap_or(0) as u8 },
        "getmut" => Op::GetMut { k: u(2)?, add: u(3)? },
        "remove" => Op::Remove { k: u(2)?, variant: u(3).unwrap_or(0) as u8 },
        "clear" => Op::Clear,
        "reserve" => Op::Reserve { n: z(2)? },
        "tryreserve" => Op::TryReserve { n: z(2)? },
        "shrink" => Op::Shrink { n: z(2)? },
        "shrinkfit" => Op::ShrinkToFit,
        "retain" => Op::Retain { p: Pred::parse(t.get(2)?)? },
        "drainfilter" => Op::DrainFilter { p: Pred::parse(t.get(2)?)?, take: z(3)?, forget: *t.get(4)? == "1" },
        "drain" => Op::Drain { take: z(2)?, forget: *t.get(3)? == "1" },
        "iter" => Op::Iter { variant: u(2).unwrap_or(0) as u8 },
        "itermut" => Op::IterMut { add: u(2)?, variant: u(3).unwrap_or(0) as u8 },
        "dump" => Op::Dump,
        "clone" => Op::Clone { src: z(2)? },
        "clonefrom" => Op::CloneFrom { src: z(2)? },
        "eq" => Op::Eq { other: z(2)? },
        "entry" => {
            let steps = if *t.get(4)? == "-" { vec![] } else { t[4].split(';').map(Step::parse).collect::<Option<Vec<_>>>()? };
            Op::Entry { via: u(2)? as u8, k: u(3)?, steps }
        }
        "extend" => {
            let items = if *t.get(2)? == "-" {
                vec![]
            } else {
                t[2].split(',')
                    .map(|p| {
                        let mut it = p.split(':');
                        Some((it.next()?.parse().ok()?, it.next()?.parse().ok()?))
                    })
                    .collect::<Option<Vec<_>>>()?
            };
            Op::Extend { items, hint: t.get(3).and_then(|x| x.parse().ok()) }
        }
        "intoiter" => Op::IntoIter { take: z(2)? },
        "fillprobe" => Op::FillProbe { start: u(2)? },
        "finsert" => Op::FInsert { k: u(2)?, v: u(3)?, fuse: z(4)? },
        "fretain" => Op::FRetain { p: Pred::parse(t.get(2)?)?, fuse: z(3)? },
        "freplace" => Op::FReplace { k: u(2)? },
        "fentry" => Op::FEntry { k: u(2)?, kind: u(3)? as u8 },
        "feq" => Op::FEq { kind: u(2)? as u8, k: u(3)?, v: u(4)?, fuse: z(5)? },
        "fdrainfilter" => Op::FDrainFilter { p: Pred::parse(t.get(2)?)?, fuse: z(3)? },
        "drop" => Op::Drop,
        _ => return None,
    };
    Some(Line { mid, op })
}

/// A failure of a model-independent oracle, tagged with the properties it evidences.
#[derive(Clone, Debug)]
pub struct DirectFail {
    pub props: Vec<&'static str>,
    pub op_index: usize,
    pub what: String,
}

/// reference entry: (kid, v, vid)
pub type RefMap = BTreeMap<u64, (u64, u64, u64)>;

#[derive(Default, Clone, Debug)]
pub struct Stats {
    pub ops: u64,
    pub ops_split: u64,
    pub growths: u64,
    pub max_buckets: usize,
    pub max_len: usize,
    pub old_removals: u64,
    pub tomb_hits: u64,
    pub panics: BTreeMap<String, u64>,
    /// (op kind, phase) -> count
    pub matrix: BTreeMap<(String, &'static str), u64>,
    /// distinct (op kind, phase, location class, outcome class) tuples
    pub tuples: std::collections::BTreeSet<(String, &'static str, &'static str, String)>,
}

pub struct World {
    pub maps: Vec<Option<M>>,
    pub refs: Vec<Option<RefMap>>,
    pub hk: HKind,
    pub transcript: Vec<String>,
    pub fails: std::cell::RefCell<Vec<DirectFail>>,
    pub stats: Stats,
    pub op_index: usize,
    /// per map: (L at the split, key-adding calls since)
    pub split_track: Vec<Option<(usize, usize)>>,
    pub quiet_transcript: bool,
    pub progress: Option<std::fs::File>,
    pub last_da: u64,
    pub last_panicked: bool,
    pub r: usize,
    /// an iterator was forgotten: objects may stay live for ever
    pub leak_allowed: bool,
}

pub fn ids_fmt(v: &mut Vec<u64>) -> String {
    if v.is_empty() {
        return "-".into();
    }
    v.sort_unstable();
    v.iter().map(|x| x.to_string()).collect::<Vec<_>>().join(",")
}
pub fn keys_fmt(v: &[u64]) -> String {
    if v.is_empty() {
        return "-".into();
    }
    v.iter().map(|x| x.to_string()).collect::<Vec<_>>().join(",")
}
fn ent_fmt(k: &Key, v: &Val) -> String {
    format!("{}#{}:{}#{}", k.k(), k.id, v.v, v.id)
}
fn optv_fmt(v: Option<&Val>) -> String {
    match v {
        Some(v) => format!("{}#{}", v.v, v.id),
        None => "none".into(),
    }
}

pub fn classify_panic(msg: &str) -> String {
    if msg.contains("injected") {
        "injected".into()
    } else if msg.contains("Hash table capacity overflow") {
        "capacity_overflow".into()
    } else if msg.contains("no entry found for key") {
        "index_missing".into()
    } else if msg.contains("self.leftovers.is_none()") && !msg.contains("debug") {
        "assert_leftovers".into()
    } else if msg.contains("invalid bucket state") {
        "unreachable".into()
    } else if msg.contains("attempt to add with overflow") || msg.contains("attempt to subtract with overflow") || msg.contains("attempt to multiply with overflow") {
        "arith".into()
    } else if msg.contains("resize despite sufficient capacity") {
        "resize_despite".into()
    } else {
        let m: String = msg.chars().filter(|c| !c.is_whitespace()).take(60).collect();
        format!("other:{m}")
    }
}

thread_local! {
    pub static LAST_PANIC: std::cell::RefCell<String> = const { std::cell::RefCell::new(String::new()) };
}
pub fn install_panic_hook() {
    std::panic::set_hook(Box::new(|info| {
        let s = format!("{info}");
        LAST_PANIC.with(|p| *p.borrow_mut() = s);
    }));
}

pub struct Obs {
    pub len: usize,
    pub cap: usize,
    pub mi: usize,
    pub mgl: usize,
    pub mb: usize,
    pub ptr: usize,
    pub old: Option<(usize, usize, usize, usize)>,
}
pub fn observe(m: &M) -> Obs {
    let s = m.verif_state();
    Obs { len: m.len(), cap: m.capacity(), mi: s.main_len, mgl: s.main_cap - s.main_len, mb: s.main_buckets, ptr: s.main_ptr, old: s.old }
}
pub fn old_keys(m: &M) -> Vec<u64> {
    let mut v = vec![];
    m.verif_old_keys(usize::MAX, |k| v.push(k.k()));
    v
}
pub fn full_cap(b: usize) -> usize {
    if b <= 8 { b.saturating_sub(1) } else { b / 8 * 7 }
}
pub fn phase_of(o: &Obs) -> &'static str {
    match o.old {
        None => "none",
        Some((0, ..)) => "old-empty",
        Some((l, _, b, _)) => {
            if l + 8 >= full_cap(b) { "just-split" } else { "partly-moved" }
        }
    }
}

pub struct CallResult<R> {
    pub r: Result<R, String>,
    pub dh: u64,
    pub da: u64,
    pub df: u64,
    pub dropped: Vec<u64>,
    pub callbacks: u64,
}

pub fn windowed<R>(f: impl FnOnce() -> R) -> CallResult<R> {
    LAST_PANIC.with(|p| p.borrow_mut().clear());
    open_window();
    alloc::arm();
    let r = catch_unwind(AssertUnwindSafe(f));
    let (da, df) = alloc::disarm();
    let st = close_window();
    let r = r.map_err(|_| classify_panic(&LAST_PANIC.with(|p| p.borrow().clone())));
    CallResult { r, dh: st.hashes, da, df, dropped: st.dropped, callbacks: st.callbacks }
}

impl World {
    pub fn new(hk: HKind) -> World {
        World {
            maps: vec![],
            refs: vec![],
            hk,
            transcript: vec![],
            fails: std::cell::RefCell::new(vec![]),
            stats: Stats::default(),
            op_index: 0,
            split_track: vec![],
            quiet_transcript: false,
            progress: None,
            last_da: 0,
            last_panicked: false,
            r: 8,
            leak_allowed: false,
        }
    }
    fn fail(&self, props: &[&'static str], what: String) {
        self.fails.borrow_mut().push(DirectFail { props: props.to_vec(), op_index: self.op_index, what });
    }
    fn ensure(&mut self, mid: usize) {
        while self.maps.len() <= mid {
            self.maps.push(None);
            self.refs.push(None);
            self.split_track.push(None);
        }
    }
    pub fn map(&self, mid: usize) -> Option<&M> {
        self.maps.get(mid).and_then(|m| m.as_ref())
    }
    pub fn hash_of(&self, mid: usize, k: u64) -> u64 {
        use std::hash::{BuildHasher, Hasher};
        let hb = self.maps[mid].as_ref().unwrap().hasher().clone();
        let mut h = hb.build_hasher();
        h.write_u64(k);
        h.finish()
    }

    /// Execute one op: real call under the window, transcript line, direct oracles.
    pub fn exec(&mut self, mid: usize, op: &Op) {
        if let Op::FillProbe { start } = op {
            self.fill_probe(mid, *start);
            return;
        }
        self.progress_line(mid, op);
        self.ensure(mid);
        if matches!(op, Op::New { .. } | Op::Clone { .. }) && self.maps[mid].is_some() {
            // the slot is taken: drop what is there first (as its own, observed, step)
            self.op_index -= 0;
            self.exec_inner_drop(mid);
        }
        self.op_index += 1;
        if !matches!(op, Op::New { .. }) && self.maps[mid].is_none() {
            return; // op on a map that no longer exists (shrunk histories): skip
        }
        if let Op::Clone { src } | Op::CloneFrom { src } | Op::Eq { other: src } = op {
            if self.maps.get(*src).map_or(true, |m| m.is_none()) {
                return;
            }
        }
        let pre = self.maps[mid].as_ref().map(observe);
        let pre_phase = pre.as_ref().map_or("none", phase_of);
        let pre_ref_keys: Option<Vec<u64>> = None;
        let _ = pre_ref_keys;
        let mut orc: Vec<String> = vec![];
        let mut obsx: Vec<String> = vec![]; // ret=, retd=
        let mut hints: Vec<String> = vec![];
        let mut extend_overwrites = false;
        let mut head = fmt_op(mid, op);
        let mut panic_kind: Option<String> = None;
        let mut dh = 0u64;
        let mut da = 0u64;
        let mut df = 0u64;
        let mut dropped: Vec<u64> = vec![];
        let mut returned: Vec<u64> = vec![];
        let mut ret = String::from("-");
        let mut loc_class: &'static str = "-";
        let mut key_adding = false; // the call added a key (or overwrote one in the old table)
        let mut readonly = false; // lookup / removal / in-place update
        let mut survives = false; // an injected panic the map is specified to survive
        let mut lost_keys: Vec<u64> = vec![]; // elements a fused call is allowed to have dropped
        let kind: String = head.split_whitespace().next().unwrap().to_string();

        macro_rules! take_cr {
            ($cr:expr) => {{
                let cr = $cr;
                dh = cr.dh;
                da = cr.da;
                df = cr.df;
                dropped = cr.dropped;
                let _ = cr.callbacks;
                match cr.r {
                    Ok(v) => Some(v),
                    Err(p) => {
                        panic_kind = Some(p);
                        None
                    }
                }
            }};
        }
        let class_of = |w: &World, k: u64| -> &'static str {
            let m = w.maps[mid].as_ref().unwrap();
            let r = w.refs[mid].as_ref().unwrap();
            if !r.contains_key(&k) {
                "absent"
            } else {
                let ok = {
                    let mut v = vec![];
                    m.verif_old_keys(16, |x| v.push(x.k()));
                    v
                };
                if ok.contains(&k) {
                    "old-near"
                } else if m.verif_state().old.is_some() && {
                    let mut found = false;
                    m.verif_old_keys(usize::MAX, |x| found |= x.k() == k);
                    found
                } {
                    "old-far"
                } else {
                    "main"
                }
            }
        };

        match op {
            Op::New { cap, seed } => {
                let hk = self.hk;
                let cap = *cap;
                let seed = *seed;
                let cr = windowed(move || if cap == 0 { M::with_hasher(VBuild { kind: hk, seed }) } else { M::with_capacity_and_hasher(cap, VBuild { kind: hk, seed }) });
                if let Some(m) = take_cr!(cr) {
                    if m.capacity() < cap {
                        self.fail(&["C10"], format!("with_capacity({cap}) gave capacity {}", m.capacity()));
                    }
                    self.maps[mid] = Some(m);
                    self.refs[mid] = Some(RefMap::new());
                    self.split_track[mid] = None;
                }
                head = format!("new {mid} {cap}");
            }
            Op::Insert { k, v } => {
                loc_class = class_of(self, *k);
                let key = Key::new(*k);
                let val = Val::new(*v);
                let (kid, vid) = (key.id, val.id);
                head = format!("insert {mid} {k} {kid} {v} {vid}");
                let m = self.maps[mid].as_mut().unwrap();
                let cr = windowed(|| m.insert(key, val));
                let r = self.refs[mid].as_mut().unwrap();
                let expect = r.get(k).map(|e| (e.1, e.2));
                key_adding = expect.is_none() || loc_class.starts_with("old");
                readonly = !key_adding;
                match r.get_mut(k) {
                    Some(e) => {
                        e.1 = *v;
                        e.2 = vid;
                    }
                    None => {
                        r.insert(*k, (kid, *v, vid));
                    }
                }
                if let Some(res) = take_cr!(cr) {
                    ret = optv_fmt(res.as_ref());
                    let got = res.as_ref().map(|x| (x.v, x.id));
                    if got != expect {
                        self.fail(&["C01"], format!("insert({k}) returned {got:?}, reference {expect:?}"));
                    }
                    if let Some(x) = res {
                        returned.push(x.id);
                        drop(x);
                    }
                }
            }
            Op::Get { k, variant } => {
                readonly = true;
                loc_class = class_of(self, *k);
                let hash = self.hash_of(mid, *k);
                let m = self.maps[mid].as_ref().unwrap();
                let q = Q(*k);
                let variant = *variant;
                let cr = windowed(|| match variant {
                    1 => m.get(&q).map(|v| format!("?:{}#{}", v.v, v.id)),
                    2 => Some(format!("contains:{}", m.contains_key(&q))),
                    3 => Some({
                        let v = &m[&q];
                        format!("?:{}#{}", v.v, v.id)
                    }),
                    5 => m.raw_entry().from_key(&q).map(|(k, v)| ent_fmt(k, v)),
                    6 => m.raw_entry().from_key_hashed_nocheck(hash, &q).map(|(k, v)| ent_fmt(k, v)),
                    7 => m.raw_entry().from_hash(hash, |x| x.k() == q.0).map(|(k, v)| ent_fmt(k, v)),
                    _ => m.get_key_value(&q).map(|(k, v)| ent_fmt(k, v)),
                });
                let r = self.refs[mid].as_ref().unwrap();
                let expect = r.get(k).map(|e| format!("{}#{}:{}#{}", k, e.0, e.1, e.2));
                head = format!("get {mid} {k}");
                match take_cr!(cr) {
                    Some(got) => {
                        // canonical ret = the full entry (projections are checked directly)
                        ret = expect.clone().unwrap_or("none".into());
                        let ok = match variant {
                            1 | 3 => got.as_ref().map(|s| s[2..].to_string()) == r.get(k).map(|e| format!("{}#{}", e.1, e.2)),
                            2 => got == Some(format!("contains:{}", expect.is_some())),
                            _ => got == expect,
                        };
                        if !ok {
                            ret = got.clone().unwrap_or("none".into());
                            self.fail(&["C01", "C14"], format!("get variant {variant} of {k} gave {got:?}, reference {expect:?}"));
                        }
                        // hash counts: variants 6, 7 hash nothing inside the window; tell the model
                        if variant == 6 || variant == 7 {
                            dh += 1;
                        }
                    }
                    None => {
                        if !(variant == 3 && expect.is_none() && panic_kind.as_deref() == Some("index_missing")) {
                            self.fail(&["C01"], format!("get variant {variant} of {k} panicked: {panic_kind:?}"));
                        } else {
                            // documented panic: the map is untouched; present it to the model as a plain miss
                            panic_kind = None;
                            ret = "none".into();
                        }
                    }
                }
            }
            Op::GetMut { k, add } => {
                readonly = true;
                loc_class = class_of(self, *k);
                let m = self.maps[mid].as_mut().unwrap();
                let q = Q(*k);
                let add = *add;
                let cr = windowed(|| {
                    if add % 2 == 1 {
                        m.get_key_value_mut(&q).map(|(kk, v)| {
                            kk.check("get_key_value_mut");
                            v.v += add;
                            (v.v, v.id)
                        })
                    } else {
                        m.get_mut(&q).map(|v| {
                            v.v += add;
                            (v.v, v.id)
                        })
                    }
                });
                let r = self.refs[mid].as_mut().unwrap();
                let expect = r.get_mut(k).map(|e| {
                    e.1 += add;
                    (e.1, e.2)
                });
                if let Some(got) = take_cr!(cr) {
                    ret = match got {
                        Some((v, id)) => format!("{v}#{id}"),
                        None => "none".into(),
                    };
                    if got != expect {
                        self.fail(&["C01"], format!("get_mut({k}) gave {got:?}, reference {expect:?}"));
                    }
                }
            }
            Op::Remove { k, variant } => {
                readonly = true;
                loc_class = class_of(self, *k);
                if loc_class.starts_with("old") {
                    self.stats.old_removals += 1;
                }
                let m = self.maps[mid].as_mut().unwrap();
                let q = Q(*k);
                let variant = *variant;
                let cr = windowed(|| if variant == 1 { m.remove(&q).map(|v| (None, v)) } else { m.remove_entry(&q).map(|(k, v)| (Some(k), v)) });
                let r = self.refs[mid].as_mut().unwrap();
                let expect = r.remove(k);
                head = format!("remove {mid} {k}");
                if let Some(got) = take_cr!(cr) {
                    match (&got, &expect) {
                        (Some((gk, gv)), Some(e)) => {
                            ret = format!("{}#{}:{}#{}", k, e.0, gv.v, gv.id);
                            if (gv.v, gv.id) != (e.1, e.2) || gk.as_ref().map_or(false, |x| x.id != e.0 || x.k() != *k) {
                                self.fail(&["C01"], format!("remove({k}) gave wrong element"));
                            }
                            if gk.is_none() {
                                // `remove` dropped the key itself: for the model it is "returned"
                                if let Some(p) = dropped.iter().position(|d| *d == e.0) {
                                    dropped.remove(p);
                                    returned.push(e.0);
                                } else {
                                    self.fail(&["C06"], format!("remove({k}) did not drop the stored key object"));
                                }
                            }
                        }
                        (None, None) => ret = "none".into(),
                        _ => {
                            ret = if got.is_some() { "some".into() } else { "none".into() };
                            self.fail(&["C01"], format!("remove({k}) presence differs from reference"));
                        }
                    }
                    if let Some((gk, gv)) = got {
                        if let Some(gk) = gk {
                            returned.push(gk.id);
                            drop(gk);
                        }
                        returned.push(gv.id);
                        drop(gv);
                    }
                }
            }
            Op::Clear => {
                let m = self.maps[mid].as_mut().unwrap();
                let cr = windowed(|| m.clear());
                self.refs[mid].as_mut().unwrap().clear();
                take_cr!(cr);
            }
            Op::Reserve { n } => {
                let m = self.maps[mid].as_mut().unwrap();
                let n = *n;
                let cr = windowed(|| m.reserve(n));
                if take_cr!(cr).is_some() {
                    let m = self.maps[mid].as_ref().unwrap();
                    if m.capacity() < m.len().saturating_add(n) {
                        self.fail(&["C10", "C17"], format!("reserve({n}) returned with capacity {} < len {} + n", m.capacity(), m.len()));
                    }
                }
            }
            Op::TryReserve { n } => {
                let m = self.maps[mid].as_mut().unwrap();
                let n = *n;
                let cr = windowed(|| m.try_reserve(n));
                if let Some(res) = take_cr!(cr) {
                    let m = self.maps[mid].as_ref().unwrap();
                    match res {
                        Ok(()) => {
                            ret = "ok".into();
                            if m.capacity() < m.len().saturating_add(n) {
                                self.fail(&["C10", "C17"], format!("try_reserve({n}) returned Ok with capacity {} < len {} + n", m.capacity(), m.len()));
                            }
                        }
                        Err(griddle::TryReserveError::CapacityOverflow) => ret = "err:overflow".into(),
                        Err(griddle::TryReserveError::AllocError { .. }) => ret = "err:alloc".into(),
                    }
                }
            }
            Op::Shrink { .. } | Op::ShrinkToFit => {
                let m = self.maps[mid].as_mut().unwrap();
                let (cap0, b0) = (m.capacity(), m.verif_state().main_buckets);
                let n = match op {
                    Op::Shrink { n } => *n,
                    _ => 0,
                };
                let fit = matches!(op, Op::ShrinkToFit);
                let cr = windowed(|| if fit { m.shrink_to_fit() } else { m.shrink_to(n) });
                head = format!("shrink {mid} {n}");
                if take_cr!(cr).is_some() {
                    let m = self.maps[mid].as_ref().unwrap();
                    if m.verif_state().main_buckets > b0 {
                        self.fail(&["C10"], format!("shrink_to({n}) enlarged the table"));
                    }
                    if m.capacity() < m.len().max(n.min(cap0)) {
                        self.fail(&["C10"], format!("shrink_to({n}) left capacity {} < max(len {}, min(n, {cap0}))", m.capacity(), m.len()));
                    }
                }
            }
            Op::Retain { p } => {
                let mut calls: Vec<u64> = vec![];
                let m = self.maps[mid].as_mut().unwrap();
                let cr = windowed(|| {
                    m.retain(|k, v| {
                        tick(CLOSURE);
                        calls.push(k.k());
                        v.v += p.add;
                        p.test(k.k())
                    })
                });
                orc.push(format!("calls={}", keys_fmt(&calls)));
                let r = self.refs[mid].as_mut().unwrap();
                let n0 = r.len();
                let mut sorted = calls.clone();
                sorted.sort_unstable();
                let refkeys: Vec<u64> = r.keys().copied().collect();
                r.retain(|k, e| {
                    e.1 += p.add;
                    p.test(*k)
                });
                if take_cr!(cr).is_some() {
                    if sorted != refkeys {
                        self.fail(&["C09"], format!("retain called f on {} keys, map held {n0}; not once per element", calls.len()));
                    }
                }
            }
            Op::DrainFilter { p, take, forget } => {
                let m = self.maps[mid].as_mut().unwrap();
                let order: Vec<u64> = m.iter().map(|(k, _)| k.k()).collect();
                orc.push(format!("calls={}", keys_fmt(&order)));
                let mut calls: Vec<u64> = vec![];
                let mut yielded: Vec<(Key, Val)> = vec![];
                let (take, forget) = (*take, *forget);
                let total_matching = self.refs[mid].as_ref().unwrap().keys().filter(|k| p.test(**k)).count();
                let mut bad_hint: Option<String> = None;
                let cr = windowed(|| {
                    let mut it = m.drain_filter(|k, v| {
                        tick(CLOSURE);
                        calls.push(k.k());
                        v.v += p.add;
                        p.test(k.k())
                    });
                    for _ in 0..take {
                        // `size_hint` must bracket what is still to come
                        let (lo, hi) = it.size_hint();
                        let left = total_matching - yielded.len().min(total_matching);
                        if (lo > left || hi.map_or(false, |h| h < left)) && bad_hint.is_none() {
                            bad_hint = Some(format!("drain_filter: size_hint() = ({lo}, {hi:?}) but {left} elements are still to come"));
                        }
                        match it.next() {
                            Some(x) => yielded.push(x),
                            None => break,
                        }
                    }
                    if forget {
                        std::mem::forget(it);
                    } else {
                        drop(it);
                    }
                });
                let ok = take_cr!(cr).is_some();
                if let Some(b) = bad_hint {
                    self.fail(&["C08", "C09"], b);
                }
                ret = if yielded.is_empty() { "-".into() } else { yielded.iter().map(|(k, v)| ent_fmt(k, v)).collect::<Vec<_>>().join(",") };
                let r = self.refs[mid].as_mut().unwrap();
                if ok {
                    // reference semantics: calls made = visited; matching visited ones removed
                    let mut seen = std::collections::BTreeSet::new();
                    for k in &calls {
                        if !seen.insert(*k) {
                            self.fails.borrow_mut().push(DirectFail { props: vec!["C09"], op_index: self.op_index, what: format!("drain_filter called f twice on key {k}") });
                        }
                        match r.get_mut(k) {
                            Some(e) => e.1 += p.add,
                            None => self.fails.borrow_mut().push(DirectFail { props: vec!["C09"], op_index: self.op_index, what: format!("drain_filter called f on key {k} which the map does not hold") }),
                        }
                    }
                    let matching_visited: Vec<u64> = calls.iter().copied().filter(|k| p.test(*k)).collect();
                    for k in &matching_visited {
                        r.remove(k);
                    }
                    let ykeys: Vec<u64> = yielded.iter().map(|(k, _)| k.k()).collect();
                    if ykeys != matching_visited[..ykeys.len().min(matching_visited.len())] || ykeys.len() > matching_visited.len() {
                        self.fails.borrow_mut().push(DirectFail { props: vec!["C09"], op_index: self.op_index, what: "drain_filter yielded something other than the matching elements in visiting order".into() });
                    }
                    if !forget {
                        // every matching element must be gone, every other one still there
                        if r.keys().any(|k| p.test(*k)) {
                            self.fails.borrow_mut().push(DirectFail { props: vec!["C09"], op_index: self.op_index, what: "dropped drain_filter left matching elements unvisited".into() });
                        }
                    } else if ykeys.len() < take && r.keys().any(|k| p.test(*k)) {
                        self.fails.borrow_mut().push(DirectFail { props: vec!["C09"], op_index: self.op_index, what: "exhausted drain_filter left matching elements".into() });
                    }
                }
                for (k, v) in yielded {
                    returned.push(k.id);
                    returned.push(v.id);
                    drop((k, v));
                }
            }
            Op::Drain { take, forget } => {
                let m = self.maps[mid].as_mut().unwrap();
                let n_main = m.verif_state().main_len;
                let iter_order: Vec<u64> = m.iter().map(|(k, _)| k.k()).collect();
                let mut order = iter_order[n_main.min(iter_order.len())..].to_vec();
                order.extend_from_slice(&iter_order[..n_main.min(iter_order.len())]);
                orc.push(format!("calls={}", keys_fmt(&order)));
                let len0 = m.len();
                let mut yielded: Vec<(Key, Val)> = vec![];
                let mut hints_ok = true;
                let (take, forget) = (*take, *forget);
                let cr = windowed(|| {
                    let mut it = m.drain();
                    for i in 0..take {
                        hints.push(hint_fmt(it.size_hint()));
                        if it.len() != len0 - i.min(len0) || it.size_hint() != (len0 - i.min(len0), Some(len0 - i.min(len0))) {
                            hints_ok = false;
                        }
                        match it.next() {
                            Some(x) => yielded.push(x),
                            None => {
                                hints_ok &= it.next().is_none() && it.next().is_none();
                                break;
                            }
                        }
                    }
                    if forget {
                        std::mem::forget(it);
                    } else {
                        drop(it);
                    }
                });
                let ok = take_cr!(cr).is_some();
                ret = if yielded.is_empty() { "-".into() } else { yielded.iter().map(|(k, v)| ent_fmt(k, v)).collect::<Vec<_>>().join(",") };
                let r = self.refs[mid].as_mut().unwrap();
                if ok {
                    if !hints_ok {
                        self.fails.borrow_mut().push(DirectFail { props: vec!["C08"], op_index: self.op_index, what: "drain: len()/size_hint() not exact or not fused".into() });
                    }
                    let mut seen = std::collections::BTreeSet::new();
                    for (k, v) in &yielded {
                        let e = r.get(&k.k());
                        if !seen.insert(k.k()) || e.map(|e| (e.0, e.1, e.2)) != Some((k.id, v.v, v.id)) {
                            self.fails.borrow_mut().push(DirectFail { props: vec!["C08"], op_index: self.op_index, what: format!("drain yielded a wrong or repeated element (key {})", k.k()) });
                        }
                    }
                    if yielded.len() != take.min(len0) {
                        self.fails.borrow_mut().push(DirectFail { props: vec!["C08"], op_index: self.op_index, what: format!("drain yielded {} elements, expected {}", yielded.len(), take.min(len0)) });
                    }
                    r.clear();
                    let m = self.maps[mid].as_ref().unwrap();
                    if !m.is_empty() || m.iter().count() != 0 {
                        self.fails.borrow_mut().push(DirectFail { props: vec!["C08"], op_index: self.op_index, what: "map not empty after drain".into() });
                    }
                }
                for (k, v) in yielded {
                    returned.push(k.id);
                    returned.push(v.id);
                    drop((k, v));
                }
                if forget {
                    // objects and tables still inside the forgotten iterator are leaked, by design
                    let expect_live: i64 = self.maps.iter().flatten().map(live_tables_of).sum();
                    alloc::set_live(expect_live);
                    self.leak_allowed = true;
                }
            }
            Op::Iter { variant } => {
                readonly = true;
                let m = self.maps[mid].as_mut().unwrap();
                let len0 = m.len();
                let mut seq: Vec<String> = vec![];
                let mut keys: Vec<u64> = vec![];
                let mut problems: Vec<String> = vec![];
                let variant = *variant;
                let cr = windowed(|| match variant {
                    1 => {
                        let ks: Vec<(u64, u64)> = m.keys().map(|k| (k.k(), k.id)).collect();
                        let vs: Vec<(u64, u64)> = m.values().map(|v| (v.v, v.id)).collect();
                        if m.keys().len() != len0 || m.values().len() != len0 {
                            problems.push("keys()/values() len".into());
                        }
                        for (i, (k, kid)) in ks.iter().enumerate() {
                            let (v, vid) = vs.get(i).copied().unwrap_or((u64::MAX, 0));
                            seq.push(format!("{k}#{kid}:{v}#{vid}"));
                            keys.push(*k);
                        }
                        if ks.len() != vs.len() {
                            problems.push("keys() and values() differ in length".into());
                        }
                    }
                    3 | 4 => {
                        if variant == 3 {
                            let mut it = m.iter_mut();
                            let mut i = 0;
                            loop {
                                hints.push(hint_fmt(it.size_hint()));
                                if it.len() != len0 - i || it.size_hint() != (len0 - i, Some(len0 - i)) {
                                    problems.push(format!("iter_mut len at step {i}"));
                                }
                                match it.next() {
                                    Some((k, v)) => {
                                        seq.push(ent_fmt(k, v));
                                        keys.push(k.k());
                                    }
                                    None => break,
                                }
                                i += 1;
                                if i > len0 + 2 { break; }
                            }
                            if it.next().is_some() || it.next().is_some() {
                                problems.push("iter_mut not fused".into());
                            }
                        } else {
                            let n = m.values_mut().len();
                            if n != len0 {
                                problems.push("values_mut len".into());
                            }
                            let vs: Vec<(u64, u64)> = m.values_mut().map(|v| (v.v, v.id)).collect();
                            let ks: Vec<(u64, u64)> = m.keys().map(|k| (k.k(), k.id)).collect();
                            for (i, (k, kid)) in ks.iter().enumerate() {
                                let (v, vid) = vs.get(i).copied().unwrap_or((u64::MAX, 0));
                                seq.push(format!("{k}#{kid}:{v}#{vid}"));
                                keys.push(*k);
                            }
                        }
                    }
                    _ => {
                        let mut it = if variant == 2 { (&*m).into_iter() } else { m.iter() };
                        let mut i = 0usize;
                        let mut cl: Option<(griddle::hash_map::Iter<'_, Key, Val>, usize)> = None;
                        loop {
                            hints.push(hint_fmt(it.size_hint()));
                            if it.len() != len0 - i.min(len0) || it.size_hint() != (len0 - i.min(len0), Some(len0 - i.min(len0))) {
                                problems.push(format!("iter len at step {i}: {} vs {}", it.len(), len0 - i.min(len0)));
                            }
                            if i == len0 / 2 {
                                cl = Some((it.clone(), i));
                            }
                            match it.next() {
                                Some((k, v)) => {
                                    seq.push(ent_fmt(k, v));
                                    keys.push(k.k());
                                }
                                None => break,
                            }
                            i += 1;
                            if i > len0 + 2 { break; }
                        }
                        if it.next().is_some() || it.next().is_some() || it.next().is_some() {
                            problems.push("iter not fused".into());
                        }
                        if let Some((c, at)) = cl {
                            let rest: Vec<u64> = c.map(|(k, _)| k.k()).collect();
                            if rest != keys[at..] {
                                problems.push("cloned iterator did not continue independently with the same elements".into());
                            }
                        }
                    }
                });
                orc.push(format!("calls={}", keys_fmt(&keys)));
                ret = if seq.is_empty() { "-".into() } else { seq.join(",") };
                head = format!("iter {mid}");
                if take_cr!(cr).is_some() {
                    for p in problems {
                        self.fail(&["C08"], p);
                    }
                    let r = self.refs[mid].as_ref().unwrap();
                    let mut got: Vec<String> = seq.clone();
                    got.sort();
                    let mut want: Vec<String> = r.iter().map(|(k, e)| format!("{}#{}:{}#{}", k, e.0, e.1, e.2)).collect();
                    want.sort();
                    if got != want {
                        self.fail(&["C08", "C01", "C14"], format!("iterator variant {variant} yielded {} elements, not the {} live ones exactly once", got.len(), want.len()));
                    }
                }
            }
            Op::IterMut { add, variant } => {
                readonly = true;
                let m = self.maps[mid].as_mut().unwrap();
                let (add, variant) = (*add, *variant);
                let cr = windowed(|| {
                    if variant == 1 {
                        for v in m.values_mut() {
                            v.v += add;
                        }
                    } else if variant == 2 {
                        for (_, v) in &mut *m {
                            v.v += add;
                        }
                    } else {
                        for (_, v) in m.iter_mut() {
                            v.v += add;
                        }
                    }
                });
                for e in self.refs[mid].as_mut().unwrap().values_mut() {
                    e.1 += add;
                }
                head = format!("itermut {mid} {add}");
                take_cr!(cr);
            }
            Op::Dump => {
                let m = self.maps[mid].as_ref().unwrap();
                let mut seq: Vec<(u64, String)> = vec![];
                let cr = windowed(|| {
                    for (k, v) in m.iter() {
                        k.check("dump");
                        v.check("dump");
                        seq.push((k.k(), ent_fmt(k, v)));
                    }
                });
                take_cr!(cr);
                dh = 0;
                seq.sort();
                let r = self.refs[mid].as_ref().unwrap();
                let want: Vec<String> = r.iter().map(|(k, e)| format!("{}#{}:{}#{}", k, e.0, e.1, e.2)).collect();
                let got: Vec<String> = seq.into_iter().map(|x| x.1).collect();
                ret = if got.is_empty() { "-".into() } else { got.join(",") };
                if got != want {
                    self.fail(&["C01", "C06"], format!("contents differ from reference: {} vs {} entries", got.len(), want.len()));
                }
                // every reference key must be found by get, and nothing else
                let m = self.maps[mid].as_ref().unwrap();
                let bad = r.iter().filter(|(k, e)| m.get(&Q(**k)).map(|v| (v.v, v.id)) != Some((e.1, e.2))).count();
                if bad > 0 || m.len() != r.len() || m.is_empty() != r.is_empty() {
                    self.fail(&["C01", "C14"], format!("{bad} reference keys not found by get / len {} vs {}", m.len(), r.len()));
                }
            }
            Op::Clone { src } => {
                let s = self.maps[*src].as_ref().unwrap();
                let cr = windowed(|| s.clone());
                if let Some(c) = take_cr!(cr) {
                    let fresh: Vec<String> = c.iter().map(|(k, v)| format!("{}:{}:{}", k.k(), k.id, v.id)).collect();
                    orc.push(format!("fresh={}", if fresh.is_empty() { "-".into() } else { fresh.join(",") }));
                    let sr = self.refs[*src].as_ref().unwrap();
                    let mut nr = RefMap::new();
                    for (k, v) in c.iter() {
                        nr.insert(k.k(), (k.id, v.v, v.id));
                    }
                    let same = nr.len() == sr.len() && nr.iter().all(|(k, e)| sr.get(k).map_or(false, |x| x.1 == e.1 && x.0 != e.0 && x.2 != e.2));
                    if !same || c.len() != sr.len() {
                        self.fail(&["C11"], "clone does not hold exactly the source's pairs as fresh objects".into());
                    }
                    let s = self.maps[*src].as_ref().unwrap();
                    if !(c == *s) || !(*s == c) {
                        self.fail(&["C11", "C14"], "clone != source".into());
                    }
                    if c.verif_state().old.is_some() {
                        // not a property violation by itself, but the model says otherwise
                    }
                    self.maps[mid] = Some(c);
                    self.refs[mid] = Some(nr);
                    self.split_track[mid] = None;
                }
            }
            Op::CloneFrom { src } => {
                if *src == mid {
                    return;
                }
                let (a, b) = if mid < *src {
                    let (x, y) = self.maps.split_at_mut(*src);
                    (x[mid].as_mut().unwrap(), y[0].as_ref().unwrap())
                } else {
                    let (x, y) = self.maps.split_at_mut(mid);
                    (y[0].as_mut().unwrap(), x[*src].as_ref().unwrap())
                };
                let cr = windowed(|| a.clone_from(b));
                if take_cr!(cr).is_some() {
                    let c = self.maps[mid].as_ref().unwrap();
                    let fresh: Vec<String> = c.iter().map(|(k, v)| format!("{}:{}:{}", k.k(), k.id, v.id)).collect();
                    orc.push(format!("fresh={}", if fresh.is_empty() { "-".into() } else { fresh.join(",") }));
                    let sr = self.refs[*src].as_ref().unwrap();
                    let mut nr = RefMap::new();
                    for (k, v) in c.iter() {
                        nr.insert(k.k(), (k.id, v.v, v.id));
                    }
                    let same = nr.len() == sr.len() && nr.iter().all(|(k, e)| sr.get(k).map_or(false, |x| x.1 == e.1 && x.0 != e.0 && x.2 != e.2));
                    if !same || c.len() != sr.len() {
                        self.fail(&["C11"], "clone_from: destination does not hold exactly the source's pairs as fresh objects".into());
                    }
                    let s = self.maps[*src].as_ref().unwrap();
                    if !(*c == *s) {
                        self.fail(&["C11", "C14"], "clone_from: destination != source".into());
                    }
                    if c.hasher().seed != s.hasher().seed {
                        self.fail(&["C11"], "clone_from did not adopt the source's hasher".into());
                    }
                    let bad = nr.keys().filter(|k| c.get(&Q(**k)).is_none()).count();
                    if bad > 0 {
                        self.fail(&["C11"], format!("clone_from: {bad} keys not found by lookup in the destination"));
                    }
                    self.refs[mid] = Some(nr);
                    self.split_track[mid] = None;
                }
            }
            Op::Eq { other } => {
                readonly = true;
                let a = self.maps[mid].as_ref().unwrap();
                let b = self.maps[*other].as_ref().unwrap();
                let cr = windowed(|| (a == b, b == a));
                let ra = self.refs[mid].as_ref().unwrap();
                let rb = self.refs[*other].as_ref().unwrap();
                let want = ra.len() == rb.len() && ra.iter().all(|(k, e)| rb.get(k).map_or(false, |x| x.1 == e.1));
                if let Some((x, y)) = take_cr!(cr) {
                    ret = format!("{x}");
                    if x != want || y != want {
                        self.fail(&["C14"], format!("== gave {x}/{y}, contents say {want}"));
                    }
                }
                dh = 0; // lookups in the other map: size-dependent, not compared
            }
            Op::Entry { via, k, steps } => {
                loc_class = class_of(self, *k);
                let (h, line, rv, rets, adding) = self.exec_entry(mid, *via, *k, steps);
                head = line;
                key_adding = adding || (loc_class.starts_with("old") && false);
                readonly = !adding;
                match h.r {
                    Ok(()) => {}
                    Err(p) => panic_kind = Some(p),
                }
                dh = h.dh;
                da = h.da;
                df = h.df;
                dropped = h.dropped;
                ret = rv;
                returned = rets;
            }
            Op::Extend { items, hint } => {
                let pairs: Vec<(Key, Val)> = items.iter().map(|(k, v)| (Key::new(*k), Val::new(*v))).collect();
                let desc: Vec<String> = pairs.iter().map(|(k, v)| format!("{}:{}:{}:{}", k.k(), k.id, v.v, v.id)).collect();
                let claimed = hint.unwrap_or(pairs.len());
                head = format!("extend {mid} {} {claimed}", if desc.is_empty() { "-".into() } else { desc.join(",") });
                let ids: Vec<(u64, u64, u64, u64)> = pairs.iter().map(|(k, v)| (k.k(), k.id, v.v, v.id)).collect();
                // does a pair overwrite a key that is already there?  (see the transcript rule for `extend` below)
                extend_overwrites = ids.iter().any(|x| self.refs[mid].as_ref().unwrap().contains_key(&x.0))
                    || ids.iter().enumerate().any(|(i, x)| ids[..i].iter().any(|y| y.0 == x.0));
                let m = self.maps[mid].as_mut().unwrap();
                struct Hinted(std::vec::IntoIter<(Key, Val)>, usize);
                impl Iterator for Hinted {
                    type Item = (Key, Val);
                    fn next(&mut self) -> Option<(Key, Val)> {
                        self.0.next()
                    }
                    fn size_hint(&self) -> (usize, Option<usize>) {
                        (self.1, None)
                    }
                }
                let cr = windowed(|| m.extend(Hinted(pairs.into_iter(), claimed)));
                let r = self.refs[mid].as_mut().unwrap();
                for (k, kid, v, vid) in ids {
                    match r.get_mut(&k) {
                        Some(e) => {
                            e.1 = v;
                            e.2 = vid;
                        }
                        None => {
                            r.insert(k, (kid, v, vid));
                        }
                    }
                }
                take_cr!(cr);
            }
            Op::IntoIter { take } => {
                let m = self.maps[mid].take().unwrap();
                let r = self.refs[mid].take().unwrap();
                let len0 = m.len();
                let n_main = m.verif_state().main_len;
                let iter_order: Vec<u64> = m.iter().map(|(k, _)| k.k()).collect();
                let mut order = iter_order[n_main.min(iter_order.len())..].to_vec();
                order.extend_from_slice(&iter_order[..n_main.min(iter_order.len())]);
                orc.push(format!("calls={}", keys_fmt(&order)));
                let mut yielded: Vec<(Key, Val)> = vec![];
                let mut hints_ok = true;
                let take = *take;
                let cr = windowed(|| {
                    let mut it = m.into_iter();
                    for i in 0..take {
                        hints.push(hint_fmt(it.size_hint()));
                        if it.len() != len0 - i.min(len0) {
                            hints_ok = false;
                        }
                        match it.next() {
                            Some(x) => yielded.push(x),
                            None => {
                                hints_ok &= it.next().is_none();
                                break;
                            }
                        }
                    }
                    drop(it);
                });
                take_cr!(cr);
                ret = if yielded.is_empty() { "-".into() } else { yielded.iter().map(|(k, v)| ent_fmt(k, v)).collect::<Vec<_>>().join(",") };
                if !hints_ok {
                    self.fail(&["C08"], "into_iter: len() not exact or not fused".into());
                }
                let mut seen = std::collections::BTreeSet::new();
                for (k, v) in &yielded {
                    if !seen.insert(k.k()) || r.get(&k.k()).map(|e| (e.0, e.1, e.2)) != Some((k.id, v.v, v.id)) {
                        self.fail(&["C08"], format!("into_iter yielded a wrong or repeated element (key {})", k.k()));
                    }
                }
                if yielded.len() != take.min(len0) {
                    self.fail(&["C08"], format!("into_iter yielded {} elements, expected {}", yielded.len(), take.min(len0)));
                }
                for (k, v) in yielded {
                    returned.push(k.id);
                    returned.push(v.id);
                    drop((k, v));
                }
                self.split_track[mid] = None;
            }
            Op::FInsert { k, v, fuse } => {
                loc_class = class_of(self, *k);
                let pre_old: Vec<u64> = old_keys(self.maps[mid].as_ref().unwrap());
                let key = Key::new(*k);
                let val = Val::new(*v);
                let (kid, vid) = (key.id, val.id);
                head = format!("finsert {mid} {k} {kid} {v} {vid} {fuse}");
                let m = self.maps[mid].as_mut().unwrap();
                arm_fuse(*fuse as i64, HASH);
                let cr = windowed(|| m.insert(key, val));
                let fired = fuse_fired();
                disarm_fuse();
                survives = true;
                let res = take_cr!(cr);
                let r = self.refs[mid].as_mut().unwrap();
                let expect = r.get(k).map(|e| (e.1, e.2));
                if !(fired && *fuse == 0) {
                    // the insertion / replacement itself precedes every re-hash
                    match r.get_mut(k) {
                        Some(e) => {
                            e.1 = *v;
                            e.2 = vid;
                        }
                        None => {
                            r.insert(*k, (kid, *v, vid));
                        }
                    }
                }
                key_adding = !fired && (expect.is_none() || loc_class.starts_with("old"));
                if fired != panic_kind.is_some() {
                    self.fail(&["C07"], format!("finsert: fuse fired = {fired} but the call {}", if panic_kind.is_some() { "panicked" } else { "returned" }));
                }
                if let Some(res) = res {
                    ret = optv_fmt(res.as_ref());
                    let got = res.as_ref().map(|x| (x.v, x.id));
                    if got != expect {
                        self.fail(&["C01"], format!("insert({k}) returned {got:?}, reference {expect:?}"));
                    }
                    if let Some(x) = res {
                        returned.push(x.id);
                        drop(x);
                    }
                }
                // documented loss: the element being relocated when `Hash` panicked, nothing else
                let m = self.maps[mid].as_ref().unwrap();
                let r = self.refs[mid].as_mut().unwrap();
                lost_keys = r.keys().copied().filter(|x| m.get(&Q(*x)).is_none()).collect();
                for x in &lost_keys {
                    r.remove(x);
                }
                // (an insert that grows parks the whole main table first: then any previous element may be the one)
                let ok = lost_keys.len() <= (fired && *fuse > 0) as usize && lost_keys.iter().all(|x| (x != k || expect.is_some()) && (da >= 1 || pre_old.contains(x)));
                if !ok {
                    let lk = lost_keys.clone();
                    self.fail(&["C07"], format!("a Hash panic at invocation {fuse} of insert lost keys {lk:?} (allowed: at most the one old-table element being moved)"));
                }
            }
            Op::FRetain { p, fuse } => {
                let mut calls: Vec<u64> = vec![];
                let m = self.maps[mid].as_mut().unwrap();
                let order: Vec<u64> = m.iter().map(|(k, _)| k.k()).collect();
                orc.push(format!("calls={}", keys_fmt(&order)));
                arm_fuse(*fuse as i64, CLOSURE);
                let cr = windowed(|| {
                    m.retain(|k, v| {
                        calls.push(k.k());
                        tick(CLOSURE);
                        v.v += p.add;
                        p.test(k.k())
                    })
                });
                let fired = fuse_fired();
                disarm_fuse();
                survives = true;
                let _ = take_cr!(cr);
                // the visits before the panicking one completed; nothing else was touched
                let done = (*fuse).min(order.len());
                let r = self.refs[mid].as_mut().unwrap();
                for k in &order[..done] {
                    if let Some(e) = r.get_mut(k) {
                        e.1 += p.add;
                    }
                    if !p.test(*k) {
                        r.remove(k);
                    }
                }
                let want_calls = &order[..(*fuse + 1).min(order.len())];
                if calls != want_calls || fired != (*fuse < order.len()) || fired != panic_kind.is_some() {
                    self.fail(&["C07", "C09"], format!("retain with a closure panicking at call {fuse}: f was called on {} keys, expected the first {} of the iteration order", calls.len(), want_calls.len()));
                }
            }
            Op::FReplace { k } => {
                loc_class = class_of(self, *k);
                let key = Key::new(*k);
                let kid = key.id;
                head = format!("freplace {mid} {k} {kid}");
                let m = self.maps[mid].as_mut().unwrap();
                let cr = windowed(|| {
                    if let griddle::hash_map::Entry::Occupied(o) = m.entry(key) {
                        let _ = o.replace_entry_with(|_, _| -> Option<Val> { panic!("injected (closure)") });
                    }
                });
                survives = true;
                let _ = take_cr!(cr);
                let r = self.refs[mid].as_mut().unwrap();
                let was = r.remove(k).is_some();
                if was != panic_kind.is_some() {
                    self.fail(&["C07"], format!("replace_entry_with on key {k} (present = {was}): closure {}", if was { "was not called" } else { "was called" }));
                }
            }
            Op::FEq { kind, k, v, fuse } => {
                loc_class = class_of(self, *k);
                let (kind, k, v) = (*kind, *k, *v);
                let by_value = kind == 0 || kind == 3;
                let key = if by_value { Some(Key::new(k)) } else { None };
                let val = if by_value { Some(Val::new(v)) } else { None };
                let (kid, vid) = (key.as_ref().map_or(0, |x| x.id), val.as_ref().map_or(0, |x| x.id));
                head = format!("feq {mid} {kind} {k} {kid} {v} {vid}");
                let m = self.maps[mid].as_mut().unwrap();
                arm_fuse(*fuse as i64, EQ);
                // what the call hands back is the caller's: it is dropped after the window, not inside it
                let mut handed_val: Option<Val> = None;
                let mut handed_pair: Option<(Key, Val)> = None;
                let cr = windowed(|| match kind {
                    0 => {
                        handed_val = m.insert(key.unwrap(), val.unwrap());
                    }
                    1 => {
                        handed_pair = m.remove_entry(&Q(k));
                    }
                    3 => {
                        m.entry(key.unwrap()).or_insert(val.unwrap());
                    }
                    4 => {
                        if let Some(x) = m.get_mut(&Q(k)) {
                            x.v += 1;
                        }
                    }
                    _ => {
                        let _ = m.get(&Q(k));
                    }
                });
                let fired = fuse_fired();
                disarm_fuse();
                survives = true;
                orc.push(format!("fired={}", fired as u8));
                let _ = take_cr!(cr);
                drop(handed_val);
                drop(handed_pair);
                if fired != panic_kind.is_some() {
                    self.fail(&["C07"], format!("feq: fuse fired = {fired} but the call {}", if panic_kind.is_some() { "panicked" } else { "returned" }));
                }
                if !fired {
                    // the ordinary call happened: keep the reference in step
                    let r = self.refs[mid].as_mut().unwrap();
                    match kind {
                        0 => match r.get_mut(&k) {
                            Some(e) => {
                                e.1 = v;
                                e.2 = vid;
                            }
                            None => {
                                r.insert(k, (kid, v, vid));
                                key_adding = true;
                            }
                        },
                        1 => {
                            r.remove(&k);
                        }
                        3 => {
                            if !r.contains_key(&k) {
                                r.insert(k, (kid, v, vid));
                                key_adding = true;
                            }
                        }
                        4 => {
                            if let Some(e) = r.get_mut(&k) {
                                e.1 += 1;
                            }
                        }
                        _ => {}
                    }
                    if kind == 0 && loc_class.starts_with("old") {
                        key_adding = true;
                    }
                }
            }
            Op::FEntry { k, kind } => {
                loc_class = class_of(self, *k);
                let raw = *kind == 2 || *kind == 4;
                let inserting = matches!(*kind, 0 | 2 | 3);
                let key = if raw { None } else { Some(Key::new(*k)) };
                let kid = key.as_ref().map_or(0, |x| x.id);
                head = format!("fentry {mid} {k} {kid} {} {}", raw as u8, inserting as u8);
                let m = self.maps[mid].as_mut().unwrap();
                let (k, kind) = (*k, *kind);
                let cr = windowed(|| match kind {
                    0 => {
                        m.entry(key.unwrap()).or_insert_with(|| -> Val { panic!("injected (closure)") });
                    }
                    1 => {
                        let _ = m.entry(key.unwrap()).and_modify(|_| panic!("injected (closure)"));
                    }
                    2 => {
                        m.raw_entry_mut().from_key(&Q(k)).or_insert_with(|| -> (Key, Val) { panic!("injected (closure)") });
                    }
                    3 => {
                        m.entry(key.unwrap()).or_insert_with_key(|_| -> Val { panic!("injected (closure)") });
                    }
                    _ => {
                        let _ = m.raw_entry_mut().from_key(&Q(k)).and_modify(|_, _| panic!("injected (closure)"));
                    }
                });
                survives = true;
                let _ = take_cr!(cr);
                let was = self.refs[mid].as_ref().unwrap().contains_key(&k);
                let expect_fired = if inserting { !was } else { was };
                if expect_fired != panic_kind.is_some() {
                    self.fail(&["C07", "C12"], format!("entry call kind {kind} on key {k} (present = {was}): closure {}", if expect_fired { "was not called" } else { "was called" }));
                }
            }
            Op::FDrainFilter { p, fuse } => {
                let mut calls: Vec<u64> = vec![];
                let m = self.maps[mid].as_mut().unwrap();
                let order: Vec<u64> = m.iter().map(|(k, _)| k.k()).collect();
                orc.push(format!("calls={}", keys_fmt(&order)));
                arm_fuse(*fuse as i64, CLOSURE);
                let cr = windowed(|| {
                    // what is yielded before the panic is dropped by the unwinding, after the iterator
                    let mut got: Vec<(Key, Val)> = vec![];
                    let mut it = m.drain_filter(|k, v| {
                        calls.push(k.k());
                        tick(CLOSURE);
                        v.v += p.add;
                        p.test(k.k())
                    });
                    while let Some(x) = it.next() {
                        got.push(x);
                    }
                    drop(it);
                    drop(got);
                });
                let fired = fuse_fired();
                disarm_fuse();
                survives = true;
                let _ = take_cr!(cr);
                // every element is visited exactly once (the destructor finishes the visit); the one the
                // closure panicked on stays as it was
                let r = self.refs[mid].as_mut().unwrap();
                for (i, k) in order.iter().enumerate() {
                    if i == *fuse {
                        continue;
                    }
                    if let Some(e) = r.get_mut(k) {
                        e.1 += p.add;
                    }
                    if p.test(*k) {
                        r.remove(k);
                    }
                }
                if calls != order || fired != (*fuse < order.len()) || fired != panic_kind.is_some() {
                    self.fail(&["C07", "C09"], format!("drain_filter with a closure panicking at call {fuse}: f was called on {} keys, the map held {}", calls.len(), order.len()));
                }
            }
            Op::FillProbe { .. } => unreachable!(),
            Op::Drop => {
                let m = self.maps[mid].take().unwrap();
                self.refs[mid] = None;
                self.split_track[mid] = None;
                let cr = windowed(move || drop(m));
                take_cr!(cr);
            }
        }

        // ---------- observation, transcript line, direct oracles on the post-state ----------
        let post = self.maps[mid].as_ref().map(observe);
        let mut line = head.clone();
        line.push_str(" |");
        if let (Op::Extend { .. }, Some(m)) = (op, self.maps[mid].as_ref()) {
            // what is still parked after the call, in cursor order: the model rebuilds from it the order in which a
            // growth inside `extend` parked the table
            orc.push(format!("oldorder={}", keys_fmt(&old_keys(m))));
        }
        // split detection: an old table exists now that was not there / a different one
        if let (Some(po), Some(m)) = (&post, self.maps[mid].as_ref()) {
            // a growth happened iff this (inserting / reserving) call allocated a table while the map
            // held elements: they were all parked, in the order hashbrown iterates them
            let new_split = matches!(op, Op::Insert { .. } | Op::FInsert { .. } | Op::FEq { .. } | Op::Entry { .. } | Op::Reserve { .. } | Op::TryReserve { .. })
                && da >= 1
                && pre.as_ref().map_or(false, |p| p.len > 0);
            let _ = po;
            if new_split {
                self.stats.growths += 1;
                let ok = old_keys(m);
                // keys parked at the split = every key of the map before this call; those no longer in
                // the old table were moved first (their relative order is immaterial)
                let mut all: Vec<u64> = match op {
                    // the key being inserted was absent when the table was parked (else: no insertion)
                    Op::Insert { k, .. } | Op::FInsert { k, .. } | Op::FEq { k, .. } | Op::Entry { k, .. } => self.refs[mid].as_ref().unwrap().keys().copied().filter(|x| x != k).collect(),
                    Op::Extend { .. } => vec![],
                    _ => self.refs[mid].as_ref().unwrap().keys().copied().collect(),
                };
                let okset: std::collections::BTreeSet<u64> = ok.iter().copied().collect();
                all.retain(|k| !okset.contains(k));
                // an element dropped mid-move was parked too: it is the one after those that made it
                all.extend_from_slice(&lost_keys);
                all.extend_from_slice(&ok);
                orc.push(format!("perm={}", keys_fmt(&all)));
                let l_at_split = all.len();
                // the call that starts a resize is a key-adding call like the others: it moves min(R, L) itself
                if matches!(op, Op::Insert { .. }) && panic_kind.is_none() && lost_keys.is_empty() && ok.len() + l_at_split.min(self.r) != l_at_split {
                    self.fail(&["C03"], format!("the insert that started a resize of {l_at_split} elements left {} of them in the old table", ok.len()));
                }
                if let Op::Entry { steps, .. } = op {
                    let ins = steps.iter().filter(|s| matches!(s, Step::Insert(..) | Step::OrInsert(..) | Step::VacInsert(..))).count();
                    let erases = steps.iter().any(|s| matches!(s, Step::AndReplace(false, _) | Step::OccReplaceWith(false, _) | Step::OccRemove | Step::OccRemoveEntry));
                    if ins == 1 && !erases && panic_kind.is_none() && ok.len() + l_at_split.min(self.r) != l_at_split {
                        self.fail(&["C03"], format!("the entry insertion that started a resize of {l_at_split} elements left {} of them in the old table", ok.len()));
                    }
                }
                self.split_track[mid] = Some((l_at_split, if key_adding { 1 } else { 0 }));
            } else if key_adding {
                if let Some((_, n)) = self.split_track[mid].as_mut() {
                    *n += 1;
                }
            }
        }
        line.push(' ');
        line.push_str(&orc.join(" "));
        line.push_str(" | ");
        obsx.push(format!("ret={ret}"));
        if !hints.is_empty() {
            // `size_hint()` as read before every pull of the iterator (the step machines of GriddleModel/Iter.lean)
            obsx.push(format!("hints={}", hints.join(",")));
        }
        if let Some(po) = &post {
            obsx.push(format!("len={} cap={} mi={} mgl={} mb={}", po.len, po.cap, po.mi, po.mgl, po.mb));
            obsx.push(match po.old {
                None => "old=-".into(),
                Some((l, _c, b, cur)) => format!("old={l},{b},{cur}"),
            });
        }
        obsx.push(format!("dh={dh} da={da} df={df}"));
        self.last_da = da;
        self.last_panicked = panic_kind.is_some();
        obsx.push(format!("drop={}", ids_fmt(&mut dropped)));
        obsx.push(format!("retd={}", ids_fmt(&mut returned)));
        obsx.push(format!("panic={}", panic_kind.clone().unwrap_or("-".into())));
        line.push_str(&obsx.join(" "));
        if !self.quiet_transcript {
            self.transcript.push(line);
        }

        if matches!(op, Op::Extend { .. }) && panic_kind.is_none() && !self.quiet_transcript {
            // `extend` is replayed by the model (`Map.extend`) and compared; the order of the elements carried by a
            // growth inside it is not observable afterwards, so the model then adopts the state from the hook
            let l = self.sync_line(mid);
            if da >= 1 && extend_overwrites {
                // a growth INSIDE the call parked the table in an order that can no longer be observed, and whether a
                // later pair found its (already present) key still parked — and so carried — depends on that order:
                // this one is adopted, not compared
                self.transcript.pop();
            }
            self.transcript.push(l);
        }

        // stats
        self.stats.ops += 1;
        if pre.as_ref().map_or(false, |p| p.old.is_some()) {
            self.stats.ops_split += 1;
        }
        *self.stats.matrix.entry((kind.clone(), pre_phase)).or_insert(0) += 1;
        if pre_phase != "none" {
            let outcome = if panic_kind.is_some() { "panic".to_string() } else if ret == "none" || ret == "-" { "empty".into() } else { "value".into() };
            self.stats.tuples.insert((kind.clone(), pre_phase, loc_class, outcome));
        }
        if let Some(po) = &post {
            self.stats.max_buckets = self.stats.max_buckets.max(po.mb);
            self.stats.max_len = self.stats.max_len.max(po.len);
        }
        if let Some(p) = &panic_kind {
            *self.stats.panics.entry(p.clone()).or_insert(0) += 1;
        }

        // direct oracles
        for a in take_anomalies() {
            if a.starts_with("Entry::key()") || a.contains("handle returned by") {
                self.fail(&["C12"], a.clone());
            }
            self.fail(&["C05", "C06"], a);
        }
        if let Some(p) = &panic_kind {
            let documented = p == "capacity_overflow" && matches!(op, Op::Reserve { .. } | Op::New { .. } | Op::Extend { .. });
            if p == "injected" {
                // handled by the fault-injection slices
            } else if !documented {
                self.fail(&["C01", "C05", "C17"], format!("undocumented panic: {p}"));
                // … and evidence against the property that governs the call it happened in
                let own: &[&str] = match op {
                    Op::Entry { .. } => &["C12"],
                    Op::Retain { .. } | Op::DrainFilter { .. } => &["C09"],
                    Op::Iter { .. } | Op::IterMut { .. } | Op::Drain { .. } | Op::IntoIter { .. } | Op::Dump => &["C08"],
                    Op::Clone { .. } | Op::CloneFrom { .. } => &["C11"],
                    Op::Eq { .. } | Op::Get { .. } => &["C14"],
                    Op::Drop | Op::Clear => &["C06"],
                    Op::FInsert { .. } | Op::FRetain { .. } | Op::FReplace { .. } | Op::FEntry { .. } | Op::FEq { .. } | Op::FDrainFilter { .. } => &["C07"],
                    Op::FillProbe { .. } => &["C04"],
                    Op::Insert { .. } | Op::Extend { .. } | Op::GetMut { .. } | Op::Remove { .. } => &["C02", "C03"],
                    _ => &[],
                };
                if !own.is_empty() {
                    self.fail(own, format!("undocumented panic in {}: {p}", fmt_op(0, op).split(' ').next().unwrap_or("?")));
                }
                if matches!(op, Op::Reserve { .. } | Op::TryReserve { .. } | Op::Shrink { .. } | Op::ShrinkToFit | Op::New { .. }) {
                    self.fail(&["C10"], format!("capacity-management call panicked: {p}"));
                }
                if matches!(op, Op::Insert { .. } | Op::Entry { .. } | Op::Extend { .. }) && p == "assert_leftovers" {
                    self.fail(&["C04"], "an insert found the table full while a resize was still pending".into());
                }
            }
            // the model keeps no state for a panicked map: take it out of the lock-step
            // … except where the map is specified to survive the panic: carry on with it
            if survives && p == "injected" {
            } else if let Some(m) = self.maps[mid].take() {
                self.refs[mid] = None;
                self.split_track[mid] = None;
                let documented = p == "injected" || (p == "capacity_overflow" && matches!(op, Op::Reserve { .. } | Op::New { .. } | Op::Extend { .. }));
                if documented {
                    let _ = windowed(move || drop(m));
                } else {
                    // nothing is known about a map that panicked where it must not: do not even run
                    // its destructor (the violation is already recorded; a crash would only lose it)
                    std::mem::forget(m);
                    self.leak_allowed = true;
                }
                if !self.quiet_transcript {
                    self.transcript.push(format!("forget {mid} | | "));
                }
            }
            if !(survives && p == "injected") {
                return;
            }
        }
        if let (Some(po), Some(m)) = (&post, self.maps[mid].as_ref()) {
            let r = self.refs[mid].as_ref().unwrap();
            if po.len != r.len() {
                self.fail(&["C01"], format!("len() = {} but reference holds {}", po.len, r.len()));
            }
            if m.is_empty() != r.is_empty() {
                self.fail(&["C01"], "is_empty() disagrees with reference".into());
            }
            if po.cap < po.len {
                self.fail(&["C04"], format!("capacity() {} < len() {}", po.cap, po.len));
            }
            if let Some((l, _c, _b, cur)) = po.old {
                if l != cur {
                    self.fail(&["C05", "C08", "C12"], format!("cached iterator expects {cur} more elements, old table holds {l}"));
                }
                if po.mi + l != po.len {
                    self.fail(&["C01", "C05"], "main + old element counts do not add up to len()".into());
                }
            }
            let live = alloc::live_tables();
            let expect_live: i64 = self.maps.iter().flatten().map(live_tables_of).sum();
            if live != expect_live {
                self.fail(&["C03", "C06"], format!("{live} table allocations live, the maps account for {expect_live}"));
            }
            if live_tables_of(m) > 2 {
                self.fail(&["C03"], "more than two tables".into());
            }
            // C02
            let rr = self.r as u64;
            // (an entry chain is several API calls: each of its inserting calls has the bound to itself)
            let n_ins: u64 = match op {
                Op::Entry { steps, .. } => (steps.iter().filter(|s| matches!(s, Step::Insert(..) | Step::OrInsert(..) | Step::VacInsert(..))).count() as u64).max(1),
                _ => 1,
            };
            if key_adding && (dh > n_ins * (rr + 2) || da > n_ins) {
                self.fail(&["C02"], format!("key-adding call did {dh} hashes / {da} allocations"));
            }
            if readonly && matches!(op, Op::Get { .. } | Op::GetMut { .. } | Op::Remove { .. } | Op::Insert { .. }) && (dh > 1 || da > 0) {
                self.fail(&["C02"], format!("lookup/removal/in-place update did {dh} hashes / {da} allocations"));
            }
            if key_adding || readonly {
                if let (Some(p), Some((l1, ..))) = (&pre, po.old) {
                    if let Some((l0, ..)) = p.old {
                        if l0 >= l1 && l0 - l1 > (n_ins as usize) * (self.r + 1) {
                            self.fail(&["C02"], format!("one call took {} elements out of the old table", l0 - l1));
                        }
                    }
                }
            }
            // C03: progress of a started resize
            if matches!(op, Op::Extend { .. }) && da >= 1 {
                // a growth inside `extend` started another resize at a point that is not observed: not tracked
                self.split_track[mid] = None;
            }
            if let Some((l, n)) = self.split_track[mid] {
                if po.old.is_none() {
                    // finished: the growing call counts as the first of the ceil(L/R)
                    if l > 0 && n > (l + self.r - 1) / self.r && key_adding {
                        self.fail(&["C03"], format!("a resize that parked {l} elements took {n} key-adding calls, more than ceil(L/R)"));
                    }
                    self.split_track[mid] = None;
                } else if n > (l + self.r - 1) / self.r && n > 0 {
                    self.fail(&["C03"], format!("resize that left {l} elements still pending after {n} key-adding calls"));
                }
            }
            // `remove` / `drain_filter` that take the last element out of the old table release it at once
            if matches!(op, Op::Remove { .. } | Op::DrainFilter { .. }) && panic_kind.is_none() {
                if let (Some(p), Some((0, ..))) = (&pre, po.old) {
                    if matches!(p.old, Some((l, ..)) if l > 0) {
                        self.fail(&["C03"], format!("{} removed the last element of the old table but the table is still allocated", kind));
                    }
                }
            }
            // calls that leave the map empty by construction leave it with one table
            if matches!(op, Op::Clear | Op::Drain { forget: false, .. }) && po.old.is_some() && panic_kind.is_none() {
                self.fail(&["C03"], format!("after {} the old table is still allocated", kind));
            }
            if key_adding {
                if let Some((0, ..)) = po.old {
                    self.fail(&["C03"], "after a key-adding call an old table with nothing left to move is still allocated".into());
                }
                if let (Some(p), Some(po_old)) = (&pre, po.old) {
                    if let Some((l0, ..)) = p.old {
                        let expect = l0 - l0.min(self.r);
                        // (a chain that also erases, or inserts twice, moves other amounts)
                        let plain_chain = match op {
                            Op::Entry { steps, .. } => n_ins == 1 && !steps.iter().any(|s| matches!(s, Step::AndReplace(false, _) | Step::OccReplaceWith(false, _) | Step::OccRemove | Step::OccRemoveEntry)),
                            _ => true,
                        };
                        if po_old.0 != expect && plain_chain {
                            self.fail(&["C03"], format!("key-adding call left {} in the old table, expected {}", po_old.0, expect));
                        }
                    }
                }
            }
        }
    }

    fn progress_line(&mut self, mid: usize, op: &Op) {
        if let Some(f) = self.progress.as_mut() {
            use std::io::Write;
            let _ = writeln!(f, "{}", fmt_op(mid, op));
        }
    }

    /// The property C04 in its own words, on the map itself: insert `capacity() - len()` unseen
    /// keys; none may panic or allocate, `capacity()` may not decrease, and (if at least one was
    /// inserted) no resize may be pending afterwards.  The inserts are ordinary ops (mirrored in
    /// the reference and replayed by the model).
    pub fn fill_probe(&mut self, mid: usize, start: u64) {
        let Some(m) = self.maps.get(mid).and_then(|m| m.as_ref()) else { return };
        let n = m.capacity() - m.len().min(m.capacity());
        if n > 600 {
            return;
        }
        let mut cap_prev = m.capacity();
        let mut k = start;
        let mut done = 0;
        while done < n {
            let present = self.refs[mid].as_ref().map_or(false, |r| r.contains_key(&k));
            if !present {
                self.exec(mid, &Op::Insert { k, v: 77 });
                done += 1;
                let Some(m) = self.maps.get(mid).and_then(|m| m.as_ref()) else {
                    self.fail(&["C04"], format!("fill-to-capacity: insert {done} of {n} panicked"));
                    return;
                };
                if self.last_da != 0 {
                    self.fail(&["C04", "C10"], format!("fill-to-capacity: insert {done} of {n} allocated a table"));
                }
                if m.capacity() < cap_prev {
                    self.fail(&["C04"], format!("fill-to-capacity: capacity() decreased from {cap_prev} to {}", m.capacity()));
                }
                cap_prev = m.capacity();
            }
            k += 1;
        }
        if n >= 1 {
            if let Some(m) = self.maps.get(mid).and_then(|m| m.as_ref()) {
                if m.verif_state().old.is_some() {
                    self.fail(&["C04", "C03"], format!("fill-to-capacity: a resize is still pending after inserting capacity()-len() = {n} keys"));
                }
            }
        }
    }

    fn exec_inner_drop(&mut self, mid: usize) {
        let save = self.op_index;
        self.exec(mid, &Op::Drop);
        self.op_index = save;
    }

    /// Full state of a map, for the model to adopt (`sync`).
    pub fn sync_line(&self, mid: usize) -> String {
        let m = self.maps[mid].as_ref().unwrap();
        let st = m.verif_state();
        let all: Vec<String> = m.iter().map(|(k, v)| ent_fmt(k, v)).collect();
        let n = st.main_len.min(all.len());
        let f = |v: &[String]| if v.is_empty() { "-".to_string() } else { v.join(",") };
        format!(
            "sync {mid} | main={} oldents={} mb={} mgl={} ob={} cur={} | ",
            f(&all[..n]),
            f(&all[n..]),
            st.main_buckets,
            st.main_cap - st.main_len,
            st.old.map_or("-".to_string(), |o| o.2.to_string()),
            st.old.map_or(0, |o| o.3)
        )
    }

    /// Executes an entry chain.  Returns (call result, transcript head, ret string, returned ids, added a key).
    fn exec_entry(&mut self, mid: usize, via: u8, k: u64, steps: &[Step]) -> (CallResult<()>, String, String, Vec<u64>, bool) {
        let hash = self.hash_of(mid, k);
        let hb = self.maps[mid].as_ref().unwrap().hasher().clone();
        let rmap = self.refs[mid].as_mut().unwrap();
        let m = self.maps[mid].as_mut().unwrap();
        let raw = via != 0;
        let occ0 = rmap.contains_key(&k);
        let stored_kid: Option<u64> = rmap.get(&k).map(|e| e.0);
        // objects are created up front so their ids are in the transcript; unused ones are dropped
        // inside the window exactly where the API drops them
        let entry_key = if raw { None } else { Some(Key::new(k)) };
        let entry_kid = entry_key.as_ref().map_or(0, |x| x.id);
        let mut descs: Vec<String> = vec![];
        struct Prepared {
            step: Step,
            key: Option<Key>,
            val: Option<Val>,
        }
        let mut prepared: Vec<Prepared> = vec![];
        for s in steps {
            let (key, val, d) = match s {
                Step::AndModify(a) => (None, None, format!("and_modify:{a}")),
                Step::AndReplace(kp, a) => (None, None, format!("and_replace:{}:{a}", *kp as u8)),
                Step::Insert(v, a) => {
                    let key = if raw { Some(Key::new(k)) } else { None };
                    let val = Val::new(*v);
                    let d = format!("insert:{}:{v}:{}:{a}", key.as_ref().map_or(0, |x| x.id), val.id);
                    (key, Some(val), d)
                }
                Step::OrInsert(f, v, a) => {
                    let lazy = *f != 0;
                    // lazy flavours create their objects inside the closure; ids are reserved now
                    let key = if raw { Some(Key::new(k)) } else { None };
                    if *f == 3 {
                        // `or_default` makes the object itself: it will get the next free id
                        (key, None, format!("or_insert:1:0:0:DEFAULT_ID:{a}"))
                    } else {
                        let val = Val::new(*v);
                        let d = format!("or_insert:{}:{}:{}:{}:{a}", lazy as u8, key.as_ref().map_or(0, |x| x.id), val.v, val.id);
                        (key, Some(val), d)
                    }
                }
                Step::OccRemove => (None, None, "occ_remove".into()),
                Step::OccRemoveEntry => (None, None, "occ_remove_entry".into()),
                Step::OccInsert(v) => {
                    let val = Val::new(*v);
                    let d = format!("occ_insert:{v}:{}", val.id);
                    (None, Some(val), d)
                }
                Step::OccReplaceEntry(v) => {
                    let val = Val::new(*v);
                    let d = format!("occ_replace_entry:{v}:{}", val.id);
                    (None, Some(val), d)
                }
                Step::OccReplaceKey => {
                    let key = if raw { Some(Key::new(k)) } else { None };
                    let d = format!("occ_replace_key:{}", key.as_ref().map_or(0, |x| x.id));
                    (key, None, d)
                }
                Step::OccGetMut(_, a) => (None, None, format!("occ_get_mut:{a}")),
                Step::OccReplaceWith(kp, a) => (None, None, format!("occ_replace_with:{}:{a}", *kp as u8)),
                Step::VacInsert(f, v, a) => {
                    let key = if raw { Some(Key::new(k)) } else { None };
                    let val = Val::new(*v);
                    let rehash = raw && *f == 0;
                    let d = format!("vac_insert:{}:{}:{v}:{}:{a}", rehash as u8, key.as_ref().map_or(0, |x| x.id), val.id);
                    (key, Some(val), d)
                }
                Step::VacIntoKey => (None, None, "vac_into_key".into()),
            };
            descs.push(d);
            prepared.push(Prepared { step: s.clone(), key, val });
        }
        // lazy objects that end up unused must not be seen by the ledger as dropped inside the
        // window: they would never have been created.  We pre-create them (for stable ids) and, if
        // unused, leak-cancel them after the window.
        let dflt = peek_next_id();
        for d in descs.iter_mut() {
            *d = d.replace("DEFAULT_ID", &dflt.to_string());
        }
        let lookup_hashes = if via <= 1 { 1 } else { 0 };
        let head = format!("entry {mid} {} {lookup_hashes} {k} {entry_kid} {}", raw as u8, if descs.is_empty() { "-".into() } else { descs.join(";") });

        let mut seen: Option<(u64, u64)> = None;
        // what the last executed step knows the stored value to be (None: removed / unknown)
        let mut expect_now: Option<(u64, u64)> = None;
        let mut returned: Vec<u64> = vec![];
        let mut adding = false;
        let mut unused_lazy: Vec<(Option<Key>, Option<Val>)> = vec![];
        let q = Q(k);
        let cr = windowed(|| {
            if !raw {
                let mut e = m.entry(entry_key.unwrap());
                // `Entry::key()` names the key OBJECT: the stored one for an occupied entry, the caller's for a vacant one
                match stored_kid {
                    Some(sk) => {
                        if e.key().id != sk {
                            anomaly(format!("Entry::key() of an occupied entry names object {} but the map stores object {sk}", e.key().id));
                        }
                    }
                    None => {
                        if e.key().id != entry_kid {
                            anomaly("Entry::key() of a vacant entry does not name the key passed to entry()".into());
                        }
                    }
                }
                let mut it = prepared.into_iter();
                loop {
                    let Some(p) = it.next() else { drop(e); break };
                    match (p.step, e) {
                        (Step::AndModify(a), en) => {
                            expect_now = None;
                            e = en.and_modify(|v| {
                                tick(CLOSURE);
                                v.v += a
                            })
                        }
                        (Step::AndReplace(kp, a), en) => {
                            expect_now = None;
                            e = en.and_replace_entry_with(|_, mut v| {
                                tick(CLOSURE);
                                if kp {
                                    v.v += a;
                                    Some(v)
                                } else {
                                    None
                                }
                            })
                        }
                        (Step::Insert(_, a), en) => {
                            adding |= matches!(en, Entry::Vacant(_));
                            let mut o = en.insert(p.val.unwrap());
                            o.get_mut().v += a;
                            if o.key().k() != k {
                                anomaly("the handle returned by Entry::insert designates another key".into());
                            }
                            seen = Some((o.get().v, o.get().id));
                            expect_now = seen;
                            // the occupied handle `Entry::insert` returns is a handle like any other: the chain goes on with it
                            e = Entry::Occupied(o);
                        }
                        (Step::OrInsert(f, _, a), en) => {
                            let vacant = matches!(en, Entry::Vacant(_));
                            adding |= vacant;
                            let r: &mut Val = match f {
                                0 => en.or_insert(p.val.unwrap()),
                                3 => en.or_default(),
                                _ => {
                                    let val = p.val.unwrap();
                                    if vacant {
                                        match f {
                                            1 => en.or_insert_with(|| {
                                                tick(CLOSURE);
                                                val
                                            }),
                                            2 => en.or_insert_with_key(|_| {
                                                tick(CLOSURE);
                                                val
                                            }),
                                            _ => unreachable!(),
                                        }
                                    } else {
                                        unused_lazy.push((None, Some(val)));
                                        match f {
                                            1 => en.or_insert_with(|| unreachable!()),
                                            _ => en.or_insert_with_key(|_| unreachable!()),
                                        }
                                    }
                                }
                            };
                            r.v += a;
                            seen = Some((r.v, r.id));
                            expect_now = seen;
                            break;
                        }
                        (Step::OccRemove, Entry::Occupied(o)) => {
                            expect_now = None;
                            let v = o.remove();
                            seen = Some((v.v, v.id));
                            returned.push(v.id);
                            unused_lazy.push((None, Some(v)));
                            break;
                        }
                        (Step::OccRemoveEntry, Entry::Occupied(o)) => {
                            expect_now = None;
                            let (kk, v) = o.remove_entry();
                            seen = Some((v.v, v.id));
                            returned.push(kk.id);
                            returned.push(v.id);
                            unused_lazy.push((Some(kk), Some(v)));
                            break;
                        }
                        (Step::OccInsert(_), Entry::Occupied(mut o)) => {
                            let nv = p.val.as_ref().map(|x| (x.v, x.id));
                            expect_now = nv;
                            let old = o.insert(p.val.unwrap());
                            seen = Some((old.v, old.id));
                            returned.push(old.id);
                            unused_lazy.push((None, Some(old)));
                            e = Entry::Occupied(o);
                        }
                        (Step::OccReplaceEntry(_), Entry::Occupied(o)) => {
                            expect_now = None;
                            let (ok, ov) = o.replace_entry(p.val.unwrap());
                            seen = Some((ov.v, ov.id));
                            returned.push(ok.id);
                            returned.push(ov.id);
                            unused_lazy.push((Some(ok), Some(ov)));
                            break;
                        }
                        (Step::OccReplaceKey, Entry::Occupied(o)) => {
                            let ok = o.replace_key();
                            returned.push(ok.id);
                            unused_lazy.push((Some(ok), None));
                            break;
                        }
                        (Step::OccGetMut(f, a), Entry::Occupied(mut o)) => {
                            if f == 1 {
                                let r = o.into_mut();
                                r.v += a;
                                seen = Some((r.v, r.id));
                                expect_now = seen;
                                break;
                            } else {
                                let r = o.get_mut();
                                r.v += a;
                                seen = Some((r.v, r.id));
                                expect_now = seen;
                                if o.key().k() != k || o.get().v != seen.unwrap().0 {
                                    anomaly("occupied handle does not designate the key it was looked up with".into());
                                }
                                e = Entry::Occupied(o);
                            }
                        }
                        (Step::OccReplaceWith(kp, a), Entry::Occupied(o)) => {
                            expect_now = None;
                            e = o.replace_entry_with(|_, mut v| {
                                tick(CLOSURE);
                                if kp {
                                    v.v += a;
                                    Some(v)
                                } else {
                                    None
                                }
                            })
                        }
                        (Step::VacInsert(_, _, a), Entry::Vacant(v)) => {
                            adding = true;
                            if v.key().k() != k {
                                anomaly("vacant handle has a different key".into());
                            }
                            let r = v.insert(p.val.unwrap());
                            r.v += a;
                            seen = Some((r.v, r.id));
                            expect_now = seen;
                            break;
                        }
                        (Step::VacIntoKey, Entry::Vacant(v)) => {
                            let kk = v.into_key();
                            returned.push(kk.id);
                            unused_lazy.push((Some(kk), None));
                            break;
                        }
                        // a step for the other variant: drop the handle (and the step's unused objects)
                        (_, en) => {
                            drop(en);
                            unused_lazy.push((p.key, p.val));
                            break;
                        }
                    }
                }
                // objects of steps never reached
                for p in it {
                    unused_lazy.push((p.key, p.val));
                }
            } else {
                let b = m.raw_entry_mut();
                let mut e = match via {
                    1 => b.from_key(&q),
                    2 => b.from_key_hashed_nocheck(hash, &q),
                    _ => b.from_hash(hash, |x| x.k() == k),
                };
                let mut it = prepared.into_iter();
                loop {
                    let Some(p) = it.next() else { drop(e); break };
                    match (p.step, e) {
                        (Step::AndModify(a), en) => {
                            expect_now = None;
                            e = en.and_modify(|_, v| {
                                tick(CLOSURE);
                                v.v += a
                            })
                        }
                        (Step::AndReplace(kp, a), en) => {
                            expect_now = None;
                            e = en.and_replace_entry_with(|_, mut v| {
                                tick(CLOSURE);
                                if kp {
                                    v.v += a;
                                    Some(v)
                                } else {
                                    None
                                }
                            })
                        }
                        (Step::Insert(_, a), en) => {
                            adding |= matches!(en, RawEntryMut::Vacant(_));
                            let mut o = en.insert(p.key.unwrap(), p.val.unwrap());
                            o.get_mut().v += a;
                            seen = Some((o.get().v, o.get().id));
                            expect_now = seen;
                            e = RawEntryMut::Occupied(o);
                        }
                        (Step::OrInsert(f, _, a), en) => {
                            let vacant = matches!(en, RawEntryMut::Vacant(_));
                            adding |= vacant;
                            let (key, val) = (p.key.unwrap(), p.val.unwrap());
                            let (_, r) = if f == 0 {
                                en.or_insert(key, val)
                            } else if vacant {
                                en.or_insert_with(|| {
                                    tick(CLOSURE);
                                    (key, val)
                                })
                            } else {
                                unused_lazy.push((Some(key), Some(val)));
                                en.or_insert_with(|| unreachable!())
                            };
                            r.v += a;
                            seen = Some((r.v, r.id));
                            expect_now = seen;
                            break;
                        }
                        (Step::OccRemove, RawEntryMut::Occupied(o)) => {
                            expect_now = None;
                            let v = o.remove();
                            seen = Some((v.v, v.id));
                            returned.push(v.id);
                            unused_lazy.push((None, Some(v)));
                            break;
                        }
                        (Step::OccRemoveEntry, RawEntryMut::Occupied(o)) => {
                            expect_now = None;
                            let (kk, v) = o.remove_entry();
                            seen = Some((v.v, v.id));
                            returned.push(kk.id);
                            returned.push(v.id);
                            unused_lazy.push((Some(kk), Some(v)));
                            break;
                        }
                        (Step::OccInsert(_), RawEntryMut::Occupied(mut o)) => {
                            let nv = p.val.as_ref().map(|x| (x.v, x.id));
                            expect_now = nv;
                            let old = o.insert(p.val.unwrap());
                            seen = Some((old.v, old.id));
                            returned.push(old.id);
                            unused_lazy.push((None, Some(old)));
                            e = RawEntryMut::Occupied(o);
                        }
                        (Step::OccReplaceKey, RawEntryMut::Occupied(mut o)) => {
                            let ok = o.insert_key(p.key.unwrap());
                            returned.push(ok.id);
                            unused_lazy.push((Some(ok), None));
                            e = RawEntryMut::Occupied(o);
                        }
                        (Step::OccGetMut(f, a), RawEntryMut::Occupied(mut o)) => {
                            if f == 1 {
                                let (kk, r) = o.into_key_value();
                                r.v += a;
                                seen = Some((r.v, r.id));
                                expect_now = seen;
                                if kk.k() != k {
                                    anomaly("raw occupied handle designates another key".into());
                                }
                                break;
                            } else {
                                let r = o.get_mut();
                                r.v += a;
                                seen = Some((r.v, r.id));
                                expect_now = seen;
                                if o.key().k() != k {
                                    anomaly("raw occupied handle designates another key".into());
                                }
                                e = RawEntryMut::Occupied(o);
                            }
                        }
                        (Step::OccReplaceWith(kp, a), RawEntryMut::Occupied(o)) => {
                            expect_now = None;
                            e = o.replace_entry_with(|_, mut v| {
                                tick(CLOSURE);
                                if kp {
                                    v.v += a;
                                    Some(v)
                                } else {
                                    None
                                }
                            })
                        }
                        (Step::VacInsert(f, _, a), RawEntryMut::Vacant(v)) => {
                            adding = true;
                            let (key, val) = (p.key.unwrap(), p.val.unwrap());
                            let (_, r) = match f {
                                0 => v.insert(key, val),
                                1 => v.insert_hashed_nocheck(hash, key, val),
                                _ => {
                                    let hb2 = hb.clone();
                                    v.insert_with_hasher(hash, key, val, move |x| {
                                        use std::hash::{BuildHasher, Hash, Hasher};
                                        let mut h = hb2.build_hasher();
                                        x.hash(&mut h);
                                        h.finish()
                                    })
                                }
                            };
                            r.v += a;
                            seen = Some((r.v, r.id));
                            expect_now = seen;
                            break;
                        }
                        (_, en) => {
                            drop(en);
                            unused_lazy.push((p.key, p.val));
                            break;
                        }
                    }
                }
                for p in it {
                    unused_lazy.push((p.key, p.val));
                }
            }
        });
        // objects the harness itself still holds are not the map's: drop them outside the window,
        // but those the *API* would have dropped inside the call must be reported as dropped there.
        // Everything in `unused_lazy` that was "returned" is the caller's; the rest models objects
        // that a lazy flavour would not have created, or arguments of steps never executed.
        let mut extra_dropped: Vec<u64> = vec![];
        let returned_set: std::collections::BTreeSet<u64> = returned.iter().copied().collect();
        let mut cr = cr;
        for (kk, vv) in unused_lazy {
            if let Some(kk) = kk {
                if !returned_set.contains(&kk.id) {
                    extra_dropped.push(kk.id);
                }
                drop(kk);
            }
            if let Some(vv) = vv {
                if !returned_set.contains(&vv.id) {
                    extra_dropped.push(vv.id);
                }
                drop(vv);
            }
        }
        let _ = extra_dropped;
        cr.dropped.retain(|_| true);

        // reference semantics, computed independently of the map
        let mut rets = returned.clone();
        rets.sort_unstable();
        let _ = occ0;
        let ret = format!("{}:{}", if occ0 { "occ" } else { "vac" }, match seen { Some((v, id)) => format!("{v}#{id}"), None => "none".into() });
        // the reference map is updated from the real map's state for the key (checked against the
        // model in lock-step and against a later `get`); direct check: handle-visible value = get
        let now = m.get_key_value(&q).map(|(kk, v)| (kk.id, v.v, v.id));
        if cr.r.is_ok() {
            if let Some((sv, sid)) = expect_now {
                if now.map(|e| (e.1, e.2)) != Some((sv, sid)) {
                    self.fails.borrow_mut().push(DirectFail { props: vec!["C12", "C01"], op_index: self.op_index, what: format!("a write through the handle ({sv}#{sid}) is not what a later lookup of key {k} finds ({now:?})") });
                }
            }
        }
        match now {
            Some(e) => {
                rmap.insert(k, e);
            }
            None => {
                rmap.remove(&k);
            }
        }
        (cr, head, ret, returned, adding)
    }
}

pub fn live_tables_of(m: &M) -> i64 {
    let s = m.verif_state();
    (s.main_buckets > 1) as i64 + s.old.is_some() as i64
}
