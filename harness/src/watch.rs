//! Watchdog: a property violation can show as an operation that never returns (a probe loop over a
//! table with no empty bucket).  Workers beat once per operation; a beat older than the limit ends
//! the process with a message naming the history, whose progress file is then the replay.
use std::sync::atomic::{AtomicI64, AtomicU64, Ordering};
use std::time::{Duration, Instant};

const SLOTS: usize = 128;
static BEAT: [AtomicU64; SLOTS] = [const { AtomicU64::new(0) }; SLOTS];
static CUR: [AtomicI64; SLOTS] = [const { AtomicI64::new(-1) }; SLOTS];
static START: std::sync::OnceLock<Instant> = std::sync::OnceLock::new();

fn now_ms() -> u64 {
    START.get_or_init(Instant::now).elapsed().as_millis() as u64
}
/// `slot` is working on history / case `id` and is alive now
pub fn beat(slot: usize, id: usize) {
    BEAT[slot % SLOTS].store(now_ms(), Ordering::Relaxed);
    CUR[slot % SLOTS].store(id as i64, Ordering::Relaxed);
}
pub fn idle(slot: usize) {
    CUR[slot % SLOTS].store(-1, Ordering::Relaxed);
}
pub fn start() {
    // under Miri a detached thread is reported as a leak, and wall-clock limits mean nothing
    if cfg!(miri) {
        return;
    }
    let limit: u64 = std::env::var("GH_HANG_SECS").ok().and_then(|s| s.parse().ok()).unwrap_or(90) * 1000;
    let _ = now_ms();
    std::thread::spawn(move || loop {
        std::thread::sleep(Duration::from_millis(500));
        let now = now_ms();
        for s in 0..SLOTS {
            let id = CUR[s].load(Ordering::Relaxed);
            if id >= 0 && now.saturating_sub(BEAT[s].load(Ordering::Relaxed)) > limit {
                eprintln!("HANG history={id}: one operation has been running for more than {} s", limit / 1000);
                std::process::exit(98);
            }
        }
    });
}
