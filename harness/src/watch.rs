//! Watchdog: a property violation can show as an operation that never returns (a probe loop over a
//! table with no empty bucket).  Workers beat once per operation; a beat older than the limit ends
//! the process with a message naming the history, whose progress file is then the replay.
use std::sync::atomic::{AtomicI64, AtomicU64, Ordering};
use std::time::{Duration, Instant};

const SLOTS: usize = 128;
static BEAT: [AtomicU64; SLOTS] = [const { AtomicU64::new(0) }; SLOTS];
static CUR: [AtomicI64; SLOTS] = [const { AtomicI64::new(-1) }; SLOTS];
static START: std::sync::OnceLock<Instant> = std::sync::OnceLock::new();

fn now_ms() -> u64 {
    START.get_or_init(Instant::now).elapsed().as_millis() as u64
}
/// `slot` is working on history / case `id` and is alive now
pub fn beat(slot: usize, id: usize) {
    BEAT[slot % SLOTS].store(now_ms(), Ordering::Relaxed);
    CUR[slot % SLOTS].store(id as i64, Ordering::Relaxed);
}
pub fn idle(slot: usize) {
    CUR[slot % SLOTS].store(-1, Ordering::Relaxed);
}
/// CPU time this process has consumed so far, in milliseconds (utime + stime of /proc/self/stat; 0 if unreadable)
fn cpu_ms() -> u64 {
    let Ok(s) = std::fs::read_to_string("/proc/self/stat") else { return 0 };
    // the command name (field 2) may contain spaces: count fields after the closing parenthesis
    let Some(rest) = s.rsplit_once(')').map(|x| x.1) else { return 0 };
    let f: Vec<&str> = rest.split_whitespace().collect();
    // rest starts at field 3 (state): utime is field 14, stime field 15
    let ticks: u64 = f.get(11).and_then(|x| x.parse().ok()).unwrap_or(0) + f.get(12).and_then(|x| x.parse().ok()).unwrap_or(0);
    ticks * 10
}

pub fn start() {
    // under Miri a detached thread is reported as a leak, and wall-clock limits mean nothing
    if cfg!(miri) {
        return;
    }
    let limit: u64 = std::env::var("GH_HANG_SECS").ok().and_then(|s| s.parse().ok()).unwrap_or(90) * 1000;
    let _ = now_ms();
    // An operation that never returns spins: besides being old by the wall clock, the process must have burnt CPU while
    // the beat stood still — a machine that is merely overloaded (the process is not scheduled) does not count as a hang.
    let cpu_limit = limit / 3;
    std::thread::spawn(move || {
        let mut last_beat = [0u64; SLOTS];
        let mut stuck_cpu = [0u64; SLOTS];
        let mut last_cpu = cpu_ms();
        loop {
            std::thread::sleep(Duration::from_millis(500));
            let now = now_ms();
            let cpu = cpu_ms();
            let dcpu = cpu.saturating_sub(last_cpu);
            last_cpu = cpu;
            for s in 0..SLOTS {
                let id = CUR[s].load(Ordering::Relaxed);
                let b = BEAT[s].load(Ordering::Relaxed);
                if id < 0 || b != last_beat[s] {
                    last_beat[s] = b;
                    stuck_cpu[s] = 0;
                    continue;
                }
                stuck_cpu[s] += dcpu;
                if now.saturating_sub(b) > limit && (stuck_cpu[s] > cpu_limit || cpu == 0) {
                    eprintln!("HANG history={id}: one operation has been running for more than {} s", limit / 1000);
                    std::process::exit(98);
                }
            }
        }
    });
}
