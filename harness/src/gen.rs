//! History generators.  One xorshift PRNG per history (seeded from VERIF_SEED and the history
//! index) decides everything, so a history replays exactly.  Generation is *adaptive*: the next
//! op is chosen by looking at the real map's resize phase through the hook, so that every op kind
//! is exercised in every phase.
use crate::ops::*;

pub struct Rng(pub u64);
impl Rng {
    pub fn new(seed: u64) -> Rng {
        let mut r = Rng(seed.wrapping_mul(0x9E37_79B9_7F4A_7C15) ^ 0xD1B5_4A32_D192_ED03);
        if r.0 == 0 {
            r.0 = 1;
        }
        r.next();
        r.next();
        r
    }
    pub fn next(&mut self) -> u64 {
        self.0 ^= self.0 << 13;
        self.0 ^= self.0 >> 7;
        self.0 ^= self.0 << 17;
        self.0
    }
    pub fn below(&mut self, n: u64) -> u64 {
        if n == 0 {
            0
        } else {
            self.next() % n
        }
    }
    pub fn chance(&mut self, num: u64, den: u64) -> bool {
        self.below(den) < num
    }
    pub fn pick<'a, T>(&mut self, v: &'a [T]) -> &'a T {
        &v[self.below(v.len() as u64) as usize]
    }
}

#[derive(Clone, Copy, PartialEq, Eq, Debug)]
pub enum Slice {
    /// everything, moderate sizes
    Core,
    /// insert / remove / lookup churn to large sizes
    Big,
    /// capacity management with boundary arguments
    Cap,
    /// entry and raw-entry chains by location class
    Entry,
    /// retain / drain_filter / drain / iterators
    Iter,
    /// clone / clone_from / eq between two maps
    Clone,
    /// calls with an injected, caught panic (Hash inside carry, retain / replace_entry_with closures)
    Fault,
}
impl Slice {
    pub fn parse(s: &str) -> Option<Slice> {
        Some(match s {
            "core" => Slice::Core,
            "big" => Slice::Big,
            "cap" => Slice::Cap,
            "entry" => Slice::Entry,
            "iter" => Slice::Iter,
            "clone" => Slice::Clone,
            "fault" => Slice::Fault,
            _ => return None,
        })
    }
}

pub struct Gen {
    pub rng: Rng,
    pub slice: Slice,
    pub target: usize,
    pub next_fresh: u64,
    pub step: usize,
    pub since_dump: usize,
    pub probes_left: usize,
    /// a shrink was just issued mid-resize: probe the (now tight) headroom next
    pub force_probe: bool,
    /// scripted steps to run before choosing freely again
    pub script: std::collections::VecDeque<Script>,
}

/// Steps of the "tightest state" recipe: grow by `reserve`, move a batch or two, shrink mid-resize
/// (leaving little or no slack), fill to capacity, and keep inserting — the histories in which an
/// off-by-one in the headroom arithmetic, or an old table that is not released on time, shows.
#[derive(Clone, Copy, Debug)]
pub enum Script {
    InsertFresh,
    ReserveBeyond(usize),
    RemoveMain,
    ShrinkToFit,
    FillProbe,
}

const THRESHOLDS: [usize; 17] = [3, 7, 14, 28, 56, 112, 224, 448, 896, 1792, 3584, 7168, 14336, 28672, 57344, 114688, 229376];

impl Gen {
    pub fn new(seed: u64, slice: Slice, max_len: usize) -> Gen {
        let mut rng = Rng::new(seed);
        let ths: Vec<usize> = THRESHOLDS.iter().copied().filter(|t| *t <= max_len.max(3)).collect();
        // the churn slice is about large maps: aim at one of the three largest thresholds allowed
        let base = if slice == Slice::Big && ths.len() > 3 { *rng.pick(&ths[ths.len() - 3..]) } else { *rng.pick(&ths) };
        let target = (base as i64 + rng.below(5) as i64 - 1).max(1) as usize;
        Gen { rng, slice, target, next_fresh: 0, step: 0, since_dump: 0, probes_left: if slice == Slice::Cap { 8 } else { 3 }, force_probe: false, script: Default::default() }
    }

    fn fresh(&mut self) -> u64 {
        // keys are spread so that `k mod m` predicates are interesting
        let k = self.next_fresh;
        self.next_fresh += 1 + self.rng.below(2);
        k
    }

    fn existing(&mut self, w: &World, mid: usize) -> Option<u64> {
        let r = w.refs.get(mid)?.as_ref()?;
        if r.is_empty() {
            return None;
        }
        if r.len() > 4096 {
            // O(log n): the first key at or after a random point of the key space
            let hi = *r.keys().next_back().unwrap();
            let at = self.rng.below(hi + 1);
            return r.range(at..).next().map(|x| *x.0);
        }
        let i = self.rng.below(r.len() as u64) as usize;
        r.keys().nth(i).copied()
    }
    fn old_key(&mut self, w: &World, mid: usize) -> Option<u64> {
        let m = w.map(mid)?;
        let mut v = vec![];
        m.verif_old_keys(16, |k| v.push(k.k()));
        if v.is_empty() {
            return None;
        }
        match self.rng.below(3) {
            // the very next element the move cursor will yield
            0 => Some(v[0]),
            // within the first group(s) of the cursor's range
            1 => Some(*self.rng.pick(&v)),
            // anywhere in the old table, typically far from the cursor
            _ => {
                let l = m.verif_state().old.map_or(0, |o| o.0);
                if l > 4096 {
                    let lim = 17 + self.rng.below(4080) as usize;
                    let mut last = v[0];
                    m.verif_old_keys(lim, |k| last = k.k());
                    return Some(last);
                }
                let all = old_keys(m);
                Some(*self.rng.pick(&all))
            }
        }
    }
    /// a key, biased towards the old table when a resize is pending
    fn some_key(&mut self, w: &World, mid: usize) -> u64 {
        if self.rng.chance(1, 2) {
            if let Some(k) = self.old_key(w, mid) {
                return k;
            }
        }
        if self.rng.chance(5, 6) {
            if let Some(k) = self.existing(w, mid) {
                return k;
            }
        }
        self.next_fresh + 1000 + self.rng.below(50)
    }

    pub fn pred(&mut self, w: &World, mid: usize) -> Pred {
        let add = if self.rng.chance(1, 2) { self.rng.below(4) } else { 0 };
        let m = w.map(mid);
        match self.rng.below(7) {
            0 => Pred { set: Some(vec![]), modulus: 1, rem: 0, neg: false, add }, // matches nothing
            1 => Pred { set: Some(vec![]), modulus: 1, rem: 0, neg: true, add },  // matches everything
            2 | 3 => {
                // exactly the old-table keys (or their complement)
                let ok = m.map(old_keys).unwrap_or_default();
                Pred { set: Some(ok), modulus: 1, rem: 0, neg: self.rng.chance(1, 2), add }
            }
            4 => {
                // a few chosen keys
                let mut ks = vec![];
                for _ in 0..self.rng.below(6) {
                    ks.push(self.some_key(w, mid));
                }
                Pred { set: Some(ks), modulus: 1, rem: 0, neg: self.rng.chance(1, 2), add }
            }
            _ => {
                let modulus = 2 + self.rng.below(4);
                Pred { set: None, modulus, rem: self.rng.below(modulus), neg: self.rng.chance(1, 2), add }
            }
        }
    }

    fn steps(&mut self, raw: bool) -> Vec<Step> {
        let mut v = vec![];
        // `Entry::insert` on a vacant entry returns an occupied handle that carries no key: the two calls hashbrown
        // documents to panic on such a handle (replace_entry / replace_key) are not issued after it
        let mut after_insert = false;
        let deep = self.rng.chance(1, 4);
        let depth = 1 + self.rng.below(if deep { 4 } else { 3 });
        for i in 0..depth {
            let last = i + 1 == depth;
            let a = self.rng.below(5);
            let val = 100 + self.rng.below(900);
            let s = if !last {
                match self.rng.below(6) {
                    5 => {
                        after_insert = true;
                        Step::Insert(val, a)
                    }
                    0 => Step::AndModify(a),
                    1 => Step::AndReplace(self.rng.chance(2, 3), a),
                    2 => Step::OccInsert(val),
                    3 => Step::OccGetMut(0, a),
                    _ => Step::OccReplaceWith(self.rng.chance(1, 2), a),
                }
            } else {
                match self.rng.below(14) {
                    0 => Step::Insert(val, a),
                    1 | 2 => Step::OrInsert(if raw { self.rng.below(2) as u8 } else { self.rng.below(4) as u8 }, val, a),
                    3 => Step::OccRemove,
                    4 => Step::OccRemoveEntry,
                    5 => Step::OccInsert(val),
                    6 => {
                        if raw {
                            Step::OccReplaceKey
                        } else {
                            Step::OccReplaceEntry(val)
                        }
                    }
                    7 => Step::OccReplaceKey,
                    8 => Step::OccGetMut(self.rng.below(2) as u8, a),
                    9 => Step::OccReplaceWith(self.rng.chance(1, 2), a),
                    10 | 11 => Step::VacInsert(if raw { self.rng.below(3) as u8 } else { 0 }, val, a),
                    12 => Step::VacIntoKey,
                    _ => Step::AndReplace(false, a),
                }
            };
            let s = if after_insert && !raw && matches!(s, Step::OccReplaceEntry(_) | Step::OccReplaceKey) { Step::OccRemoveEntry } else { s };
            let term = s.terminal();
            // `vac_into_key` does not exist on the raw API
            let s = if raw && matches!(s, Step::VacIntoKey) { Step::AndModify(a) } else { s };
            v.push(s);
            if term {
                break;
            }
        }
        v
    }

    fn boundary(&mut self, w: &World, mid: usize) -> usize {
        let (len, cap) = w.map(mid).map_or((0, 0), |m| (m.len(), m.capacity()));
        let free = cap - len.min(cap);
        let r = w.r;
        let near = len + 2 * ((len + r - 1) / r) + 2;
        match self.rng.below(12) {
            0 => 0,
            1 => free.saturating_sub(1),
            2 => free,
            3 => free + 1,
            4 => len.saturating_sub(1),
            5 => len + 1,
            6 => 1usize << self.rng.below(12),
            7 => (1usize << self.rng.below(12)).saturating_sub(1),
            8 => usize::MAX - self.rng.below(near as u64 + 1) as usize,
            9 => (isize::MAX as usize) - self.rng.below(near as u64 + 1) as usize,
            10 => usize::MAX / (1 + self.rng.below(64) as usize),
            _ => self.rng.below(2 * cap as u64 + 4) as usize,
        }
    }

    /// The next operation, chosen by looking at the maps.
    pub fn next(&mut self, w: &World) -> (usize, Op) {
        self.step += 1;
        if self.step == 1 {
            let caps = [0usize, 0, 0, 1, 3, 4, 7, 8, 14, 15, 28, 100];
            return (0, Op::New { cap: *self.rng.pick(&caps), seed: self.rng.below(1000) });
        }
        if w.map(0).is_none() {
            return (0, Op::New { cap: 0, seed: self.rng.below(1000) });
        }
        self.since_dump += 1;
        let every = w.refs.get(0).and_then(|r| r.as_ref()).map_or(40, |r| if r.len() > 8000 { r.len() / 4 } else { 40 });
        if self.since_dump >= every {
            self.since_dump = 0;
            return (0, Op::Dump);
        }
        let m = w.map(0).unwrap();
        let o = observe(m);
        let split = o.old.is_some();
        let len = o.len;
        // the tight-state recipe: sometimes, early in a history, in the slices about capacity
        if self.step == 3 && matches!(self.slice, Slice::Cap | Slice::Core) && self.rng.chance(1, 5) {
            let n = 9 + self.rng.below(120) as usize;
            for _ in 0..n {
                self.script.push_back(Script::InsertFresh);
            }
            self.script.push_back(Script::ReserveBeyond(1 + self.rng.below(3) as usize));
            for _ in 0..(1 + self.rng.below(3)) {
                self.script.push_back(Script::InsertFresh);
            }
            for _ in 0..self.rng.below(6) {
                self.script.push_back(Script::RemoveMain);
            }
            self.script.push_back(Script::ShrinkToFit);
            self.script.push_back(Script::FillProbe);
            for _ in 0..3 {
                self.script.push_back(Script::InsertFresh);
            }
        }
        if let Some(st) = self.script.pop_front() {
            return match st {
                Script::InsertFresh => (0, Op::Insert { k: self.fresh(), v: 1 }),
                Script::ReserveBeyond(x) => (0, Op::Reserve { n: (o.cap - o.len.min(o.cap)) + x }),
                Script::RemoveMain => {
                    // a key that already sits in the main table (not in the old one)
                    let ok: Vec<u64> = old_keys(m);
                    let k = w.refs.get(0).and_then(|r| r.as_ref()).and_then(|r| r.keys().copied().find(|k| !ok.contains(k)));
                    match k {
                        Some(k) => (0, Op::Remove { k, variant: 0 }),
                        None => (0, Op::Get { k: 0, variant: 0 }),
                    }
                }
                Script::ShrinkToFit => (0, Op::ShrinkToFit),
                Script::FillProbe => {
                    if o.cap - o.len.min(o.cap) <= 600 { (0, Op::FillProbe { start: 3_000_000 + self.next_fresh * 16 }) } else { (0, Op::Dump) }
                }
            };
        }
        if self.force_probe {
            self.force_probe = false;
            if o.cap - o.len.min(o.cap) <= 600 {
                return (0, Op::FillProbe { start: 2_000_000 + self.next_fresh * 16 + self.rng.below(1000) });
            }
        }
        // tight headroom is what `shrink_to` mid-resize produces: shrink, then fill to capacity
        if split && matches!(self.slice, Slice::Cap | Slice::Core) && self.rng.chance(1, 12) {
            self.force_probe = true;
            return (0, Op::ShrinkToFit);
        }
        // Another phase plain use rarely rests in: the old table emptied *in place* (by `retain` or a
        // `replace_entry_with` returning `None`) and still allocated.  Every call that has to cope with a
        // present-but-empty old table gets its turn before a key-adding call ends the phase.
        if let Some((0, ..)) = o.old {
            if self.rng.chance(3, 4) && !matches!(self.slice, Slice::Big) {
                let k = self.some_key(w, 0);
                let nb = self.boundary(w, 0);
                let nb = if nb > (1 << 20) && nb < usize::MAX / 16 { nb % 4096 } else { nb };
                return match self.rng.below(16) {
                    0 | 1 => (0, Op::Clear),
                    2 => (0, Op::Drain { take: self.rng.below(len as u64 + 1) as usize, forget: false }),
                    3 => (0, Op::Reserve { n: nb }),
                    4 => {
                        // also the window in which the layout is valid but the allocator refuses it (the harness allocator
                        // caps a table at 1 GiB): an error, not a panic, and nothing changes
                        let n = if self.rng.chance(1, 4) { *self.rng.pick(&[1usize << 27, (1 << 27) + 13, 1 << 30, 1 << 40, 1 << 57]) } else { self.boundary(w, 0) };
                        (0, Op::TryReserve { n })
                    }
                    5 => (0, Op::ShrinkToFit),
                    6 => (0, Op::Shrink { n: self.boundary(w, 0) }),
                    7 => (1, Op::Clone { src: 0 }),
                    8 => {
                        if w.map(1).is_some() { (1, Op::CloneFrom { src: 0 }) } else { (1, Op::Clone { src: 0 }) }
                    }
                    9 => (0, Op::Iter { variant: self.rng.below(5) as u8 }),
                    10 => (0, Op::Retain { p: self.pred(w, 0) }),
                    11 => (0, Op::Get { k, variant: self.rng.below(8) as u8 }),
                    12 => (0, Op::Remove { k, variant: 0 }),
                    13 => (0, Op::Dump),
                    14 => {
                        if o.cap - o.len.min(o.cap) <= 300 && self.probes_left > 0 {
                            self.probes_left -= 1;
                            (0, Op::FillProbe { start: 4_000_000 + self.next_fresh * 16 })
                        } else {
                            (0, Op::IterMut { add: 1, variant: 0 })
                        }
                    }
                    _ => (0, Op::Entry { via: self.rng.below(4) as u8, k, steps: vec![Step::OccGetMut(0, 1)] }),
                };
            }
        }
        // a FULL table that is not resizing, asked for nothing: `reserve(0)`, `try_reserve(0)`, an `extend` that brings
        // nothing — the one request whose `additional` does not cover the insertions that move the old table
        if !split && len > 0 && o.cap == o.len && self.rng.chance(1, 6) {
            return match self.rng.below(3) {
                0 => (0, Op::Reserve { n: 0 }),
                1 => (0, Op::TryReserve { n: 0 }),
                _ => (0, Op::Extend { items: vec![], hint: None }),
            };
        }
        // steer towards the target size: grow to it, then churn around it
        let growing = len < self.target;
        let d = self.rng.below(100);
        // A phase that plain insertion never rests in: everything parked, main table empty (right
        // after a growing `reserve`, or after removing exactly the main table's elements).  Look at
        // the map through every observer before the next insert ends the phase.
        if split && o.mi == 0 && o.len > 0 && self.rng.chance(3, 5) && !matches!(self.slice, Slice::Big) {
            let k = self.some_key(w, 0);
            return match self.rng.below(16) {
                0 | 1 | 2 => (0, Op::Get { k, variant: self.rng.below(8) as u8 }),
                3 => (0, Op::Get { k, variant: 2 }),
                4 => (0, Op::Iter { variant: self.rng.below(5) as u8 }),
                5 => (0, Op::Dump),
                6 => (0, Op::GetMut { k, add: 1 }),
                7 => (0, Op::Remove { k, variant: self.rng.below(2) as u8 }),
                8 => (1, Op::Clone { src: 0 }),
                9 => {
                    if w.map(1).is_some() { (1, Op::CloneFrom { src: 0 }) } else { (1, Op::Clone { src: 0 }) }
                }
                10 => {
                    if w.map(1).is_some() { (0, Op::Eq { other: 1 }) } else { (1, Op::Clone { src: 0 }) }
                }
                11 => (0, Op::Entry { via: self.rng.below(4) as u8, k, steps: vec![Step::OccGetMut(0, 1)] }),
                12 => (0, Op::Retain { p: self.pred(w, 0) }),
                13 => {
                    if self.rng.chance(1, 3) { (0, Op::Clear) } else { (0, Op::IterMut { add: 1, variant: self.rng.below(3) as u8 }) }
                }
                14 => {
                    let p = self.pred(w, 0);
                    (0, Op::DrainFilter { p, take: usize::MAX, forget: false })
                }
                _ => (0, Op::Drain { take: self.rng.below(len as u64 + 1) as usize, forget: false }),
            };
        }
        match self.slice {
            Slice::Big => {
                if growing && d < 85 {
                    return (0, Op::Insert { k: self.fresh(), v: self.rng.below(1000) });
                }
                return match d % 10 {
                    0 | 1 => (0, Op::Insert { k: self.fresh(), v: 1 }),
                    2 => (0, Op::Insert { k: self.some_key(w, 0), v: 2 }),
                    3 | 4 => (0, Op::Remove { k: self.some_key(w, 0), variant: (d % 2) as u8 }),
                    5 => (0, Op::GetMut { k: self.some_key(w, 0), add: 1 }),
                    6 => (0, Op::Entry { via: (d % 4) as u8, k: self.some_key(w, 0), steps: vec![Step::OrInsert(0, 5, 1)] }),
                    _ => (0, Op::Get { k: self.some_key(w, 0), variant: (d % 3) as u8 }),
                };
            }
            Slice::Fault => {
                // keep the map mid-resize most of the time: push to the next growth when whole, linger
                // when split; fall back to a small map when it got large
                if !split && d < 60 && len < 2 * self.target + 40 {
                    return (0, Op::Insert { k: self.fresh(), v: self.rng.below(1000) });
                }
                if !split && len >= 2 * self.target + 40 && d < 80 {
                    return (0, Op::Retain { p: Pred { set: None, modulus: 5, rem: 0, neg: false, add: 0 } });
                }
                return match self.rng.below(20) {
                    0 | 1 | 2 => (0, Op::FInsert { k: self.fresh(), v: 5, fuse: self.rng.below(11) as usize }),
                    3 | 4 => (0, Op::FInsert { k: self.some_key(w, 0), v: 6, fuse: self.rng.below(11) as usize }),
                    5 | 6 | 7 => {
                        let p = self.pred(w, 0);
                        (0, Op::FRetain { p, fuse: self.rng.below(len as u64 + 2) as usize })
                    }
                    8 => {
                        if self.rng.chance(1, 2) { (0, Op::FReplace { k: self.some_key(w, 0) }) } else { (0, Op::FEntry { k: self.some_key(w, 0), kind: self.rng.below(5) as u8 }) }
                    }
                    9 => {
                        let p = self.pred(w, 0);
                        (0, Op::FDrainFilter { p, fuse: self.rng.below(len as u64 + 2) as usize })
                    }
                    10 => {
                        if self.rng.chance(1, 2) { (0, Op::Remove { k: self.some_key(w, 0), variant: 0 }) } else {
                            (0, Op::FEq { kind: self.rng.below(5) as u8, k: self.some_key(w, 0), v: 9, fuse: self.rng.below(3) as usize })
                        }
                    }
                    11 => (0, Op::Insert { k: self.some_key(w, 0), v: 2 }),
                    12 => (0, Op::Get { k: self.some_key(w, 0), variant: 0 }),
                    13 => {
                        let n = self.boundary(w, 0);
                        (0, Op::Reserve { n: if n > 4096 { n % 4096 } else { n } })
                    }
                    14 => (0, Op::ShrinkToFit),
                    15 => (0, Op::Iter { variant: 0 }),
                    16 => (0, Op::Retain { p: self.pred(w, 0) }),
                    17 => (0, Op::Entry { via: 0, k: self.some_key(w, 0), steps: vec![Step::OccReplaceWith(true, 1)] }),
                    _ => (0, Op::Insert { k: self.fresh(), v: 1 }),
                };
            }
            Slice::Cap => {
                if growing && d < 50 {
                    return (0, Op::Insert { k: self.fresh(), v: 1 });
                }
                let n = self.boundary(w, 0);
                return match d % 14 {
                    0 | 1 => (0, Op::TryReserve { n }),
                    2 => {
                        // an infallible reserve must not be asked for something that would abort
                        let n = if n > (1 << 20) && n < usize::MAX / 16 { n % 4096 } else { n };
                        (0, Op::Reserve { n })
                    }
                    3 | 4 => (0, Op::Shrink { n }),
                    5 => (0, Op::ShrinkToFit),
                    6 => (0, Op::Remove { k: self.some_key(w, 0), variant: 0 }),
                    7 => (0, Op::Retain { p: self.pred(w, 0) }),
                    8 => (0, Op::Insert { k: self.some_key(w, 0), v: 3 }),
                    9 => {
                        let c = *self.rng.pick(&[0usize, 1, 3, 4, 7, 8, 14, 15, 28, 29, 56, 57, 100, 1000]);
                        (1, Op::New { cap: c, seed: 0 })
                    }
                    10 | 11 if len < 600 && o.cap - o.len.min(o.cap) <= 300 && self.probes_left > 0 => { self.probes_left -= 1; (0, Op::FillProbe { start: 1_000_000 + self.next_fresh * 16 + self.rng.below(1000) }) }
                    _ => (0, Op::Insert { k: self.fresh(), v: 1 }),
                };
            }
            _ => {}
        }
        // while a resize is pending, dwell: key-adding calls end the phase within ⌈L/R⌉ steps
        let grow_p = if split { 12 } else { 55 };
        if growing && d < grow_p {
            return (0, Op::Insert { k: self.fresh(), v: self.rng.below(1000) });
        }
        // reach the split phase more often than plain growth does: a `reserve` beyond the free room
        // parks everything (and needs ⌈len/R⌉ key-adding calls to finish)
        if !split && len >= 9 && self.rng.chance(1, 7) {
            return (0, Op::Reserve { n: (o.cap - o.len.min(o.cap)) + 1 + self.rng.below(4) as usize });
        }
        let has1 = w.map(1).is_some();
        let weights: &[(u32, u8)] = match self.slice {
            Slice::Entry => &[(10, 0), (5, 1), (5, 3), (40, 6), (3, 7), (2, 9), (2, 10), (3, 11), (2, 12)],
            Slice::Iter => &[(12, 0), (3, 1), (6, 3), (3, 6), (14, 7), (14, 8), (6, 13), (14, 11), (6, 12), (3, 9), (2, 10), (4, 16), (5, 14), (2, 18)],
            Slice::Clone => &[(12, 0), (4, 1), (6, 3), (4, 6), (4, 7), (16, 14), (12, 15), (8, 17), (10, 18), (3, 9), (2, 10)],
            _ => &[(14, 0), (6, 1), (8, 2), (10, 3), (4, 4), (5, 5), (12, 6), (5, 7), (5, 8), (3, 9), (3, 10), (5, 11), (3, 12), (1, 13), (3, 14), (2, 15), (1, 16), (2, 17), (3, 18), (2, 19), (2, 20)],
        };
        let total: u32 = weights.iter().map(|x| x.0).sum();
        let mut pick = self.rng.below(total as u64) as u32;
        let mut code = 0u8;
        for (wgt, c) in weights {
            if pick < *wgt {
                code = *c;
                break;
            }
            pick -= wgt;
        }
        // … and stay there: two times out of three, trade a call that ends the phase for one that does not
        if split && matches!(code, 0 | 9 | 13 | 16) && self.rng.chance(2, 3) {
            code = match self.slice {
                Slice::Iter => *self.rng.pick(&[11u8, 12, 7, 8, 3]),
                Slice::Entry => *self.rng.pick(&[6u8, 6, 3, 1]),
                Slice::Clone => *self.rng.pick(&[14u8, 15, 17, 18, 3]),
                _ => *self.rng.pick(&[2u8, 4, 11, 12, 3, 1, 6, 7, 8]),
            };
        }
        match code {
            0 => (0, Op::Insert { k: self.fresh(), v: self.rng.below(1000) }),
            1 => (0, Op::Insert { k: self.some_key(w, 0), v: self.rng.below(1000) }),
            2 => (0, Op::Get { k: self.some_key(w, 0), variant: self.rng.below(8) as u8 }),
            3 => (0, Op::Remove { k: self.some_key(w, 0), variant: self.rng.below(2) as u8 }),
            4 => (0, Op::GetMut { k: self.some_key(w, 0), add: self.rng.below(5) }),
            5 => (0, Op::Get { k: self.next_fresh + 5000, variant: self.rng.below(3) as u8 }),
            6 => {
                let via = self.rng.below(4) as u8;
                let steps = self.steps(via != 0);
                (0, Op::Entry { via, k: self.some_key(w, 0), steps })
            }
            7 => (0, Op::Retain { p: self.pred(w, 0) }),
            8 => {
                let p = self.pred(w, 0);
                let take = match self.rng.below(4) {
                    0 => 0,
                    1 => usize::MAX,
                    _ => self.rng.below(len as u64 + 2) as usize,
                };
                (0, Op::DrainFilter { p, take, forget: self.rng.chance(1, 4) })
            }
            9 => {
                let n = self.boundary(w, 0);
                let n = if n > (1 << 20) && n < usize::MAX / 16 { n % 4096 } else { n };
                if self.rng.chance(1, 2) { (0, Op::TryReserve { n: self.boundary(w, 0) }) } else { (0, Op::Reserve { n }) }
            }
            10 => {
                if self.rng.chance(1, 2) { (0, Op::ShrinkToFit) } else { (0, Op::Shrink { n: self.boundary(w, 0) }) }
            }
            11 => (0, Op::Iter { variant: self.rng.below(5) as u8 }),
            12 => (0, Op::IterMut { add: 1 + self.rng.below(3), variant: self.rng.below(3) as u8 }),
            13 => {
                let take = match self.rng.below(3) {
                    0 => 0,
                    1 => usize::MAX,
                    _ => self.rng.below(len as u64 + 1) as usize,
                };
                (0, Op::Drain { take, forget: self.rng.chance(1, 5) })
            }
            14 => (1, Op::Clone { src: 0 }),
            15 => {
                if has1 {
                    if self.rng.chance(1, 2) { (0, Op::CloneFrom { src: 1 }) } else { (1, Op::CloneFrom { src: 0 }) }
                } else {
                    (1, Op::Clone { src: 0 })
                }
            }
            16 => {
                if split && self.rng.chance(1, 3) {
                    // consume the map itself while a resize is pending (a clone never is mid-resize)
                    (0, Op::IntoIter { take: match self.rng.below(3) { 0 => 0, 1 => usize::MAX, _ => self.rng.below(len as u64 + 1) as usize } })
                } else if has1 && self.rng.chance(1, 2) {
                    let l1 = w.map(1).map_or(0, |m| m.len());
                    (1, Op::IntoIter { take: match self.rng.below(3) { 0 => 0, 1 => usize::MAX, _ => self.rng.below(l1 as u64 + 1) as usize } })
                } else {
                    (0, Op::Clear)
                }
            }
            17 => {
                if has1 { (0, Op::Eq { other: 1 }) } else { (1, Op::New { cap: self.rng.below(40) as usize, seed: self.rng.below(1000) }) }
            }
            18 => {
                // diverge the second map
                if has1 {
                    match self.rng.below(4) {
                        0 => (1, Op::Insert { k: self.fresh(), v: 7 }),
                        1 => (1, Op::Remove { k: self.some_key(w, 1), variant: 0 }),
                        2 => (1, Op::Insert { k: self.some_key(w, 1), v: 8 }),
                        _ => (1, Op::Dump),
                    }
                } else {
                    (1, Op::New { cap: self.rng.below(40) as usize, seed: self.rng.below(1000) })
                }
            }
            20 if len < 600 && o.cap - o.len.min(o.cap) <= 300 && self.probes_left > 0 => { self.probes_left -= 1; (0, Op::FillProbe { start: 1_000_000 + self.next_fresh * 16 + self.rng.below(1000) }) }
            20 => (0, Op::Dump),
            _ => {
                let long = self.rng.chance(1, 4);
                let n = 1 + self.rng.below(if long { 40 } else { 12 });
                let mut items: Vec<(u64, u64)> = vec![];
                // half of the calls bring only new keys (with repeats among themselves): those are replayed on the model
                // whatever happens inside; the others also overwrite keys that are already there
                let only_new = self.rng.chance(1, 2);
                for i in 0..n {
                    let k = if only_new && i > 0 && self.rng.chance(1, 6) { items[self.rng.below(i as u64) as usize].0 } else if !only_new && self.rng.chance(1, 3) { self.some_key(w, 0) } else { self.fresh() };
                    items.push((k, self.rng.below(1000)));
                }
                // `size_hint` is advisory: now and then the iterator claims something else than it delivers
                let hint = if self.rng.chance(1, 5) {
                    Some(match self.rng.below(7) {
                        0 => 0,
                        1 => 1,
                        2 => items.len() * 3 + 1,
                        3 => usize::MAX,
                        4 => usize::MAX - 1,
                        5 => isize::MAX as usize,
                        _ => items.len() / 2,
                    })
                } else {
                    None
                };
                (0, Op::Extend { items, hint })
            }
        }
    }
}
