//! Counting allocator.  hashbrown allocates its tables with alignment `Group::WIDTH` = 16;
//! nothing else the harness does inside an armed window uses that alignment, so "alignment >= 16
//! while armed" counts table allocations.  Requests above LIMIT are refused (null), which makes
//! near-`isize::MAX` requests deterministic and harmless.
use std::alloc::{GlobalAlloc, Layout, System};
use std::cell::Cell;

pub const LIMIT: usize = 1 << 30;
pub static TRACE: std::sync::atomic::AtomicBool = std::sync::atomic::AtomicBool::new(false);

thread_local! {
    static ARMED: Cell<bool> = const { Cell::new(false) };
    static ALLOCS: Cell<u64> = const { Cell::new(0) };
    static FREES: Cell<u64> = const { Cell::new(0) };
    static LIVE: Cell<i64> = const { Cell::new(0) };
}

pub struct Counting;

unsafe impl GlobalAlloc for Counting {
    unsafe fn alloc(&self, l: Layout) -> *mut u8 {
        if l.size() > LIMIT {
            return std::ptr::null_mut();
        }
        if l.align() >= 16 {
            let _ = ARMED.try_with(|a| {
                if a.get() {
                    ALLOCS.with(|c| c.set(c.get() + 1));
                    LIVE.with(|c| c.set(c.get() + 1));
                    if TRACE.load(std::sync::atomic::Ordering::Relaxed) {
                        a.set(false);
                        eprintln!("ALLOC size={} align={}\n{}", l.size(), l.align(), std::backtrace::Backtrace::force_capture());
                        a.set(true);
                    }
                }
            });
        }
        System.alloc(l)
    }
    unsafe fn dealloc(&self, p: *mut u8, l: Layout) {
        if l.align() >= 16 {
            let _ = ARMED.try_with(|a| {
                if a.get() {
                    FREES.with(|c| c.set(c.get() + 1));
                    LIVE.with(|c| c.set(c.get() - 1));
                }
            });
        }
        System.dealloc(p, l)
    }
}

pub fn arm() {
    ALLOCS.with(|c| c.set(0));
    FREES.with(|c| c.set(0));
    ARMED.with(|a| a.set(true));
}
/// returns (allocations, frees) of tables since `arm`
pub fn disarm() -> (u64, u64) {
    ARMED.with(|a| a.set(false));
    (ALLOCS.with(|c| c.get()), FREES.with(|c| c.get()))
}
pub fn live_tables() -> i64 {
    LIVE.with(|c| c.get())
}
pub fn set_live(n: i64) {
    LIVE.with(|c| c.set(n));
}
