//! Slices that need their own drivers (sets, rayon, serde, zero-sized elements, fault injection).
pub fn cmd_extra(_args: &[String]) {
    eprintln!("not yet");
    std::process::exit(2);
}
