//! Slices with their own drivers: zero-sized elements, HashSet algebra, rayon, serde, fault
//! injection.  Each writes a JSON report {evaluations, distinct_nontrivial, fails:[{prop,what,replay}], samples}.
use crate::alloc;
use crate::elem::*;
use crate::gen::Rng;
use crate::ops::{ids_fmt, install_panic_hook, keys_fmt, windowed, LAST_PANIC};
use griddle::hash_map::Entry;
use griddle::{HashMap, HashSet};
use std::collections::{BTreeMap, BTreeSet};
use std::io::Write;
use std::panic::{catch_unwind, AssertUnwindSafe};

pub struct Report {
    pub prop: String,
    pub evaluations: u64,
    pub tuples: BTreeSet<String>,
    pub fails: Vec<(String, String, String)>, // prop, what, replay text
    pub samples: Vec<String>,
    pub extra: BTreeMap<String, u64>,
    pub progress: String,
    /// lines for the model driver (stateless ops: `setalg`, `ser`), replayed by `gmodel`
    pub transcript: Vec<String>,
}
impl Report {
    fn new(prop: &str) -> Report {
        Report { prop: prop.into(), evaluations: 0, tuples: BTreeSet::new(), fails: vec![], samples: vec![], extra: BTreeMap::new(), progress: String::new(), transcript: vec![] }
    }
    /// what is about to be executed, for the case that the process does not survive it
    fn about_to(&self, text: &str) {
        crate::watch::beat(0, self.evaluations as usize);
        if !self.progress.is_empty() {
            let _ = std::fs::write(&self.progress, text);
        }
    }
    fn fail(&mut self, prop: &str, what: String, replay: String) {
        // capped per property, so that one property's failures never crowd out another's
        if self.fails.iter().filter(|f| f.0 == prop).count() < 4 {
            self.fails.push((prop.into(), what, replay));
        }
    }
    fn bump(&mut self, k: &str, n: u64) {
        *self.extra.entry(k.into()).or_insert(0) += n;
    }
}
fn js(s: &str) -> String {
    let mut o = String::from("\"");
    for c in s.chars() {
        match c {
            '"' => o.push_str("\\\""),
            '\\' => o.push_str("\\\\"),
            '\n' => o.push_str("\\n"),
            c if (c as u32) < 32 => o.push(' '),
            c => o.push(c),
        }
    }
    o.push('"');
    o
}
fn arg<'a>(args: &'a [String], name: &str) -> Option<&'a str> {
    args.iter().position(|a| a == name).and_then(|i| args.get(i + 1)).map(|s| s.as_str())
}

pub fn cmd_extra(args: &[String]) {
    crate::watch::start();
    install_panic_hook();
    let which = args.get(2).map(|s| s.as_str()).unwrap_or("");
    let seed: u64 = arg(args, "--seed").and_then(|s| s.parse().ok()).unwrap_or(1);
    let scale: u64 = arg(args, "--scale").and_then(|s| s.parse().ok()).unwrap_or(1);
    let report = arg(args, "--report").unwrap_or("/dev/null").to_string();
    let replays = arg(args, "--replays").unwrap_or("/tmp").to_string();
    let prop = arg(args, "--prop").unwrap_or("").to_string();
    let progress = arg(args, "--progress").unwrap_or("").to_string();
    let mut rep = Report::new(&prop);
    rep.progress = progress.clone();
    match which {
        "zst" => zst(&mut rep, scale),
        "set" => sets(&mut rep, seed, scale),
        "par" => par(&mut rep, seed, scale),
        "serde" => serde_slice(&mut rep, seed, scale),
        "fault" => fault(&mut rep, seed, scale),
        "eqs" => eqs(&mut rep, seed, scale),
        "hb" => hb(&mut rep, seed, scale),
        "zsh" => zsh(&mut rep, seed, scale),
        "iters" => iters(&mut rep, seed, scale),
        "oom" => oom(&mut rep, seed, scale),
        "oomchild" => oom_child(args),
        _ => {
            eprintln!("unknown extra slice {which}");
            std::process::exit(2);
        }
    }
    // write replays and the report
    let mut fails_json = vec![];
    for (i, (p, what, text)) in rep.fails.iter().enumerate() {
        let path = format!("{replays}/{p}-{which}-{seed}-{i}.txt");
        if let Ok(mut f) = std::fs::File::create(&path) {
            let _ = writeln!(f, "# property {p}: {what}\n# slice extra/{which} seed {seed}\n{text}");
        }
        fails_json.push(format!("{{\"prop\":{},\"what\":{},\"replay\":{}}}", js(p), js(what), js(&path)));
    }
    let mut tpath = String::new();
    if !rep.transcript.is_empty() && report != "/dev/null" {
        tpath = format!("{report}.transcript");
        let mut text = crate::header(&format!("extra-{which}"), HKind::Mul);
        text.push('\n');
        text.push_str(&rep.transcript.join("\n"));
        text.push('\n');
        let _ = std::fs::write(&tpath, text);
    }
    let extra: Vec<String> = rep.extra.iter().map(|(k, v)| format!("{}:{}", js(k), v)).collect();
    let samples: Vec<String> = rep.samples.iter().take(3).map(|s| js(s)).collect();
    let out = format!(
        "{{\"slice\":{},\"transcript\":{},\"evaluations\":{},\"distinct_nontrivial\":{},\"fails\":[{}],\"samples\":[{}],\"detail\":{{{}}}}}",
        js(which),
        js(&tpath),
        rep.evaluations,
        rep.tuples.len(),
        fails_json.join(","),
        samples.join(","),
        extra.join(",")
    );
    std::fs::write(&report, out).expect("write report");
    if !progress.is_empty() {
        let _ = std::fs::remove_file(&progress);
    }
    println!("gharness extra {which}: evaluations={} distinct={} fails={}", rep.evaluations, rep.tuples.len(), rep.fails.len());
}

// ------------------------------------------------------------------------------------------------
// zero-sized elements: exhaustive enumeration of short histories on HashMap<(), ()> / HashSet<()>
fn zst(rep: &mut Report, scale: u64) {
    const NOPS: usize = 18;
    let names = ["insert", "remove", "reserve(1)", "reserve(10)", "shrink_to_fit", "retain(keep)", "retain(drop)", "replace_with(Some)", "replace_with(None)", "clear", "drain", "clone", "get/iter", "set-remove-roundtrip",
                 "drain_filter(true)", "drain_filter(false)", "entry.or_insert", "raw_entry.remove / clone_from / into_iter"];
    // which properties a failing history that contains the operation speaks about (besides C01 / C05 / C13)
    let tags: [&[&str]; NOPS] = [&["C02", "C03"], &["C03"], &["C10", "C04"], &["C10", "C04"], &["C10"], &["C09"], &["C09"], &["C12"], &["C12"], &["C06"], &["C08"], &["C11"], &["C08", "C14"], &[],
                 &["C09"], &["C09"], &["C12"], &["C12", "C11", "C08", "C06"]];
    let depth = if scale > 1 { 6 } else { 5 };
    let total = (NOPS as u64).pow(depth as u32);
    let mut nfail = 0;
    for code in 0..total {
        let mut seq = vec![];
        let mut c = code;
        for _ in 0..depth {
            seq.push((c % NOPS as u64) as usize);
            c /= NOPS as u64;
        }
        let mut present = false;
        let mut m: HashMap<(), (), VBuild> = HashMap::with_hasher(VBuild::default());
        let r = catch_unwind(AssertUnwindSafe(|| {
            for (i, op) in seq.iter().enumerate() {
                match op {
                    0 => {
                        let r = m.insert((), ());
                        assert_eq!(r.is_some(), present, "insert result");
                        present = true;
                    }
                    1 => {
                        let r = m.remove(&());
                        assert_eq!(r.is_some(), present, "remove result");
                        present = false;
                    }
                    2 => m.reserve(1),
                    3 => m.reserve(10),
                    4 => m.shrink_to_fit(),
                    5 => m.retain(|_, _| true),
                    6 => {
                        m.retain(|_, _| false);
                        present = false;
                    }
                    7 => {
                        if let Entry::Occupied(o) = m.entry(()) {
                            let _ = o.replace_entry_with(|_, _| Some(()));
                        }
                    }
                    8 => {
                        if let Entry::Occupied(o) = m.entry(()) {
                            let _ = o.replace_entry_with(|_, _| None);
                        }
                        present = false;
                    }
                    9 => {
                        m.clear();
                        present = false;
                    }
                    10 => {
                        let n = m.drain().count();
                        assert_eq!(n, present as usize, "drain count");
                        present = false;
                    }
                    11 => {
                        let c2 = m.clone();
                        assert_eq!(c2.len(), present as usize, "clone len");
                        assert!(c2 == m, "clone eq");
                    }
                    12 => {
                        assert_eq!(m.get(&()).is_some(), present, "get");
                        assert_eq!(m.iter().count(), present as usize, "iter count");
                        assert_eq!(m.contains_key(&()), present);
                    }
                    13 => {
                        let mut s: HashSet<(), VBuild> = HashSet::with_hasher(VBuild::default());
                        s.insert(());
                        s.reserve(10);
                        assert!(s.remove(&()), "set remove while a resize is pending");
                        assert!(s.is_empty());
                    }
                    14 => {
                        let mut calls = 0;
                        let n = m.drain_filter(|_, _| { calls += 1; true }).count();
                        assert_eq!(calls, present as usize, "drain_filter predicate calls");
                        assert_eq!(n, present as usize, "drain_filter yields");
                        present = false;
                    }
                    15 => {
                        let mut calls = 0;
                        let n = m.drain_filter(|_, _| { calls += 1; false }).count();
                        assert_eq!(calls, present as usize, "drain_filter predicate calls");
                        assert_eq!(n, 0, "drain_filter yields");
                    }
                    16 => {
                        m.entry(()).or_insert(());
                        present = true;
                    }
                    _ => {
                        let mut c2: HashMap<(), (), VBuild> = HashMap::with_hasher(VBuild::default());
                        c2.insert((), ());
                        c2.clone_from(&m);
                        assert_eq!(c2.len(), present as usize, "clone_from len");
                        assert_eq!(c2.into_iter().count(), present as usize, "into_iter count");
                        if let griddle::hash_map::RawEntryMut::Occupied(o) = m.raw_entry_mut().from_key(&()) {
                            assert!(present, "raw entry occupied on an empty map");
                            o.remove();
                            present = false;
                        } else {
                            assert!(!present, "raw entry vacant on a non-empty map");
                        }
                    }
                }
                assert_eq!(m.len(), present as usize, "len after step {i}");
                assert_eq!(m.iter().count(), present as usize, "iterated elements after step {i}");
                assert_eq!(m.keys().len(), present as usize, "iterator len after step {i}");
                assert_eq!(m.is_empty(), !present, "is_empty after step {i}");
                assert!(m.capacity() >= m.len(), "capacity < len");
                let st = m.verif_state();
                if let Some((l, _, _, cur)) = st.old {
                    assert_eq!(l, cur, "cursor count vs old table");
                }
            }
        }));
        rep.evaluations += 1;
        if seq.iter().any(|o| *o == 2 || *o == 3) {
            rep.tuples.insert(format!("{:?}", &seq[..3.min(seq.len())]));
        }
        if let Err(_) = r {
            let msg = LAST_PANIC.with(|p| p.borrow().clone());
            let text: Vec<&str> = seq.iter().map(|o| names[*o]).collect();
            let mut ps: Vec<&str> = vec!["C01", "C05", "C13"];
            for o in &seq {
                for t in tags[*o] {
                    if !ps.contains(t) {
                        ps.push(t);
                    }
                }
            }
            for p in ps {
                if rep.fails.iter().filter(|f| f.0 == p).count() < 2 {
                    rep.fails.push((p.into(), format!("HashMap<(),()> history panicked or disagreed with the reference: {}", msg.lines().last().unwrap_or("")), format!("history on HashMap<(), ()>: {}", text.join(" ; "))));
                }
            }
            nfail += 1;
            if nfail >= 40 {
                break;
            }
        }
        if rep.samples.is_empty() && code == total / 3 {
            let text: Vec<&str> = seq.iter().map(|o| names[*o]).collect();
            rep.samples.push(format!("HashMap<(),()>: {}", text.join(" ; ")));
        }
    }
    rep.bump("depth", depth as u64);
}

// ------------------------------------------------------------------------------------------------
// HashSet against BTreeSet
type S = HashSet<Key, VBuild>;

fn build_set(g: &mut Rng, hk: HKind, universe: u64, log: &mut Vec<String>) -> (S, BTreeSet<u64>) {
    let mut s: S = if g.chance(1, 3) { S::with_capacity_and_hasher(g.below(40) as usize, VBuild { kind: hk, seed: g.below(100) }) } else { S::with_hasher(VBuild { kind: hk, seed: g.below(100) }) };
    let mut r = BTreeSet::new();
    let target = *g.pick(&[0u64, 1, 3, 4, 7, 8, 14, 15, 16, 28, 29, 33, 56, 60, 113, 120]);
    log.push(format!("new; target {target}"));
    let mut guard = 0;
    while (r.len() as u64) < target && guard < 2000 {
        guard += 1;
        let k = g.below(universe);
        s.insert(Key::new(k));
        r.insert(k);
        log.push(format!("insert {k}"));
    }
    // steer the phase
    match g.below(6) {
        0 => {
            let n = g.below(200) as usize;
            s.reserve(n);
            log.push(format!("reserve {n}"));
        }
        1 => {
            for _ in 0..g.below(6) {
                let k = g.below(universe);
                s.remove(&Q(k));
                r.remove(&k);
                log.push(format!("remove {k}"));
            }
        }
        2 => {
            // removals that hit the old table
            let mut old = vec![];
            s.verif_old_keys(8, |k| old.push(k.k()));
            for k in old {
                s.remove(&Q(k));
                r.remove(&k);
                log.push(format!("remove {k} (old table)"));
            }
        }
        _ => {}
    }
    (s, r)
}

/// the hook read-out of a set, in the transcript's field syntax
fn set_obs(a: &S) -> String {
    let st = a.verif_state();
    format!(
        "len={} cap={} mi={} mgl={} mb={} old={}",
        a.len(),
        a.capacity(),
        st.main_len,
        st.main_cap - st.main_len,
        st.main_buckets,
        match st.old {
            None => "-".to_string(),
            Some((l, _c, b, cur)) => format!("{l},{b},{cur}"),
        }
    )
}
/// the model adopts the set as it is (`sync`): elements as `value#object:0#0`
fn set_sync(a: &S) -> String {
    let st = a.verif_state();
    let all: Vec<String> = a.iter().map(|k| format!("{}#{}:0#0", k.k(), k.id)).collect();
    let n = st.main_len.min(all.len());
    let f = |v: &[String]| if v.is_empty() { "-".to_string() } else { v.join(",") };
    format!(
        "sync 0 | main={} oldents={} mb={} mgl={} ob={} cur={} | ",
        f(&all[..n]),
        f(&all[n..]),
        st.main_buckets,
        st.main_cap - st.main_len,
        st.old.map_or("-".to_string(), |o| o.2.to_string()),
        st.old.map_or(0, |o| o.3)
    )
}
/// one lock-step line of a single-set operation (`SetOps` in GriddleModel/Set.lean)
fn set_line(head: String, a: &S, before: &BTreeMap<u64, u64>, split_before: bool, ret: String, dh: u64, da: u64, df: u64, dropped: &mut Vec<u64>) -> String {
    let mut orc = String::new();
    let st = a.verif_state();
    let _ = st;
    if da >= 1 && !before.is_empty() && !split_before {
        // a growth parked the table: the keys carried since, then what is still parked in cursor order
        let mut ok = vec![];
        a.verif_old_keys(usize::MAX, |x| ok.push(x.k()));
        let mut all: Vec<u64> = before.keys().copied().filter(|k| !ok.contains(k)).collect();
        all.extend_from_slice(&ok);
        orc = format!("perm={}", keys_fmt(&all));
    }
    format!("{head} | {orc} | ret={ret} {} dh={dh} da={da} df={df} drop={} panic=-", set_obs(a), ids_fmt(dropped))
}

fn sets(rep: &mut Report, seed: u64, scale: u64) {
    let rounds = 400 * scale;
    for round in 0..rounds {
        reset_ids();
        let mut g = Rng::new(seed.wrapping_mul(7777).wrapping_add(round));
        let hk = *g.pick(&[HKind::Mul, HKind::Low, HKind::Mul, HKind::Const]);
        let universe = *g.pick(&[8u64, 40, 200]);
        let mut log = vec![format!("hasher {:?}", hk)];
        let mut log2 = vec![];
        let (mut a, mut ra) = build_set(&mut g, hk, universe, &mut log);
        let (b, rb) = build_set(&mut g, hk, universe, &mut log2);
        log.push("-- second set".into());
        log.extend(log2);
        let pa = a.verif_state().old.is_some();
        let pb = b.verif_state().old.is_some();
        rep.tuples.insert(format!("phases {pa}/{pb} sizes {}/{} overlap {}", ra.len().min(3), rb.len().min(3), ra.intersection(&rb).count().min(2)));
        let mut tlines: Vec<String> = vec![];
        let r = catch_unwind(AssertUnwindSafe(|| {
            let mut problems: Vec<String> = vec![];
            #[allow(unused_assignments)]
            let mut c03 = false;
            let chk = |name: &str, got: Vec<u64>, want: Vec<u64>, problems: &mut Vec<String>| {
                let mut g2 = got.clone();
                g2.sort_unstable();
                let dup = g2.windows(2).any(|w| w[0] == w[1]);
                if dup || g2 != want {
                    problems.push(format!("{name}: got {} elements (duplicates: {dup}), mathematical result has {}", got.len(), want.len()));
                }
            };
            // `size_hint` of the lazy set-operation iterators must bracket what they yield
            {
                let hint = |name: &str, h: (usize, Option<usize>), n: usize, problems: &mut Vec<String>| {
                    if h.0 > n || h.1.map_or(false, |x| x < n) {
                        problems.push(format!("{name}: size_hint() = {h:?} but the iterator yields {n}"));
                    }
                };
                hint("union", a.union(&b).size_hint(), ra.union(&rb).count(), &mut problems);
                hint("intersection", a.intersection(&b).size_hint(), ra.intersection(&rb).count(), &mut problems);
                hint("intersection (swapped)", b.intersection(&a).size_hint(), ra.intersection(&rb).count(), &mut problems);
                hint("difference", a.difference(&b).size_hint(), ra.difference(&rb).count(), &mut problems);
                hint("difference (swapped)", b.difference(&a).size_hint(), rb.difference(&ra).count(), &mut problems);
                hint("symmetric_difference", a.symmetric_difference(&b).size_hint(), ra.symmetric_difference(&rb).count(), &mut problems);
                hint("iter", a.iter().size_hint(), ra.len(), &mut problems);
            }
            // consuming a set (any phase): into_iter, and drain_filter with its size_hint
            {
                let mut log3 = vec![];
                let (c3, rc3) = build_set(&mut g, hk, universe, &mut log3);
                let it = c3.into_iter();
                if it.size_hint() != (rc3.len(), Some(rc3.len())) {
                    problems.push(format!("into_iter: size_hint() = {:?}, the set holds {}", it.size_hint(), rc3.len()));
                }
                chk("into_iter", it.map(|k| k.k()).collect(), rc3.iter().copied().collect(), &mut problems);
                let (mut c4, rc4) = build_set(&mut g, hk, universe, &mut log3);
                let want: Vec<u64> = rc4.iter().copied().filter(|k| k % 3 == 0).collect();
                let mut df = c4.drain_filter(|k| k.k() % 3 == 0);
                let h = df.size_hint();
                if h.0 > want.len() || h.1.map_or(false, |x| x < want.len()) {
                    problems.push(format!("drain_filter: size_hint() = {h:?} but {} elements match", want.len()));
                }
                let first = df.next().map(|k| k.k());
                drop(df);
                if first.is_some() != !want.is_empty() || c4.iter().any(|k| k.k() % 3 == 0) || c4.len() != rc4.len() - want.len() {
                    problems.push("drain_filter (set): dropped early, matching elements remain / wrong length".into());
                }
            }
            // a set against ITSELF (the same object on both sides): the mathematical answers, also for the empty set
            for (name, set, r) in [("a", &a, &ra), ("b", &b, &rb)] {
                let n = r.len();
                let sorted = |v: Vec<u64>| -> Vec<u64> { let mut v = v; v.sort_unstable(); v };
                let all: Vec<u64> = r.iter().copied().collect();
                if sorted(set.union(set).map(|k| k.k()).collect()) != all || sorted(set.intersection(set).map(|k| k.k()).collect()) != all
                    || set.difference(set).count() != 0 || set.symmetric_difference(set).count() != 0 {
                    problems.push(format!("{name} op {name}: union / intersection / difference / symmetric_difference of a set with itself"));
                }
                if !set.is_subset(set) || !set.is_superset(set) || !(set == set) || set.is_disjoint(set) != (n == 0) {
                    problems.push(format!("{name} vs itself ({n} elements): is_subset {} is_superset {} == {} is_disjoint {}", set.is_subset(set), set.is_superset(set), set == set, set.is_disjoint(set)));
                }
            }
            // the same adaptors, in lock-step with `GriddleModel/Set.lean`: what they yield, in order, as a function of
            // the two iteration sequences and lengths
            {
                let ks = |v: Vec<u64>| -> String { if v.is_empty() { "-".into() } else { v.iter().map(|x| x.to_string()).collect::<Vec<_>>().join(",") } };
                let ai: Vec<u64> = a.iter().map(|k| k.k()).collect();
                let bi: Vec<u64> = b.iter().map(|k| k.k()).collect();
                tlines.push(format!(
                    "setalg 0 | ai={} al={} bi={} bl={} | union={} inter={} diff={} symdiff={} disjoint={} subset={} superset={} eq={} panic=-",
                    ks(ai), a.len(), ks(bi), b.len(),
                    ks(a.union(&b).map(|k| k.k()).collect()),
                    ks(a.intersection(&b).map(|k| k.k()).collect()),
                    ks(a.difference(&b).map(|k| k.k()).collect()),
                    ks(a.symmetric_difference(&b).map(|k| k.k()).collect()),
                    a.is_disjoint(&b) as u8, a.is_subset(&b) as u8, a.is_superset(&b) as u8, (a == b) as u8
                ));
            }
            chk("union", a.union(&b).map(|k| k.k()).collect(), ra.union(&rb).copied().collect(), &mut problems);
            chk("union (swapped)", b.union(&a).map(|k| k.k()).collect(), ra.union(&rb).copied().collect(), &mut problems);
            chk("intersection", a.intersection(&b).map(|k| k.k()).collect(), ra.intersection(&rb).copied().collect(), &mut problems);
            chk("intersection (swapped)", b.intersection(&a).map(|k| k.k()).collect(), ra.intersection(&rb).copied().collect(), &mut problems);
            chk("difference", a.difference(&b).map(|k| k.k()).collect(), ra.difference(&rb).copied().collect(), &mut problems);
            chk("difference (swapped)", b.difference(&a).map(|k| k.k()).collect(), rb.difference(&ra).copied().collect(), &mut problems);
            chk("symmetric_difference", a.symmetric_difference(&b).map(|k| k.k()).collect(), ra.symmetric_difference(&rb).copied().collect(), &mut problems);
            chk("|", (&a | &b).iter().map(|k| k.k()).collect(), ra.union(&rb).copied().collect(), &mut problems);
            chk("&", (&a & &b).iter().map(|k| k.k()).collect(), ra.intersection(&rb).copied().collect(), &mut problems);
            chk("^", (&a ^ &b).iter().map(|k| k.k()).collect(), ra.symmetric_difference(&rb).copied().collect(), &mut problems);
            chk("-", (&a - &b).iter().map(|k| k.k()).collect(), ra.difference(&rb).copied().collect(), &mut problems);
            if a.is_subset(&b) != ra.is_subset(&rb) || b.is_subset(&a) != rb.is_subset(&ra) {
                problems.push("is_subset".into());
            }
            if a.is_superset(&b) != ra.is_superset(&rb) || b.is_superset(&a) != rb.is_superset(&ra) {
                problems.push("is_superset".into());
            }
            if a.is_disjoint(&b) != ra.is_disjoint(&rb) || b.is_disjoint(&a) != ra.is_disjoint(&rb) {
                problems.push("is_disjoint".into());
            }
            if (a == b) != (ra == rb) || (b == a) != (ra == rb) {
                problems.push("==".into());
            }
            // clone / clone_from of sets (any phase on both sides, different hasher seeds)
            {
                let c = a.clone();
                chk("clone", c.iter().map(|k| k.k()).collect(), ra.iter().copied().collect(), &mut problems);
                if !(c == a) || c.len() != a.len() {
                    problems.push("clone != original".into());
                }
                let mut d = b.clone();
                d.clone_from(&a);
                chk("clone_from", d.iter().map(|k| k.k()).collect(), ra.iter().copied().collect(), &mut problems);
                if !(d == a) || d.len() != ra.len() || ra.iter().any(|k| !d.contains(&Q(*k))) {
                    problems.push("clone_from: destination != source / lookups fail".into());
                }
                let mut e = a.clone();
                e.clone_from(&b);
                chk("clone_from (swapped)", e.iter().map(|k| k.k()).collect(), rb.iter().copied().collect(), &mut problems);
                if rb.iter().any(|k| !e.contains(&Q(*k))) || !(e == b) {
                    problems.push("clone_from (swapped): destination != source / lookups fail".into());
                }
            }
            // subset pairs: a and a ∩ b as a set
            let inter: S = {
                let mut s = S::with_hasher(VBuild { kind: hk, seed: 1 });
                for k in ra.intersection(&rb) {
                    s.insert(Key::new(*k));
                }
                s
            };
            if !inter.is_subset(&a) || !a.is_superset(&inter) || !inter.is_subset(&b) {
                problems.push("subset of an intersection".into());
            }
            // history of single-set operations on `a` (in lock-step with `SetOps`: insert, replace, remove, take, get,
            // get_or_insert, get_or_insert_with; after anything else the model adopts the set)
            tlines.push(format!("H id=set-{round} debug={} R=8 elem={} limit={} hasher=-", cfg!(debug_assertions) as u8, std::mem::size_of::<(Key, ())>(), alloc::LIMIT));
            tlines.push(set_sync(&a));
            for step in 0..60 {
                let k = g.below(universe + 5);
                // which OBJECT stands for each stored value: only `replace(k)` may exchange it (for `k`)
                let before: BTreeMap<u64, u64> = a.iter().map(|x| (x.k(), x.id)).collect();
                let opcode = g.below(14);
                let split_before = a.verif_state().old.is_some();
                match opcode {
                    0 | 1 => {
                        let key = Key::new(k);
                        let kid = key.id;
                        let mut cr = windowed(|| a.insert(key));
                        let got = cr.r.clone().unwrap_or(false);
                        tlines.push(set_line(format!("sinsert 0 {k} {kid}"), &a, &before, split_before, (got as u8).to_string(), cr.dh, cr.da, cr.df, &mut cr.dropped));
                        if cr.r.is_err() || got != ra.insert(k) { problems.push(format!("insert {k} @{step}")); }
                    }
                    2 => {
                        let key = Key::new(k);
                        let kid = key.id;
                        let mut cr = windowed(|| a.replace(key));
                        let old = cr.r.as_ref().ok().and_then(|x| x.as_ref()).map(|x| (x.k(), x.id));
                        tlines.push(set_line(format!("sreplace 0 {k} {kid}"), &a, &before, split_before, old.map_or("-".to_string(), |x| x.1.to_string()), cr.dh, cr.da, cr.df, &mut cr.dropped));
                        let want = if ra.contains(&k) { Some(k) } else { None };
                        ra.insert(k);
                        if cr.r.is_err() || old.map(|x| x.0) != want { problems.push(format!("replace {k}")); }
                    }
                    3 => {
                        let mut cr = windowed(|| a.remove(&Q(k)));
                        let got = cr.r.clone().unwrap_or(false);
                        tlines.push(set_line(format!("sremove 0 {k}"), &a, &before, split_before, (got as u8).to_string(), cr.dh, cr.da, cr.df, &mut cr.dropped));
                        if cr.r.is_err() || got != ra.remove(&k) { problems.push(format!("remove {k}")); }
                    }
                    4 => {
                        let mut cr = windowed(|| a.take(&Q(k)));
                        let got = cr.r.as_ref().ok().and_then(|x| x.as_ref()).map(|x| (x.k(), x.id));
                        tlines.push(set_line(format!("stake 0 {k}"), &a, &before, split_before, got.map_or("-".to_string(), |x| x.1.to_string()), cr.dh, cr.da, cr.df, &mut cr.dropped));
                        let want = if ra.remove(&k) { Some(k) } else { None };
                        if cr.r.is_err() || got.map(|x| x.0) != want { problems.push(format!("take {k}")); }
                    }
                    5 => {
                        let mut cr = windowed(|| a.get(&Q(k)).map(|x| (x.k(), x.id)));
                        let got = cr.r.clone().ok().flatten();
                        tlines.push(set_line(format!("sget 0 {k}"), &a, &before, split_before, got.map_or("-".to_string(), |x| x.1.to_string()), cr.dh, cr.da, cr.df, &mut cr.dropped));
                        if got.map(|x| x.0) != ra.get(&k).copied() { problems.push(format!("get {k}")); }
                    }
                    6 => {
                        let key = Key::new(k);
                        let kid = key.id;
                        let mut cr = windowed(|| { let r = a.get_or_insert(key); (r.k(), r.id) });
                        let got = cr.r.clone().unwrap_or((u64::MAX, 0));
                        tlines.push(set_line(format!("sgoi 0 {k} {kid} 0"), &a, &before, split_before, got.1.to_string(), cr.dh, cr.da, cr.df, &mut cr.dropped));
                        ra.insert(k);
                        if got.0 != k { problems.push(format!("get_or_insert {k}")); }
                    }
                    7 => {
                        let mut called = 0;
                        let kid = peek_next_id();
                        let mut cr = windowed(|| { let r = a.get_or_insert_with(&Q(k), |q| { called += 1; Key::new(q.0) }); (r.k(), r.id) });
                        let got = cr.r.clone().unwrap_or((u64::MAX, 0));
                        tlines.push(set_line(format!("sgoi 0 {k} {kid} 1"), &a, &before, split_before, got.1.to_string(), cr.dh, cr.da, cr.df, &mut cr.dropped));
                        let was = !ra.insert(k);
                        if got.0 != k { problems.push(format!("get_or_insert_with {k}")); }
                        if called != (!was) as u32 { problems.push(format!("get_or_insert_with {k} (present = {was}): closure called {called} times")); }
                    }
                    8 => {
                        if a.contains(&Q(k)) != ra.contains(&k) { problems.push(format!("contains {k}")); }
                    }
                    9 if a.verif_state().old.is_some() && g.chance(1, 3) => {
                        // take the parked elements out one by one, by value (`remove` or `take`, in lock-step): the call that
                        // takes the last one releases the old table
                        let mut ok = vec![];
                        a.verif_old_keys(usize::MAX, |x| ok.push(x.k()));
                        let by_take = g.chance(1, 2);
                        let had_parked = !ok.is_empty();
                        for kk in ok {
                            let before2: BTreeMap<u64, u64> = a.iter().map(|x| (x.k(), x.id)).collect();
                            if by_take {
                                let mut cr = windowed(|| a.take(&Q(kk)));
                                let got = cr.r.as_ref().ok().and_then(|x| x.as_ref()).map(|x| x.id);
                                tlines.push(set_line(format!("stake 0 {kk}"), &a, &before2, true, got.map_or("-".to_string(), |x| x.to_string()), cr.dh, cr.da, cr.df, &mut cr.dropped));
                            } else {
                                let mut cr = windowed(|| a.remove(&Q(kk)));
                                let got = cr.r.clone().unwrap_or(false);
                                tlines.push(set_line(format!("sremove 0 {kk}"), &a, &before2, true, (got as u8).to_string(), cr.dh, cr.da, cr.df, &mut cr.dropped));
                            }
                            ra.remove(&kk);
                        }
                        // (an old table that was already empty — emptied in place by retain — is not released by these calls)
                        if let (true, Some((0, ..))) = (had_parked, a.verif_state().old) {
                            problems.push(format!("{} took the last element out of the old table but the table is still allocated", if by_take { "take" } else { "remove" }));
                            c03 = true;
                            let _ = c03;
                        }
                    }
                    9 => {
                        if a.verif_state().old.is_some() && g.chance(1, 2) {
                            // reject exactly what is still in the old table (emptied in place), then fill up
                            let mut ok = vec![];
                            a.verif_old_keys(usize::MAX, |x| ok.push(x.k()));
                            a.retain(|x| !ok.contains(&x.k()));
                            ra.retain(|x| !ok.contains(x));
                            let room = a.capacity() - a.len().min(a.capacity());
                            for i in 0..(room as u64 + 3) {
                                let kk = universe + 100 + step as u64 * 1000 + i;
                                if a.insert(Key::new(kk)) != ra.insert(kk) { problems.push(format!("insert {kk} after retain")); }
                            }
                        } else {
                            let m = 2 + g.below(3);
                            a.retain(|x| x.k() % m != 0);
                            ra.retain(|x| x % m != 0);
                        }
                    }
                    10 => {
                        let m = 2 + g.below(3);
                        let mut got: Vec<u64> = a.drain_filter(|x| x.k() % m == 1).map(|x| x.k()).collect();
                        got.sort_unstable();
                        let want: Vec<u64> = ra.iter().copied().filter(|x| x % m == 1).collect();
                        ra.retain(|x| x % m != 1);
                        if got != want { problems.push("drain_filter".into()); }
                    }
                    11 => {
                        let items: Vec<u64> = (0..g.below(10)).map(|_| g.below(universe)).collect();
                        a.extend(items.iter().map(|k| Key::new(*k)));
                        ra.extend(items);
                    }
                    12 => {
                        if g.chance(1, 6) {
                            let mut got: Vec<u64> = a.drain().map(|x| x.k()).collect();
                            got.sort_unstable();
                            let want: Vec<u64> = ra.iter().copied().collect();
                            ra.clear();
                            if got != want { problems.push("drain".into()); }
                        } else if g.chance(1, 5) {
                            a.clear();
                            ra.clear();
                        }
                    }
                    _ => {
                        // capacity management through the set's own wrappers: never a panic, never a lost element, and
                        // `shrink_to(n)` with n above the capacity is a no-op
                        let cap0 = a.capacity();
                        match g.below(6) {
                            0 => a.reserve(g.below(60) as usize),
                            1 => { if a.try_reserve(g.below(60) as usize).is_err() { problems.push("try_reserve of a small amount failed".into()); } }
                            2 => a.shrink_to_fit(),
                            3 => a.shrink_to(cap0 + 1 + g.below(40) as usize),
                            4 => a.shrink_to(g.below(cap0 as u64 + 1) as usize),
                            _ => {
                                // a value computed by `f` that is NOT the probe (interning a normalised form): the set gains
                                // what `f` returned, filed under its own hash
                                let fresh = universe + 50_000 + step as u64;
                                let got = a.get_or_insert_with(&Q(universe + 90_000), |_| Key::new(fresh)).k();
                                ra.insert(fresh);
                                if got != fresh || !a.contains(&Q(fresh)) || a.get(&Q(fresh)).map(|x| x.k()) != Some(fresh) {
                                    problems.push(format!("get_or_insert_with whose closure returns another value ({fresh}): returned {got}, contains = {}", a.contains(&Q(fresh))));
                                }
                                if a.insert(Key::new(fresh)) {
                                    problems.push(format!("value {fresh} stored by get_or_insert_with was inserted a second time"));
                                }
                            }
                        }
                        if a.capacity() < a.len() { problems.push("capacity < len after a capacity call".into()); }
                    }
                }
                if opcode >= 8 {
                    tlines.push(set_sync(&a));
                }
                if a.len() != ra.len() || a.is_empty() != ra.is_empty() {
                    problems.push(format!("len {} vs {} @{step}", a.len(), ra.len()));
                }
                for x in a.iter() {
                    if let Some(id0) = before.get(&x.k()) {
                        if *id0 != x.id && !(opcode == 2 && x.k() == k) {
                            problems.push(format!("operation {opcode} on {k} exchanged the stored object of value {} (a value that is already present keeps its representative)", x.k()));
                            break;
                        }
                    }
                }
                let st = a.verif_state();
                if let Some((l, _, _, cur)) = st.old {
                    if l != cur { problems.push("cursor count".into()); }
                }
            }
            let mut got: Vec<u64> = a.iter().map(|x| x.k()).collect();
            got.sort_unstable();
            if got != ra.iter().copied().collect::<Vec<_>>() {
                problems.push("final contents".into());
            }
            problems
        }));
        rep.evaluations += 1;
        rep.transcript.append(&mut tlines);
        let problems = match r {
            Ok(p) => p,
            Err(_) => vec![format!("panic: {}", LAST_PANIC.with(|p| p.borrow().lines().last().unwrap_or("").to_string()))],
        };
        let an = take_anomalies();
        if problems.iter().any(|p| p.contains("but the table is still allocated")) {
            rep.fail("C03", problems.join("; "), log.join("\n"));
        }
        if problems.iter().any(|p| p.starts_with("panic:")) {
            // a set operation that panics: an undocumented panic (C01), and — the dev build being the only one that
            // stops there, if a debug assertion did it — a difference between the build profiles (C17); capacity calls: C10
            for p in ["C01", "C17", "C10", "C05"] {
                rep.fail(p, problems.join("; "), log.join("\n"));
            }
        }
        if !problems.is_empty() || !an.is_empty() {
            rep.fail("C13", format!("{} {}", problems.join("; "), an.join("; ")), log.join("\n"));
            if problems.iter().any(|p| p.starts_with("clone")) {
                rep.fail("C11", format!("(sets) {}", problems.join("; ")), log.join("\n"));
            }
        }
        if rep.samples.is_empty() {
            rep.samples.push(log.iter().take(30).cloned().collect::<Vec<_>>().join(" ; "));
        }
        drop(a);
        drop(b);
    }
}

// ------------------------------------------------------------------------------------------------
// rayon
fn par(rep: &mut Report, seed: u64, scale: u64) {
    use rayon::prelude::*;
    use std::sync::atomic::{AtomicU32, Ordering};
    type PM = HashMap<u64, u64, VBuild>;
    type PS = HashSet<u64, VBuild>;
    let pools: Vec<rayon::ThreadPool> = [1usize, 2, 3, 4, 8, 16].iter().map(|n| rayon::ThreadPoolBuilder::new().num_threads(*n).build().unwrap()).collect();
    let rounds = 40 * scale;
    for round in 0..rounds {
        let mut g = Rng::new(seed.wrapping_mul(9091).wrapping_add(round));
        let hk = *g.pick(&[HKind::Mul, HKind::Low, HKind::Mul]);
        let target = *g.pick(&[0u64, 1, 7, 14, 15, 20, 28, 29, 40, 57, 100, 113, 130, 300, 460, 1000]);
        let hseed = g.below(50);
        let variant = g.below(4);
        let rn = g.below(2000) as usize;
        let rm = g.below(10);
        let mut log = vec![format!("hasher {:?}", hk)];
        // the same construction can be repeated: destinations of par_extend must be mid-resize too,
        // and a clone never is
        let build = |log: Option<&mut Vec<String>>| -> PM {
            let mut m: PM = PM::with_hasher(VBuild { kind: hk, seed: hseed });
            for i in 0..target {
                m.insert(i * 3, i);
            }
            let mut l = vec![format!("insert 0,3,..  ({target} keys)")];
            match variant {
                0 => {
                    m.reserve(rn);
                    l.push(format!("reserve {rn}"));
                }
                1 => {
                    for i in 0..rm {
                        m.remove(&(i * 6));
                    }
                    l.push("remove a few".into());
                }
                _ => {}
            }
            if let Some(log) = log {
                log.extend(l);
            }
            m
        };
        let mut m = build(Some(&mut log));
        let split = m.verif_state().old.is_some();
        let seq: BTreeMap<u64, u64> = m.iter().map(|(k, v)| (*k, *v)).collect();
        let maxk = seq.keys().max().copied().unwrap_or(0) as usize + 1;
        for (pi, pool) in pools.iter().enumerate() {
            for rep_i in 0..3 {
                let counts: Vec<AtomicU32> = (0..maxk).map(|_| AtomicU32::new(0)).collect();
                let mut problems: Vec<String> = vec![];
                let r = catch_unwind(AssertUnwindSafe(|| {
                    pool.install(|| {
                        m.par_iter().for_each(|(k, v)| {
                            counts[*k as usize].fetch_add(1, Ordering::Relaxed);
                            assert_eq!(seq.get(k), Some(v));
                        });
                    });
                    let bad = (0..maxk).filter(|k| counts[*k].load(Ordering::Relaxed) != seq.contains_key(&(*k as u64)) as u32).count();
                    if bad > 0 {
                        problems.push(format!("par_iter: {bad} keys not visited exactly once"));
                    }
                    let mut ks: Vec<u64> = pool.install(|| m.par_keys().copied().collect());
                    ks.sort_unstable();
                    if ks != seq.keys().copied().collect::<Vec<_>>() {
                        problems.push("par_keys".into());
                    }
                    let mut vs: Vec<u64> = pool.install(|| m.par_values().copied().collect());
                    vs.sort_unstable();
                    let mut wv: Vec<u64> = seq.values().copied().collect();
                    wv.sort_unstable();
                    if vs != wv {
                        problems.push("par_values".into());
                    }
                    // std trait impls on the map as it is (possibly mid-resize): Debug of the map and of
                    // its iterators lists every entry once; Extend<(&K, &V)> equals Extend<(K, V)>
                    if pi == 0 && rep_i == 0 {
                        let dbg = format!("{:?}", m);
                        let inner = dbg.trim_start_matches('{').trim_end_matches('}');
                        let mut got: Vec<(u64, u64)> = inner.split(", ").filter(|x| !x.is_empty()).filter_map(|kv| {
                            let mut it = kv.split(": ");
                            Some((it.next()?.parse().ok()?, it.next()?.parse().ok()?))
                        }).collect();
                        got.sort_unstable();
                        if got != seq.iter().map(|(k, v)| (*k, *v)).collect::<Vec<_>>() {
                            problems.push(format!("debug: {{:?}} of the map lists {} entries, the map holds {}", got.len(), seq.len()));
                        }
                        let count = |s: String| if s == "[]" { 0 } else { s.matches(", ").count() + 1 };
                        if count(format!("{:?}", m.keys())) != seq.len() || count(format!("{:?}", m.values())) != seq.len() {
                            problems.push("debug: keys()/values() Debug does not list every entry once".into());
                        }
                        let mut x1 = build(None);
                        let mut x2 = build(None);
                        let extra: Vec<(u64, u64)> = (0..g.below(40)).map(|i| (i * 5 + 1, i + 7)).collect();
                        x1.extend(extra.iter().map(|(k, v)| (k, v)));
                        x2.extend(extra.iter().copied());
                        if x1 != x2 || x1.len() != x2.len() {
                            problems.push("extend_ref: Extend<(&K, &V)> differs from Extend<(K, V)>".into());
                        }
                        let d: PM = PM::default();
                        if !d.is_empty() || d.len() != 0 || d.iter().next().is_some() {
                            problems.push("debug: Default is not empty".into());
                        }
                    }
                    // mutate the map itself (it may be mid-resize; a clone never is), then undo
                    pool.install(|| m.par_iter_mut().for_each(|(_, v)| *v += 5));
                    if m.len() != seq.len() || !seq.iter().all(|(k, v)| m.get(k) == Some(&(v + 5))) {
                        problems.push("par_iter_mut did not touch each element exactly once".into());
                    }
                    pool.install(|| m.par_values_mut().for_each(|v| *v -= 5));
                    if m.len() != seq.len() || !seq.iter().all(|(k, v)| m.get(k) == Some(v)) {
                        problems.push("par_values_mut did not touch each element exactly once".into());
                    }
                    // par_extend / from_par_iter
                    let pairs: Vec<(u64, u64)> = (0..(g.below(300))).map(|i| (i * 2, i)).collect();
                    let mut e1 = build(None);
                    let mut e2 = build(None);
                    pool.install(|| e1.par_extend(pairs.clone()));
                    e2.extend(pairs.clone());
                    if e1 != e2 {
                        problems.push("par_extend differs from extend".into());
                    }
                    // duplicate keys: the later pair wins, exactly as with the sequential calls (lengths that
                    // are not powers of two make rayon's split tree lopsided)
                    let ndup = 1 + g.below(97) as usize;
                    let modulus = 1 + g.below(7);
                    let dups: Vec<(u64, u64)> = (0..ndup as u64).map(|i| (i % modulus, 1000 + i)).collect();
                    let mut d1 = build(None);
                    let mut d2 = build(None);
                    pool.install(|| d1.par_extend(dups.clone()));
                    d2.extend(dups.clone());
                    if d1 != d2 {
                        problems.push(format!("par_extend with duplicate keys differs from extend ({ndup} pairs over {modulus} keys)"));
                    }
                    // by reference, into a destination that already holds some of the keys (the later value wins, as with extend)
                    {
                        let over: Vec<(u64, u64)> = seq.keys().take(20).map(|k| (*k, 777)).chain((0..10u64).map(|i| (900_000 + i, i))).collect();
                        let mut b1 = build(None);
                        let mut b2 = build(None);
                        pool.install(|| b1.par_extend(over.par_iter().map(|(k, v)| (k, v))));
                        b2.extend(over.iter().map(|(k, v)| (k, v)));
                        if b1 != b2 || over.iter().any(|(k, v)| b1.get(k) != Some(v)) {
                            problems.push("par_extend from (&K, &V) over keys that are already there differs from extend (the later value must win)".into());
                        }
                        let mut t1: PS = PS::with_hasher(VBuild { kind: hk, seed: 3 });
                        let mut t2: PS = PS::with_hasher(VBuild { kind: hk, seed: 3 });
                        for k in seq.keys().take(30) { t1.insert(*k); t2.insert(*k); }
                        let ks: Vec<u64> = over.iter().map(|x| x.0).collect();
                        pool.install(|| t1.par_extend(ks.par_iter()));
                        t2.extend(ks.iter());
                        if t1 != t2 { problems.push("set par_extend from &T over elements that are already there differs from extend".into()); }
                    }
                    // … and into destinations that are EMPTY but have room (built with capacity, cleared, emptied in place by
                    // retain — possibly with an emptied old table still allocated), for maps and sets, owned and by reference
                    for shape in 0..4u8 {
                        let mk = |shape: u8| -> PM {
                            let mut d = PM::with_hasher(VBuild { kind: hk, seed: 2 });
                            match shape {
                                0 => d.reserve(ndup + 8),
                                1 => {
                                    for i in 0..(ndup as u64 + 20) { d.insert(50_000 + i, 0); }
                                    d.clear();
                                }
                                2 => {
                                    for i in 0..(ndup as u64 + 29) { d.insert(50_000 + i, 0); }
                                    d.retain(|_, _| false);
                                }
                                _ => {
                                    for i in 0..15u64 { d.insert(50_000 + i, 0); }
                                    d.reserve(ndup * 2 + 40);
                                    d.retain(|_, _| false);
                                }
                            }
                            d
                        };
                        let (mut x1, mut x2, mut x3, mut x4) = (mk(shape), mk(shape), mk(shape), mk(shape));
                        pool.install(|| x1.par_extend(dups.clone()));
                        x2.extend(dups.clone());
                        pool.install(|| x3.par_extend(dups.par_iter().map(|(k, v)| (k, v))));
                        x4.extend(dups.iter().map(|(k, v)| (k, v)));
                        if x1 != x2 || x1.len() != x2.len() || x1.iter().count() != x2.len() || x3 != x4 || x3.iter().count() != x4.len() {
                            problems.push(format!("par_extend with duplicate keys into an empty destination with room (shape {shape}) differs from extend: {} / {} entries vs {}", x1.len(), x3.len(), x2.len()));
                        }
                        let mks = |shape: u8| -> PS {
                            let mut d = PS::with_hasher(VBuild { kind: hk, seed: 2 });
                            match shape {
                                0 => d.reserve(ndup + 8),
                                1 => {
                                    for i in 0..(ndup as u64 + 20) { d.insert(50_000 + i); }
                                    d.clear();
                                }
                                _ => {
                                    for i in 0..(ndup as u64 + 29) { d.insert(50_000 + i); }
                                    d.retain(|_| false);
                                }
                            }
                            d
                        };
                        let (mut s1, mut s2) = (mks(shape), mks(shape));
                        let ks: Vec<u64> = dups.iter().map(|x| x.0).collect();
                        pool.install(|| s1.par_extend(ks.clone()));
                        s2.extend(ks.clone());
                        if s1 != s2 || s1.iter().count() != s2.len() {
                            problems.push(format!("set par_extend with repeated elements into an empty destination with room (shape {shape}): {} vs {}", s1.len(), s2.len()));
                        }
                    }
                    let g1: PM = pool.install(|| dups.clone().into_par_iter().collect());
                    let g2: PM = dups.iter().copied().collect();
                    if g1 != g2 {
                        problems.push(format!("from_par_iter with duplicate keys differs from from_iter ({ndup} pairs over {modulus} keys)"));
                    }
                    let f1: PM = pool.install(|| pairs.clone().into_par_iter().collect());
                    let f2: PM = pairs.iter().copied().collect();
                    if f1 != f2 {
                        problems.push("from_par_iter differs from from_iter".into());
                    }
                    // the same object on both sides, and values that are not equal to themselves (`par_eq` asks for
                    // `V: PartialEq` only): the parallel predicates answer what the sequential ones answer
                    {
                        if pool.install(|| m.par_eq(&m)) != (m == m) {
                            problems.push("par_eq of a map with itself".into());
                        }
                        let mut nan: HashMap<u64, f64, VBuild> = HashMap::with_hasher(VBuild { kind: hk, seed: 5 });
                        for (i, k) in seq.keys().enumerate() {
                            nan.insert(*k, if i == 0 { f64::NAN } else { i as f64 });
                        }
                        if split { nan.reserve(nan.len() + 9); }
                        let nc = nan.clone();
                        if pool.install(|| nan.par_eq(&nan)) != (nan == nan) || pool.install(|| nan.par_eq(&nc)) != (nan == nc) {
                            problems.push(format!("par_eq on a map holding a NaN: with itself {} (== says {}), with its clone {} (== says {})", pool.install(|| nan.par_eq(&nan)), nan == nan, pool.install(|| nan.par_eq(&nc)), nan == nc));
                        }
                    }
                    // par_eq
                    let mut other = m.clone();
                    if pool.install(|| m.par_eq(&other)) != (m == other) {
                        problems.push("par_eq (equal)".into());
                    }
                    if let Some(k) = seq.keys().next() {
                        *other.get_mut(k).unwrap() += 1;
                        if pool.install(|| m.par_eq(&other)) != (m == other) {
                            problems.push("par_eq (one value differs)".into());
                        }
                    }
                    // same length, one key replaced by another: not equal, whichever side is asked
                    if let Some(k) = seq.keys().next() {
                        let mut other2 = m.clone();
                        let v = other2.remove(k).unwrap();
                        other2.insert(*k + 1_000_003, v);
                        if pool.install(|| m.par_eq(&other2)) != (m == other2) || pool.install(|| other2.par_eq(&m)) || m == other2 {
                            problems.push("par_eq (same length, one key differs)".into());
                        }
                    }
                    // sets
                    let sa: PS = {
                        let mut s = PS::with_hasher(VBuild { kind: hk, seed: 3 });
                        for k in seq.keys() {
                            s.insert(*k);
                        }
                        if split { s.reserve(seq.len() * 2 + 10); }
                        s
                    };
                    let sb: PS = {
                        let mut s = PS::with_hasher(VBuild { kind: hk, seed: 4 });
                        for k in seq.keys().filter(|k| *k % 2 == 0) {
                            s.insert(*k);
                        }
                        for i in 0..10 { s.insert(10_000 + i); }
                        s
                    };
                    let cmp = |name: &str, mut got: Vec<u64>, mut want: Vec<u64>, problems: &mut Vec<String>| {
                        got.sort_unstable();
                        want.sort_unstable();
                        if got != want {
                            problems.push(format!("{name}: {} vs {}", got.len(), want.len()));
                        }
                    };
                    if pi == 0 && rep_i == 0 {
                        // sets: Debug lists every element once; Extend<&T> equals Extend<T>; the lazy
                        // set-operation iterators can be cloned and debug-printed mid-way
                        let dbg = format!("{:?}", sa);
                        let inner = dbg.trim_start_matches('{').trim_end_matches('}');
                        let mut got: Vec<u64> = inner.split(", ").filter_map(|x| x.parse().ok()).collect();
                        got.sort_unstable();
                        let mut want: Vec<u64> = sa.iter().copied().collect();
                        want.sort_unstable();
                        if got != want {
                            problems.push(format!("debug: {{:?}} of the set lists {} elements, it holds {}", got.len(), want.len()));
                        }
                        let extra: Vec<u64> = (0..g.below(40)).map(|i| i * 7 + 2).collect();
                        let mut y1 = sa.clone();
                        let mut y2 = sa.clone();
                        let mut y3 = { let mut t = PS::with_hasher(VBuild { kind: hk, seed: 3 }); for k in seq.keys() { t.insert(*k); } if split { t.reserve(seq.len() * 2 + 10); } t };
                        y1.extend(extra.iter());
                        y2.extend(extra.iter().copied());
                        y3.extend(extra.iter());
                        if y1 != y2 || y3 != y2 {
                            problems.push("extend_ref: Extend<&T> differs from Extend<T> (sets)".into());
                        }
                        let mut it = sa.union(&sb);
                        let _ = it.next();
                        let rest_a: Vec<u64> = it.clone().copied().collect();
                        let rest_b: Vec<u64> = it.copied().collect();
                        if rest_a != rest_b {
                            problems.push("debug: a cloned Union iterator continues differently".into());
                        }
                    }
                    cmp("par_union", pool.install(|| sa.par_union(&sb).copied().collect()), sa.union(&sb).copied().collect(), &mut problems);
                    cmp("par_intersection", pool.install(|| sa.par_intersection(&sb).copied().collect()), sa.intersection(&sb).copied().collect(), &mut problems);
                    cmp("par_difference", pool.install(|| sa.par_difference(&sb).copied().collect()), sa.difference(&sb).copied().collect(), &mut problems);
                    cmp("par_symmetric_difference", pool.install(|| sa.par_symmetric_difference(&sb).copied().collect()), sa.symmetric_difference(&sb).copied().collect(), &mut problems);
                    cmp("set par_iter", pool.install(|| sa.par_iter().copied().collect()), sa.iter().copied().collect(), &mut problems);
                    if pool.install(|| sa.par_is_subset(&sb)) != sa.is_subset(&sb) || pool.install(|| sb.par_is_subset(&sa)) != sb.is_subset(&sa) {
                        problems.push("par_is_subset".into());
                    }
                    if pool.install(|| sa.par_is_superset(&sb)) != sa.is_superset(&sb) {
                        problems.push("par_is_superset".into());
                    }
                    if pool.install(|| sa.par_is_disjoint(&sb)) != sa.is_disjoint(&sb) {
                        problems.push("par_is_disjoint".into());
                    }
                    if pool.install(|| sa.par_eq(&sb)) != (sa == sb) {
                        problems.push("set par_eq".into());
                    }
                    // a set against itself — the same object —, non-empty and empty (fresh, cleared, emptied in place by retain)
                    let mut empties: Vec<PS> = vec![PS::with_hasher(VBuild { kind: hk, seed: 3 })];
                    let mut e1 = sa.clone();
                    e1.clear();
                    empties.push(e1);
                    let mut e2 = sa.clone();
                    e2.reserve(sa.len() + 30);
                    e2.retain(|_| false);
                    empties.push(e2);
                    for (i, x) in std::iter::once(&sa).chain(empties.iter()).enumerate() {
                        let par = pool.install(|| (x.par_is_disjoint(x), x.par_is_subset(x), x.par_is_superset(x), x.par_eq(x)));
                        let sq = (x.is_disjoint(x), x.is_subset(x), x.is_superset(x), x == x);
                        let pu: Vec<u64> = pool.install(|| x.par_union(x).copied().collect());
                        let pd: Vec<u64> = pool.install(|| x.par_difference(x).copied().collect());
                        let px: Vec<u64> = pool.install(|| x.par_symmetric_difference(x).copied().collect());
                        if par != sq || sq != (x.is_empty(), true, true, true) || pu.len() != x.len() || !pd.is_empty() || !px.is_empty() {
                            problems.push(format!("a set ({} elements, case {i}) against itself: parallel (disjoint, subset, superset, eq) = {par:?}, sequential = {sq:?}", x.len()));
                        }
                    }
                }));
                rep.evaluations += 1;
                if r.is_err() {
                    problems.push(format!("panic: {}", LAST_PANIC.with(|p| p.borrow().lines().last().unwrap_or("").to_string())));
                }
                rep.tuples.insert(format!("pool{pi} split{split} size{}", (target as f64).log2() as u32));
                if !problems.is_empty() {
                    rep.fail("C15", format!("threads={} run={rep_i}: {}", [1, 2, 3, 4, 8, 16][pi], problems.join("; ")), log.join("\n"));
                    if problems.iter().any(|p| p.contains("par_eq") || p.starts_with("debug:")) {
                        rep.fail("C14", format!("(rayon) {}", problems.join("; ")), log.join("\n"));
                    }
                    if problems.iter().any(|p| p.contains("(sets)") || p.contains("of the set") || p.contains("Union iterator")) {
                        rep.fail("C13", format!("(traits) {}", problems.join("; ")), log.join("\n"));
                    }
                    if problems.iter().any(|p| p.starts_with("extend_ref")) {
                        rep.fail("C01", format!("(traits) {}", problems.join("; ")), log.join("\n"));
                    }
                }
            }
        }
        if rep.samples.is_empty() {
            rep.samples.push(log.join(" ; "));
        }
    }
    rep.bump("pools", 6);
}

// ------------------------------------------------------------------------------------------------
// serde
mod mini_de {
    //! a deserializer over a plain sequence of u64 (or u64 pairs), enough for `deserialize_in_place`
    use serde::de::{self, DeserializeSeed, Deserializer, MapAccess, SeqAccess, Visitor};
    #[derive(Debug)]
    pub struct E(pub String);
    impl std::fmt::Display for E {
        fn fmt(&self, f: &mut std::fmt::Formatter<'_>) -> std::fmt::Result {
            write!(f, "{}", self.0)
        }
    }
    impl std::error::Error for E {}
    impl de::Error for E {
        fn custom<T: std::fmt::Display>(m: T) -> Self {
            E(m.to_string())
        }
    }
    pub struct U(pub u64);
    impl<'de> Deserializer<'de> for U {
        type Error = E;
        fn deserialize_any<V: Visitor<'de>>(self, v: V) -> Result<V::Value, E> {
            v.visit_u64(self.0)
        }
        serde::forward_to_deserialize_any! { bool i8 i16 i32 i64 i128 u8 u16 u32 u64 u128 f32 f64 char str string bytes byte_buf option unit unit_struct newtype_struct seq tuple tuple_struct map struct enum identifier ignored_any }
    }
    pub struct Seq {
        pub items: Vec<u64>,
        pub hint: Option<usize>,
    }
    struct SA {
        it: std::vec::IntoIter<u64>,
        hint: Option<usize>,
    }
    impl<'de> SeqAccess<'de> for SA {
        type Error = E;
        fn next_element_seed<T: DeserializeSeed<'de>>(&mut self, seed: T) -> Result<Option<T::Value>, E> {
            match self.it.next() {
                Some(x) => seed.deserialize(U(x)).map(Some),
                None => Ok(None),
            }
        }
        fn size_hint(&self) -> Option<usize> {
            self.hint
        }
    }
    impl<'de> Deserializer<'de> for Seq {
        type Error = E;
        fn deserialize_any<V: Visitor<'de>>(self, v: V) -> Result<V::Value, E> {
            v.visit_seq(SA { it: self.items.into_iter(), hint: self.hint })
        }
        serde::forward_to_deserialize_any! { bool i8 i16 i32 i64 i128 u8 u16 u32 u64 u128 f32 f64 char str string bytes byte_buf option unit unit_struct newtype_struct seq tuple tuple_struct map struct enum identifier ignored_any }
    }
    /// a sequence of `n` unit values (zero-sized elements)
    pub struct Units {
        pub n: usize,
        pub hint: Option<usize>,
    }
    pub struct UnitD;
    impl<'de> Deserializer<'de> for UnitD {
        type Error = E;
        fn deserialize_any<V: Visitor<'de>>(self, v: V) -> Result<V::Value, E> {
            v.visit_unit()
        }
        serde::forward_to_deserialize_any! { bool i8 i16 i32 i64 i128 u8 u16 u32 u64 u128 f32 f64 char str string bytes byte_buf option unit unit_struct newtype_struct seq tuple tuple_struct map struct enum identifier ignored_any }
    }
    struct UA {
        left: usize,
        hint: Option<usize>,
    }
    impl<'de> SeqAccess<'de> for UA {
        type Error = E;
        fn next_element_seed<T: DeserializeSeed<'de>>(&mut self, seed: T) -> Result<Option<T::Value>, E> {
            if self.left == 0 {
                return Ok(None);
            }
            self.left -= 1;
            seed.deserialize(UnitD).map(Some)
        }
        fn size_hint(&self) -> Option<usize> {
            self.hint
        }
    }
    impl<'de> Deserializer<'de> for Units {
        type Error = E;
        fn deserialize_any<V: Visitor<'de>>(self, v: V) -> Result<V::Value, E> {
            v.visit_seq(UA { left: self.n, hint: self.hint })
        }
        serde::forward_to_deserialize_any! { bool i8 i16 i32 i64 i128 u8 u16 u32 u64 u128 f32 f64 char str string bytes byte_buf option unit unit_struct newtype_struct seq tuple tuple_struct map struct enum identifier ignored_any }
    }
    pub struct Map {
        pub items: Vec<(u64, u64)>,
        pub hint: Option<usize>,
    }
    struct MA {
        it: std::vec::IntoIter<(u64, u64)>,
        cur: Option<u64>,
        hint: Option<usize>,
    }
    impl<'de> MapAccess<'de> for MA {
        type Error = E;
        fn next_key_seed<K: DeserializeSeed<'de>>(&mut self, seed: K) -> Result<Option<K::Value>, E> {
            match self.it.next() {
                Some((k, v)) => {
                    self.cur = Some(v);
                    seed.deserialize(U(k)).map(Some)
                }
                None => Ok(None),
            }
        }
        fn next_value_seed<V: DeserializeSeed<'de>>(&mut self, seed: V) -> Result<V::Value, E> {
            seed.deserialize(U(self.cur.take().unwrap()))
        }
        fn size_hint(&self) -> Option<usize> {
            self.hint
        }
    }
    impl<'de> Deserializer<'de> for Map {
        type Error = E;
        fn deserialize_any<V: Visitor<'de>>(self, v: V) -> Result<V::Value, E> {
            v.visit_map(MA { it: self.items.into_iter(), cur: None, hint: self.hint })
        }
        serde::forward_to_deserialize_any! { bool i8 i16 i32 i64 i128 u8 u16 u32 u64 u128 f32 f64 char str string bytes byte_buf option unit unit_struct newtype_struct seq tuple tuple_struct map struct enum identifier ignored_any }
    }
}

fn serde_slice(rep: &mut Report, seed: u64, scale: u64) {
    use serde::Deserialize;
    use serde_test::Token;
    type PM = HashMap<u64, u64, VBuild>;
    type PS = HashSet<u64, VBuild>;
    let rounds = 300 * scale;
    // zero-sized element types: every phase a one-element collection can be in
    {
        type ZS = HashSet<(), VBuild>;
        let mut problems: Vec<String> = vec![];
        for phase in 0..6u8 {
            let build = || -> ZS {
                let mut s = ZS::with_hasher(VBuild::default());
                match phase {
                    0 => {}
                    1 => { s.insert(()); }
                    2 => { s.insert(()); s.reserve(10); }
                    3 => { s.insert(()); s.reserve(10); s.retain(|_| false); }
                    4 => { s.reserve(5); }
                    _ => { s.insert(()); s.reserve(10); s.insert(()); }
                }
                s
            };
            let r = catch_unwind(AssertUnwindSafe(|| {
                let s = build();
                let mut tok = vec![Token::Seq { len: Some(s.len()) }];
                for _ in s.iter() {
                    tok.push(Token::Unit);
                }
                tok.push(Token::SeqEnd);
                serde_test::assert_ser_tokens(&s, &tok);
                serde_test::assert_de_tokens(&s, &tok);
                for hint in [None, Some(s.len()), Some(0), Some(1 << 40)] {
                    let d = ZS::deserialize(mini_de::Units { n: s.len(), hint }).unwrap();
                    assert!(d == s, "deserialized HashSet<()> differs");
                    for n in [0usize, 1, 3] {
                        let mut dst = build();
                        ZS::deserialize_in_place(mini_de::Units { n, hint }, &mut dst).unwrap();
                        assert_eq!(dst.len(), n.min(1), "deserialize_in_place into HashSet<()>");
                        assert_eq!(dst.iter().count(), n.min(1));
                    }
                }
                // maps with a zero-sized key, value, or both
                let mut a: HashMap<(), (), VBuild> = HashMap::with_hasher(VBuild::default());
                let mut b: HashMap<(), u8, VBuild> = HashMap::with_hasher(VBuild::default());
                let mut c: HashMap<u8, (), VBuild> = HashMap::with_hasher(VBuild::default());
                if phase % 2 == 1 {
                    a.insert((), ());
                    b.insert((), 7);
                    for i in 0..(phase * 5) {
                        c.insert(i, ());
                    }
                }
                if phase >= 2 {
                    a.reserve(9);
                    b.reserve(9);
                    c.reserve(30);
                }
                let mut ta = vec![Token::Map { len: Some(a.len()) }];
                for _ in a.iter() {
                    ta.push(Token::Unit);
                    ta.push(Token::Unit);
                }
                ta.push(Token::MapEnd);
                serde_test::assert_tokens(&a, &ta);
                let mut tb = vec![Token::Map { len: Some(b.len()) }];
                for (_, v) in b.iter() {
                    tb.push(Token::Unit);
                    tb.push(Token::U8(*v));
                }
                tb.push(Token::MapEnd);
                serde_test::assert_tokens(&b, &tb);
                let mut tc = vec![Token::Map { len: Some(c.len()) }];
                for (k, _) in c.iter() {
                    tc.push(Token::U8(*k));
                    tc.push(Token::Unit);
                }
                tc.push(Token::MapEnd);
                serde_test::assert_tokens(&c, &tc);
            }));
            rep.evaluations += 1;
            rep.tuples.insert(format!("zst phase{phase}"));
            if r.is_err() {
                problems.push(format!("zero-sized elements, phase {phase}: {}", LAST_PANIC.with(|p| p.borrow().lines().last().unwrap_or("").to_string())));
            }
        }
        if !problems.is_empty() {
            rep.fail("C16", problems.join("; "), "HashSet<()> / HashMap<(),()> / HashMap<(),u8> / HashMap<u8,()> round trips; phases: 0 empty, 1 one element, 2 parked by reserve, 3 emptied in place, 4 reserved empty, 5 moved".into());
        }
    }
    // collections larger than the 4096 elements the visitors pre-allocate at most
    {
        let mut problems: Vec<String> = vec![];
        for n in [4095u64, 4096, 4097, 5000, 9001] {
            for hint in [None, Some(n as usize), Some(4096), Some(n as usize * 2)] {
                let r = catch_unwind(AssertUnwindSafe(|| {
                    let items: Vec<(u64, u64)> = (0..n).map(|i| (i * 7 + 1, i)).collect();
                    let d: PM = PM::deserialize(mini_de::Map { items: items.clone(), hint }).unwrap();
                    assert_eq!(d.len(), n as usize, "map of {n} elements, hint {hint:?}");
                    assert!(items.iter().all(|(k, v)| d.get(k) == Some(v)));
                    let keys: Vec<u64> = items.iter().map(|x| x.0).collect();
                    let s: PS = PS::deserialize(mini_de::Seq { items: keys.clone(), hint }).unwrap();
                    assert_eq!(s.len(), n as usize, "set of {n} elements, hint {hint:?}");
                    let mut dst: PS = PS::with_hasher(VBuild::default());
                    for i in 0..29 { dst.insert(1_000_000 + i); }
                    PS::deserialize_in_place(mini_de::Seq { items: keys, hint }, &mut dst).unwrap();
                    assert_eq!(dst.len(), n as usize, "set of {n} elements in place, hint {hint:?}");
                }));
                rep.evaluations += 1;
                if r.is_err() {
                    problems.push(format!("{n} elements, hint {hint:?}: {}", LAST_PANIC.with(|p| p.borrow().lines().last().unwrap_or("").to_string())));
                }
            }
        }
        if !problems.is_empty() {
            rep.fail("C16", problems.join("; "), "deserialising 4095 … 9001 distinct elements under honest, absent, capped and overstated hints".into());
        }
    }
    for round in 0..rounds {
        let mut g = Rng::new(seed.wrapping_mul(4241).wrapping_add(round));
        let hk = *g.pick(&[HKind::Mul, HKind::Low]);
        let mk = |g: &mut Rng, log: &mut Vec<String>| -> PM {
            let mut m = PM::with_hasher(VBuild { kind: hk, seed: 0 });
            let target = *g.pick(&[0u64, 1, 3, 7, 14, 15, 16, 28, 29, 40, 57, 100, 115]);
            for i in 0..target {
                m.insert(i * 5 + g.below(3), i);
            }
            log.push(format!("{target} inserts"));
            match g.below(4) {
                0 => {
                    let n = g.below(300) as usize;
                    m.reserve(n);
                    log.push(format!("reserve {n}"));
                }
                1 => {
                    let ks: Vec<u64> = m.keys().copied().take(5).collect();
                    for k in ks {
                        m.remove(&k);
                    }
                    log.push("5 removals".into());
                }
                _ => {}
            }
            m
        };
        let mut log = vec![];
        let m = mk(&mut g, &mut log);
        let split = m.verif_state().old.is_some();
        rep.tuples.insert(format!("split{split} len{}", m.len().min(4)));
        let mut problems: Vec<String> = vec![];
        let r = catch_unwind(AssertUnwindSafe(|| {
            // serialization: exact length, then each element once in iteration order
            let mut tokens = vec![Token::Map { len: Some(m.len()) }];
            for (k, v) in m.iter() {
                tokens.push(Token::U64(*k));
                tokens.push(Token::U64(*v));
            }
            tokens.push(Token::MapEnd);
            serde_test::assert_ser_tokens(&m, &tokens);
            // round trip through Deserialize (and serde_test's own deserialize_in_place pass)
            serde_test::assert_de_tokens(&m, &tokens);
            let s: PS = {
                let mut s = PS::with_hasher(VBuild { kind: hk, seed: 0 });
                for k in m.keys() {
                    s.insert(*k);
                }
                if split {
                    s.reserve(2 * s.len() + 8);
                }
                s
            };
            let mut stok = vec![Token::Seq { len: Some(s.len()) }];
            for k in s.iter() {
                stok.push(Token::U64(*k));
            }
            stok.push(Token::SeqEnd);
            serde_test::assert_ser_tokens(&s, &stok);
            serde_test::assert_de_tokens(&s, &stok);
        }));
        if r.is_err() {
            problems.push(format!("serialize/deserialize tokens: {}", LAST_PANIC.with(|p| p.borrow().lines().last().unwrap_or("").to_string())));
        }
        // a stream is not a map: keys may repeat in it (definite-length msgpack / CBOR maps, crafted input), whatever
        // the hint says; deserialising is then a fold of `insert` — the last value of a key wins, once
        {
            let mut stream: Vec<(u64, u64)> = m.iter().map(|(k, v)| (*k, *v)).collect();
            let n0 = stream.len();
            for i in 0..(n0 / 3 + 2) {
                let k = if n0 > 0 && g.chance(2, 3) { stream[g.below(n0 as u64) as usize].0 } else { 5000 + (i as u64 % 3) };
                let at = g.below(stream.len() as u64 + 1) as usize;
                stream.insert(at, (k, 900 + i as u64));
            }
            let mut want: BTreeMap<u64, u64> = BTreeMap::new();
            for (k, v) in &stream {
                want.insert(*k, *v);
            }
            for hint in [None, Some(stream.len()), Some(want.len()), Some(1), Some(1 << 40)] {
                let r = catch_unwind(AssertUnwindSafe(|| {
                    let d: PM = PM::deserialize(mini_de::Map { items: stream.clone(), hint }).unwrap();
                    let mut got: Vec<(u64, u64)> = d.iter().map(|(k, v)| (*k, *v)).collect();
                    got.sort_unstable();
                    let w: Vec<(u64, u64)> = want.iter().map(|(k, v)| (*k, *v)).collect();
                    assert_eq!(d.len(), want.len(), "len() after deserialising a stream with repeated keys");
                    assert_eq!(got, w, "a stream with repeated keys must deserialise like a fold of insert");
                    for (k, v) in &want {
                        assert_eq!(d.get(k), Some(v), "get after deserialising a stream with repeated keys");
                    }
                    let keys: Vec<u64> = stream.iter().map(|x| x.0).collect();
                    let ds: PS = PS::deserialize(mini_de::Seq { items: keys.clone(), hint }).unwrap();
                    assert_eq!(ds.len(), want.len(), "set: len() after deserialising a sequence with repeated elements");
                    assert_eq!(ds.iter().count(), want.len());
                    let mut dst: PS = PS::with_hasher(VBuild { kind: hk, seed: 9 });
                    dst.insert(77);
                    dst.reserve(30);
                    PS::deserialize_in_place(mini_de::Seq { items: keys, hint }, &mut dst).unwrap();
                    assert_eq!(dst.len(), want.len(), "set (in place): len() after a sequence with repeated elements");
                    assert!(want.keys().all(|k| dst.contains(k)) && !dst.contains(&77) || want.contains_key(&77));
                }));
                rep.evaluations += 1;
                if r.is_err() {
                    problems.push(format!("repeated keys, hint {hint:?}: {}", LAST_PANIC.with(|p| p.borrow().lines().last().unwrap_or("").to_string())));
                }
            }
        }
        // own deserializer: lying and honest size hints, arbitrary destination for deserialize_in_place
        let items: Vec<(u64, u64)> = m.iter().map(|(k, v)| (*k, *v)).collect();
        for hint in [None, Some(items.len()), Some(0), Some(1 << 40)] {
            let r = catch_unwind(AssertUnwindSafe(|| {
                let d: PM = PM::deserialize(mini_de::Map { items: items.clone(), hint }).unwrap();
                assert!(d == m, "deserialized map differs");
                let keys: Vec<u64> = items.iter().map(|x| x.0).collect();
                let mut log2 = vec![];
                let dst_m = mk(&mut g, &mut log2);
                let mut dst: PS = PS::with_hasher(VBuild { kind: hk, seed: 9 });
                for k in dst_m.keys() {
                    dst.insert(*k + 1_000_000);
                }
                if g.chance(1, 2) {
                    dst.reserve(2 * dst.len() + 5);
                }
                PS::deserialize_in_place(mini_de::Seq { items: keys.clone(), hint }, &mut dst).unwrap();
                let mut got: Vec<u64> = dst.iter().copied().collect();
                got.sort_unstable();
                let mut want = keys.clone();
                want.sort_unstable();
                want.dedup();
                assert_eq!(got, want, "deserialize_in_place did not replace the previous contents exactly");
                assert!(want.iter().all(|k| dst.contains(k) && dst.get(k) == Some(k)), "deserialize_in_place: an element that is iterated is not found by lookup");
                assert!(want.iter().take(3).all(|k| !dst.insert(*k)), "deserialize_in_place: an element that is there could be inserted again");
                let d2: PS = PS::deserialize(mini_de::Seq { items: keys, hint }).unwrap();
                assert_eq!(d2.len(), want.len());
            }));
            rep.evaluations += 1;
            if r.is_err() {
                problems.push(format!("hint {hint:?}: {}", LAST_PANIC.with(|p| p.borrow().lines().last().unwrap_or("").to_string())));
            }
        }
        if !problems.is_empty() {
            rep.fail("C16", problems.join("; "), log.join("\n"));
        }
        if rep.samples.is_empty() {
            rep.samples.push(log.join(" ; "));
        }
    }
}

// ------------------------------------------------------------------------------------------------
// fault injection: a panic at each individual invocation of each user callback of each operation
type FM = HashMap<Key, Val, VBuild>;

fn fbuild(g: &mut Rng, hk: HKind, log: &mut Vec<String>) -> FM {
    let mut m: FM = FM::with_hasher(VBuild { kind: hk, seed: g.below(50) });
    let n = *g.pick(&[3u64, 4, 7, 8, 14, 15, 16, 20, 28, 29, 33, 40, 57, 60]);
    for i in 0..n {
        m.insert(Key::new(i), Val::new(i + 100));
    }
    log.push(format!("{n} inserts"));
    for _ in 0..g.below(4) {
        let k = g.below(n);
        m.remove(&Q(k));
        log.push(format!("remove {k}"));
    }
    if g.chance(1, 4) {
        let r = g.below(100) as usize;
        m.reserve(r);
        log.push(format!("reserve {r}"));
        if g.chance(1, 2) {
            m.insert(Key::new(500), Val::new(600));
            log.push("insert 500".into());
        }
    }
    // the tightest headroom there is: shrink while a resize is pending
    if m.verif_state().old.is_some() && g.chance(1, 3) {
        m.shrink_to_fit();
        log.push("shrink_to_fit".into());
    }
    m
}
/// slack of the headroom invariant: free budget of the main table minus what moving the rest of the
/// old table needs (`L + ceil(L/R)`); 0 is the tightest state a history can rest in
fn slack(m: &FM) -> Option<i64> {
    let st = m.verif_state();
    let (l, ..) = st.old?;
    Some((st.main_cap - st.main_len) as i64 - (l + (l + st.r - 1) / st.r) as i64)
}
/// A map resting mid-resize with no slack at all: grow by `reserve`, move one batch, `shrink_to_fit`.
/// (Found by trying sizes; which sizes work follows from the bucket rounding, see C04.)
fn ftight_build(hk: HKind, rc: (u64, u64, usize, u64)) -> FM {
    let (hseed, n, r, extra) = rc;
    let mut m: FM = FM::with_hasher(VBuild { kind: hk, seed: hseed });
    for i in 0..n {
        m.insert(Key::new(i), Val::new(i + 100));
    }
    let r = m.capacity() - m.len() + r;
    m.reserve(r);
    for i in 0..extra {
        m.insert(Key::new(500 + i), Val::new(600));
    }
    m.shrink_to_fit();
    m
}
fn ftight_find(g: &mut Rng, hk: HKind) -> Option<(u64, u64, usize, u64)> {
    for _ in 0..400 {
        let rc = (g.below(50), 9 + g.below(140), 1 + g.below(3) as usize, 1 + g.below(3));
        let m = ftight_build(hk, rc);
        if slack(&m) == Some(0) {
            return Some(rc);
        }
    }
    None
}
fn snapshot(m: &FM) -> BTreeMap<u64, (u64, u64)> {
    m.iter().map(|(k, v)| (k.k(), (v.v, v.id))).collect()
}
fn consistent(m: &FM) -> Result<(), String> {
    let mut seen = BTreeSet::new();
    let mut n = 0;
    for (k, v) in m.iter() {
        k.check("iter");
        v.check("iter");
        if !seen.insert(k.k()) {
            return Err(format!("key {} iterated twice", k.k()));
        }
        n += 1;
    }
    if n != m.len() {
        return Err(format!("len() = {} but {} entries iterated", m.len(), n));
    }
    let snap = snapshot(m);
    for (k, (v, id)) in &snap {
        match m.get(&Q(*k)) {
            Some(x) if x.v == *v && x.id == *id => {}
            _ => return Err(format!("iterated key {k} not found by get")),
        }
    }
    let st = m.verif_state();
    if let Some((l, _, _, cur)) = st.old {
        if l != cur {
            return Err(format!("cached iterator expects {cur} elements, old table holds {l}"));
        }
    }
    if m.capacity() < m.len() {
        return Err("capacity < len".into());
    }
    Ok(())
}

fn fault(rep: &mut Report, seed: u64, scale: u64) {
    let opnames = ["insert", "remove", "retain", "drain_filter", "or_insert_with", "and_modify", "replace_entry_with", "reserve", "shrink_to_fit", "clone", "clone_from", "extend", "raw and_replace_entry_with", "get", "eq", "entry insert"];
    let states = 40 * scale;
    for st_i in 0..states {
        // every fourth state rests mid-resize with no headroom to spare
        let tight = if st_i % 4 == 3 {
            reset_ids();
            let mut g = Rng::new(seed.wrapping_mul(31337).wrapping_add(st_i * 17 + 5));
            let hk = *g.pick(&[HKind::Mul, HKind::Low, HKind::Mul]);
            let t = ftight_find(&mut g, hk);
            rep.bump("tight_states", t.is_some() as u64);
            t
        } else {
            None
        };
        for op in 0..opnames.len() {
            for kinds in [HASH, EQ, CLONE, CLOSURE, HASH | EQ | CLONE | CLOSURE, DROP] {
                // a panicking destructor: only where the element is dropped by the map itself
                if kinds == DROP && !matches!(op, 2 | 3) {
                    continue;
                }
                let mut idx = 0i64;
                loop {
                    reset_ids();
                    let mut g = Rng::new(seed.wrapping_mul(31337).wrapping_add(st_i * 17 + 5));
                    let hk = *g.pick(&[HKind::Mul, HKind::Low, HKind::Mul]);
                    let mut log = vec![format!("hasher {:?}", hk)];
                    let mut m = match tight {
                        Some(rc) => {
                            log.push(format!("{} inserts; reserve capacity-len+{}; insert 500..{}; shrink_to_fit (headroom slack 0)", rc.1, rc.2, 500 + rc.3));
                            ftight_build(hk, rc)
                        }
                        None => fbuild(&mut g, hk, &mut log),
                    };
                    let mut log_src = vec![];
                    let src = fbuild(&mut g, hk, &mut log_src);
                    let before = snapshot(&m);
                    let before_src = snapshot(&src);
                    let k = if tight.is_some() && g.chance(1, 2) { 1000 + g.below(70) } else { g.below(70) };
                    let phase = m.verif_state().old.is_some();
                    log.push(format!("then {} (key {k}) with a panic injected at callback #{idx} of kinds {kinds:#x}", opnames[op]));
                    rep.about_to(&format!("{}\n-- second map (source): {}", log.join("\n"), log_src.join("; ")));
                    arm_fuse(idx, kinds);
                    let r = catch_unwind(AssertUnwindSafe(|| match op {
                        0 => {
                            m.insert(Key::new(k), Val::new(1));
                        }
                        1 => {
                            m.remove(&Q(k));
                        }
                        2 => m.retain(|k, v| {
                            tick(CLOSURE);
                            v.v += 1;
                            k.k() % 3 != 0
                        }),
                        3 => {
                            let mut d = m.drain_filter(|k, _| {
                                tick(CLOSURE);
                                k.k() % 2 == 0
                            });
                            // yield a few, then drop the rest unvisited
                            for _ in 0..(k % 3) {
                                let _ = d.next();
                            }
                            drop(d);
                        }
                        4 => {
                            m.entry(Key::new(k)).or_insert_with(|| {
                                tick(CLOSURE);
                                Val::new(2)
                            });
                        }
                        5 => {
                            let _ = m.entry(Key::new(k)).and_modify(|v| {
                                tick(CLOSURE);
                                v.v += 1;
                            });
                        }
                        6 => {
                            if let Entry::Occupied(o) = m.entry(Key::new(k)) {
                                let _ = o.replace_entry_with(|_, v| {
                                    tick(CLOSURE);
                                    if v.v % 2 == 0 { Some(v) } else { None }
                                });
                            }
                        }
                        7 => m.reserve(k as usize * 3),
                        8 => m.shrink_to_fit(),
                        9 => {
                            let c = m.clone();
                            drop(c);
                        }
                        10 => m.clone_from(&src),
                        11 => m.extend((0..10).map(|i| (Key::new(i + k), Val::new(3)))),
                        12 => {
                            let _ = m.raw_entry_mut().from_key(&Q(k)).and_replace_entry_with(|_, v| {
                                tick(CLOSURE);
                                if v.v % 2 == 1 { Some(v) } else { None }
                            });
                        }
                        13 => {
                            let _ = m.get(&Q(k));
                        }
                        14 => {
                            let _ = m == src;
                        }
                        _ => {
                            let _ = m.entry(Key::new(k)).insert(Val::new(4));
                        }
                    }));
                    let fired = fuse_fired();
                    disarm_fuse();
                    rep.evaluations += 1;
                    let mut problems: Vec<String> = vec![];
                    if let Err(_) = &r {
                        rep.bump("panics_injected", 1);
                        if !fired {
                            problems.push(format!("a panic that was not the injected one: {}", LAST_PANIC.with(|p| p.borrow().lines().last().unwrap_or("").to_string())));
                        }
                        rep.tuples.insert(format!("{} kinds{kinds} split{phase}", opnames[op]));
                    }
                    if let Err(e) = consistent(&m) {
                        problems.push(format!("after the caught panic the map is inconsistent: {e}"));
                    }
                    if let Err(e) = consistent(&src) {
                        problems.push(format!("the source map is inconsistent: {e}"));
                    }
                    if snapshot(&src) != before_src {
                        problems.push("the source of clone/clone_from/eq changed".into());
                    }
                    if r.is_err() && op != 10 {
                        let after = snapshot(&m);
                        for (k2, (v2, _)) in &after {
                            match before.get(k2) {
                                Some((b, _)) => {
                                    if !(*v2 == *b || *v2 == *b + 1 || *v2 == 1 || *v2 == 3 || *v2 == 4) {
                                        problems.push(format!("key {k2} holds value {v2} it never legitimately had"));
                                    }
                                }
                                None => {
                                    if !(*v2 == 1 || *v2 == 2 || *v2 == 3 || *v2 == 4) {
                                        problems.push(format!("a key appeared ({k2}) with an illegitimate value"));
                                    }
                                }
                            }
                        }
                        let lost = before.keys().filter(|k| !after.contains_key(k)).count();
                        // documented losses: hash panic may drop elements being relocated (ops that move
                        // elements); eq / closure panic loses at most the element handed to the closure
                        let may_relocate = matches!(op, 0 | 4 | 7 | 8 | 11 | 15);
                        let removes_anyway = matches!(op, 1 | 2 | 3 | 6 | 12);
                        if !may_relocate && !removes_anyway && lost > 0 {
                            problems.push(format!("{lost} elements lost by an operation that relocates nothing"));
                        }
                        if matches!(op, 6 | 12) && lost > 1 {
                            problems.push(format!("{lost} elements lost, at most the one handed to the closure may be"));
                        }
                    }
                    // dropping a drain_filter early removes every matching element, even when the
                    // destructor of one of them panics (the rest is consumed while unwinding)
                    let mut c09: Vec<String> = vec![];
                    if op == 3 && (kinds == DROP || r.is_ok()) {
                        let after = snapshot(&m);
                        let evens = after.keys().filter(|k| *k % 2 == 0).count();
                        let odd_lost = before.keys().filter(|k| *k % 2 == 1 && !after.contains_key(k)).count();
                        if evens > 0 || odd_lost > 0 {
                            c09.push(format!("after dropping the drain_filter {evens} matching elements are still in the map and {odd_lost} non-matching ones are gone"));
                        }
                    }
                    // headroom: capacity()-len() fresh keys go in without a panic, without a table
                    // allocation, without capacity() decreasing, and finish any pending resize
                    let mut c04: Vec<String> = vec![];
                    if m.capacity() < m.len() {
                        c04.push(format!("capacity() = {} < len() = {}", m.capacity(), m.len()));
                    } else if consistent(&m).is_ok() {
                        let room = m.capacity() - m.len();
                        let cap0 = m.capacity();
                        alloc::arm();
                        let rf = catch_unwind(AssertUnwindSafe(|| {
                            for i in 0..room as u64 {
                                m.insert(Key::new(5000 + i), Val::new(0));
                            }
                        }));
                        let (na, _) = alloc::disarm();
                        if rf.is_err() {
                            c04.push(format!("inserting capacity()-len() = {room} fresh keys panicked: {}", LAST_PANIC.with(|p| p.borrow().lines().last().unwrap_or("").to_string())));
                        } else {
                            if na != 0 {
                                c04.push(format!("inserting capacity()-len() = {room} fresh keys allocated {na} tables"));
                            }
                            if m.capacity() < cap0 {
                                c04.push(format!("capacity() decreased from {cap0} to {} while filling", m.capacity()));
                            }
                            if room >= 1 && m.verif_state().old.is_some() {
                                c04.push(format!("a resize is still pending after inserting capacity()-len() = {room} fresh keys"));
                            }
                        }
                    }
                    // later operations behave normally
                    let r2 = catch_unwind(AssertUnwindSafe(|| {
                        for i in 0..40 {
                            m.insert(Key::new(1000 + i), Val::new(0));
                        }
                        for i in 0..10 {
                            m.remove(&Q(1000 + i));
                        }
                    }));
                    if r2.is_err() {
                        problems.push(format!("later operations panicked: {}", LAST_PANIC.with(|p| p.borrow().lines().last().unwrap_or("").to_string())));
                    } else if let Err(e) = consistent(&m) {
                        problems.push(format!("after later operations: {e}"));
                    }
                    let leaked_ok = op == 10 && r.is_err();
                    drop(m);
                    drop(src);
                    let an = take_anomalies();
                    if !an.is_empty() {
                        problems.push(an.join("; "));
                    }
                    if live_count() != 0 && !leaked_ok {
                        problems.push(format!("{} objects leaked", live_count()));
                    }
                    if !c09.is_empty() || !c04.is_empty() || !problems.is_empty() {
                        log.push("-- second map (source):".into());
                        log.extend(log_src);
                        if !c09.is_empty() {
                            rep.fail("C09", c09.join("; "), log.join("\n"));
                        }
                        if !c04.is_empty() {
                            rep.fail("C04", c04.join("; "), log.join("\n"));
                        }
                        let base_problems = !problems.is_empty();
                        problems.extend(c09);
                        problems.extend(c04);
                        let text = problems.join("; ");
                        if text.contains("entries iterated") || text.contains("not found by get") || text.contains("iterated twice") {
                            rep.fail("C14", text.clone(), log.join("\n"));
                            rep.fail("C08", text.clone(), log.join("\n"));
                        }
                        if text.contains("cached iterator") || text.contains("used after drop") || text.contains("dropped twice") || text.contains("canary") || text.contains("not the injected one") {
                            rep.fail("C05", text.clone(), log.join("\n"));
                        }
                        // an interrupted clone / clone_from whose destination no longer finds what it iterates has not
                        // "adopted the source's hasher" (C11), whatever else it lost
                        if (op == 9 || op == 10) && (text.contains("not found by get") || text.contains("entries iterated")) {
                            rep.fail("C11", text.clone(), log.join("\n"));
                        }
                        if op == 2 || op == 3 {
                            if base_problems {
                                rep.fail("C09", text.clone(), log.join("\n"));
                            }
                        }
                        if (op == 4 || op == 5 || op == 6 || op == 12 || op == 15) && base_problems {
                            rep.fail("C12", text.clone(), log.join("\n"));
                        }
                        if base_problems || r.is_err() {
                            rep.fail("C07", text, log.join("\n"));
                        }
                    }
                    if rep.samples.len() < 2 && r.is_err() {
                        rep.samples.push(log.join(" ; "));
                    }
                    if r.is_ok() || idx > 400 || rep.fails.len() >= 40 {
                        break;
                    }
                    idx += 1;
                }
            }
        }
    }
    let _ = alloc::live_tables();
}

// ------------------------------------------------------------------------------------------------
// `==` and the read-only API over pairs of maps / sets that hold the same (or almost the same) elements in
// different layouts, for hash-builder *types* of every shape: zero-sized (`BuildHasherDefault`), stateful with
// equal state, stateful with different state.
#[derive(Default, Clone)]
pub struct ZH(u64);
impl std::hash::Hasher for ZH {
    fn write(&mut self, bytes: &[u8]) {
        for b in bytes {
            self.0 = (self.0.rotate_left(5) ^ (*b as u64)).wrapping_mul(0x517c_c1b7_2722_0a95);
        }
    }
    fn finish(&self) -> u64 {
        self.0 ^ (self.0 >> 31)
    }
}
type ZB = std::hash::BuildHasherDefault<ZH>;

fn eq_cases<S: std::hash::BuildHasher + Clone>(rep: &mut Report, label: &str, sa: S, sb: S, sizes: &[u64], g: &mut Rng) {
    use std::fmt::Write as _;
    for &n in sizes {
        // a: plain insertion order
        let mut a: HashMap<u64, u64, S> = HashMap::with_hasher(sa.clone());
        for k in 0..n {
            a.insert(k * 3, k * 10);
        }
        let asplit = a.verif_state().old.is_some();
        let aorder: Vec<u64> = a.keys().copied().collect();
        for layout in 0..6u8 {
            // b: the same contents, laid out differently
            let mut b: HashMap<u64, u64, S> = match layout {
                0 => {
                    let mut b = HashMap::with_hasher(sb.clone());
                    b.clone_from(&a);
                    // (clone_from adopts a's hasher; that is the point of this layout)
                    b
                }
                1 => {
                    let mut b = HashMap::with_hasher(sb.clone());
                    for k in (0..n).rev() {
                        b.insert(k * 3, k * 10);
                    }
                    b
                }
                2 => {
                    let mut b = HashMap::with_capacity_and_hasher(4 * n as usize + 3, sb.clone());
                    for k in 0..n {
                        b.insert(k * 3, k * 10);
                    }
                    b
                }
                3 => {
                    let mut b = HashMap::with_hasher(sb.clone());
                    for k in 0..n + 20 {
                        b.insert(k * 3, k * 10);
                    }
                    for k in n..n + 20 {
                        b.remove(&(k * 3));
                    }
                    b
                }
                4 => {
                    let mut b = HashMap::with_hasher(sb.clone());
                    for k in 0..n {
                        b.insert(k * 3, k * 10);
                    }
                    b.reserve(2 * n as usize + 9);
                    b
                }
                _ => {
                    let mut b = HashMap::with_hasher(sb.clone());
                    let mut ks: Vec<u64> = (0..n).collect();
                    for i in (1..ks.len()).rev() {
                        ks.swap(i, g.below(i as u64 + 1) as usize);
                    }
                    for k in ks {
                        b.insert(k * 3, k * 10);
                    }
                    b
                }
            };
            let bsplit = b.verif_state().old.is_some();
            rep.tuples.insert(format!("{label} layout{layout} a{asplit} b{bsplit}"));
            // mutations of b: (kind, position in a's iteration order)
            let mut muts: Vec<(u8, usize)> = vec![(0, 0)];
            if n > 0 {
                let last = n as usize - 1;
                for p in [0usize, 1.min(last), last / 2, last.saturating_sub(1), last, g.below(n) as usize] {
                    muts.push((1, p));
                    muts.push((2, p));
                }
                muts.push((3, 0));
            }
            muts.push((4, 0));
            for (kind, p) in muts {
                let mut b2 = b.clone();
                let mut expect = true;
                let mut what = String::from("same contents");
                match kind {
                    1 => {
                        let k = aorder[p];
                        *b2.get_mut(&k).unwrap() += 1;
                        expect = false;
                        what = format!("value of key {k} (position {p} of the left operand's iteration) differs");
                    }
                    2 => {
                        let k = aorder[p];
                        let v = b2.remove(&k).unwrap();
                        b2.insert(k + 1, v);
                        expect = false;
                        what = format!("key {k} (position {p}) replaced by {}", k + 1);
                    }
                    3 => {
                        let k = aorder[0];
                        b2.remove(&k);
                        expect = false;
                        what = "one element fewer".into();
                    }
                    4 => {
                        b2.insert(1, 1);
                        expect = false;
                        what = "one element more".into();
                    }
                    _ => {}
                }
                rep.evaluations += 1;
                let mut bad = String::new();
                let r = catch_unwind(AssertUnwindSafe(|| {
                    let mut bad = String::new();
                    if (a == b2) != expect {
                        let _ = write!(bad, "a == b is {} ; ", !expect);
                    }
                    if (b2 == a) != expect {
                        let _ = write!(bad, "b == a is {} ; ", !expect);
                    }
                    if (a != b2) == expect {
                        let _ = write!(bad, "a != b is {} ; ", expect);
                    }
                    // the same through sets of the keys (values do not exist there)
                    let sa_: HashSet<u64, S> = {
                        let mut s = HashSet::with_hasher(sa.clone());
                        s.extend(a.keys().copied());
                        s
                    };
                    let mut sb_: HashSet<u64, S> = HashSet::with_hasher(sb.clone());
                    if layout % 2 == 0 {
                        sb_.reserve(3 * b2.len() + 4);
                    }
                    sb_.extend(b2.keys().copied());
                    let sexpect = kind == 0 || kind == 1;
                    if (sa_ == sb_) != sexpect || (sb_ == sa_) != sexpect {
                        let _ = write!(bad, "sets of the keys: == is {} / {} ; ", sa_ == sb_, sb_ == sa_);
                    }
                    if kind == 0 {
                        // indistinguishable through the read-only API
                        let mut ia: Vec<(u64, u64)> = a.iter().map(|(k, v)| (*k, *v)).collect();
                        let mut ib: Vec<(u64, u64)> = b2.iter().map(|(k, v)| (*k, *v)).collect();
                        ia.sort_unstable();
                        ib.sort_unstable();
                        if ia != ib || a.len() != b2.len() {
                            bad.push_str("iteration multisets differ ; ");
                        }
                        for k in 0..3 * n + 2 {
                            if a.get(&k) != b2.get(&k) || a.contains_key(&k) != b2.contains_key(&k) {
                                let _ = write!(bad, "get({k}) differs ; ");
                                break;
                            }
                        }
                        let norm = |s: String| -> Vec<String> {
                            let mut v: Vec<String> = s.trim_matches(|c| c == '{' || c == '}').split(", ").map(|x| x.to_string()).collect();
                            v.sort();
                            v
                        };
                        if norm(format!("{a:?}")) != norm(format!("{b2:?}")) {
                            bad.push_str("Debug output differs as a multiset ; ");
                        }
                    }
                    bad
                }));
                match r {
                    Ok(s) => bad = s,
                    Err(_) => bad = format!("panicked: {}", LAST_PANIC.with(|p| p.borrow().lines().last().unwrap_or("").to_string())),
                }
                if !bad.is_empty() {
                    let text = format!("hash builder: {label}\na: insert keys 3*i (i < {n}) with values 10*i, in order\nb: layout {layout} (0 clone_from, 1 reverse order, 2 with_capacity(4n+3), 3 n+20 inserted then 20 removed, 4 reserve(2n+9) afterwards, 5 shuffled), then: {what}\nexpected a == b: {expect}");
                    for p in ["C14", "C13"] {
                        if rep.fails.iter().filter(|f| f.0 == p).count() < 3 {
                            rep.fails.push((p.into(), format!("{label}, {n} elements, {what}: {bad}"), text.clone()));
                        }
                    }
                }
            }
        }
    }
}

/// a zero-sized value that is not equal to itself (the zero-sized sibling of NaN)
#[derive(Clone, Copy, Debug)]
struct Never;
impl PartialEq for Never {
    fn eq(&self, _: &Never) -> bool {
        false
    }
}

fn eqs(rep: &mut Report, seed: u64, scale: u64) {
    // `==` on maps asks the VALUES (V: PartialEq, not necessarily reflexive), whatever their size
    {
        let mut problems: Vec<String> = vec![];
        for n in [0u64, 1, 7, 15, 29, 60] {
            let mut a: HashMap<u64, Never, VBuild> = HashMap::with_hasher(VBuild::default());
            let mut f: HashMap<u64, f64, VBuild> = HashMap::with_hasher(VBuild::default());
            for k in 0..n {
                a.insert(k, Never);
                f.insert(k, if k == 0 { f64::NAN } else { 1.0 });
            }
            let b = a.clone();
            let fb = f.clone();
            rep.evaluations += 1;
            if (a == b) != (n == 0) || (a == a) != (n == 0) {
                problems.push(format!("{n} entries whose zero-sized values are never equal: a == clone is {}, a == a is {}", a == b, a == a));
            }
            if (f == fb) != (n == 0) {
                problems.push(format!("{n} entries, one value NaN: f == clone is {}", f == fb));
            }
        }
        if !problems.is_empty() {
            rep.fail("C14", problems.join("; "), "maps whose values are not equal to themselves (a zero-sized never-equal type; f64 NaN)".into());
        }
    }
    let mut g = Rng::new(seed.wrapping_mul(7919) + 5);
    let mut sizes: Vec<u64> = (0..=64).collect();
    sizes.extend([100, 113, 114, 120, 125, 126, 200, 225, 230, 250]);
    if scale > 1 {
        sizes.extend(65..=130);
        sizes.extend([449, 460, 500, 897, 1000]);
    }
    eq_cases(rep, "zero-sized (BuildHasherDefault)", ZB::default(), ZB::default(), &sizes, &mut g);
    eq_cases(rep, "stateful, equal state", VBuild { kind: HKind::Mul, seed: 3 }, VBuild { kind: HKind::Mul, seed: 3 }, &sizes, &mut g);
    eq_cases(rep, "stateful, different state", VBuild { kind: HKind::Mul, seed: 3 }, VBuild { kind: HKind::Mul, seed: 77 }, &sizes, &mut g);
    eq_cases(rep, "identity, different state", VBuild { kind: HKind::Id, seed: 0 }, VBuild { kind: HKind::Id, seed: 5 }, &sizes, &mut g);
    eq_cases(rep, "griddle's default builder", griddle::hash_map::DefaultHashBuilder::default(), griddle::hash_map::DefaultHashBuilder::default(), &sizes, &mut g);
}

// ------------------------------------------------------------------------------------------------
// hashbrown 0.14.5's raw table itself against the contract model of it (GriddleModel/Table.lean): the calls griddle
// makes on it, in random sequences with boundary arguments, every call one transcript line (`hb…` ops; the model
// state is a map without an old table).  Tombstone landings / EMPTY-vs-DELETED erasures are hashbrown's private
// choices: the driver resolves them from the observed growth_left, the model checks them against its contract.
fn hb(rep: &mut Report, seed: u64, scale: u64) {
    use hashbrown::raw::RawTable;
    use std::cell::Cell;
    let rounds = 120 * scale;
    for round in 0..rounds {
        let mut g = Rng::new(seed.wrapping_mul(2_654_435_761).wrapping_add(round));
        let kind = round % 3; // 0 multiplicative, 1 low entropy (long runs, tombstones), 2 identity
        let hash = move |k: u64| -> u64 {
            match kind {
                0 => {
                    let x = k.wrapping_mul(0x9E37_79B9_7F4A_7C15);
                    x ^ (x >> 29)
                }
                1 => k % 8,
                _ => k,
            }
        };
        let hashed = Cell::new(0u64);
        let mut tabs: Vec<Option<RawTable<(u64, u64)>>> = vec![None, None];
        let mut keys: Vec<Vec<u64>> = vec![vec![], vec![]];
        let mut next_key = 1u64;
        let mut lines: Vec<String> = vec![];
        let mut log: Vec<String> = vec![];
        let obs = |t: &RawTable<(u64, u64)>, dh: u64, da: u64, df: u64| -> String {
            format!(
                "ret=- len={} cap={} mi={} mgl={} mb={} old=- dh={dh} da={da} df={df} panic=-",
                t.len(),
                t.capacity(),
                t.len(),
                t.capacity() - t.len(),
                t.buckets()
            )
        };
        let nops = 250;
        // identity-hash rounds start from the state that makes hashbrown rehash IN PLACE: a full table of keys
        // 0..cap (one solid run of full buckets), most of the run erased (tombstones, growth_left stays 0); the next
        // new key lands on an EMPTY bucket behind the run with growth_left == 0 in a table at most half full
        let mut prelude: Vec<(u8, u64)> = vec![];
        if kind == 2 {
            let cap = *g.pick(&[14u64, 28, 56, 112]);
            prelude.push((0, cap));
            for k in 0..cap {
                prelude.push((1, k));
            }
            for k in 2..(cap * 3 / 4) {
                prelude.push((2, k));
            }
            next_key = cap;
        }
        prelude.reverse();
        let mut burst = 0usize;
        let mut burst_on = 0usize;
        let r = catch_unwind(AssertUnwindSafe(|| {
            for _ in 0..nops {
                let pre = prelude.pop();
                let which = if pre.is_some() { 0 } else if burst > 0 { burst_on } else { g.below(2) as usize };
                burst_on = which;
                if tabs[which].is_none() {
                    let cap = match pre { Some((0, c)) => c as usize, _ => *g.pick(&[0usize, 0, 1, 3, 4, 7, 8, 14, 15, 28, 29, 56, 57, 100, 112, 113, 448, 1000]) };
                    alloc::arm();
                    let t: RawTable<(u64, u64)> = RawTable::with_capacity(cap);
                    let (da, df) = alloc::disarm();
                    lines.push(format!("hbnew {which} {cap} |  | {}", obs(&t, 0, da, df)));
                    log.push(format!("with_capacity({cap})"));
                    tabs[which] = Some(t);
                    keys[which].clear();
                    continue;
                }
                let len = tabs[which].as_ref().unwrap().len();
                let cap = tabs[which].as_ref().unwrap().capacity();
                let mut code = g.below(100);
                hashed.set(0);
                if burst > 0 && !keys[which].is_empty() {
                    burst -= 1;
                    code = 60;
                } else if cap == len && len >= 4 && g.chance(1, 2) {
                    // a full table: empty most of it (tombstones inside long runs), so that the next growable insert
                    // finds growth_left == 0 in a table at most half full and rehashes in place instead of resizing
                    burst = len * 2 / 3;
                    code = 60;
                } else if burst > 0 {
                    burst = 0;
                }
                if let Some((pk, _)) = pre {
                    code = if pk == 1 { 0 } else { 60 };
                }
                if code < 45 {
                    // insertion of a new key: growable, or no-grow when there is room
                    let k = match pre { Some((1, k)) => k, _ => { next_key += 1; next_key - 1 } };
                    let t = tabs[which].as_mut().unwrap();
                    let nogrow = cap > len && g.chance(1, 2);
                    alloc::arm();
                    if nogrow {
                        unsafe {
                            t.insert_no_grow(hash(k), (k, 0));
                        }
                    } else {
                        t.insert(hash(k), (k, 0), |x| {
                            hashed.set(hashed.get() + 1);
                            hash(x.0)
                        });
                    }
                    let (da, df) = alloc::disarm();
                    keys[which].push(k);
                    lines.push(format!("{} {which} {k} |  | {}", if nogrow { "hbinsng" } else { "hbins" }, obs(t, hashed.get(), da, df)));
                    log.push(format!("{}({k})", if nogrow { "insert_no_grow" } else { "insert" }));
                } else if code < 75 && !keys[which].is_empty() {
                    let i = match pre { Some((2, k)) => keys[which].iter().position(|x| *x == k).unwrap_or(0), _ => g.below(keys[which].len() as u64) as usize };
                    let k = keys[which].swap_remove(i);
                    let t = tabs[which].as_mut().unwrap();
                    let b = t.find(hash(k), |x| x.0 == k).expect("key is in the table");
                    unsafe {
                        if g.chance(1, 2) {
                            t.erase(b);
                        } else {
                            let _ = t.remove(b);
                        }
                    }
                    lines.push(format!("hbrem {which} {k} |  | {}", obs(t, 0, 0, 0)));
                    log.push(format!("remove({k})"));
                } else if code < 80 {
                    let t = tabs[which].as_mut().unwrap();
                    t.clear();
                    keys[which].clear();
                    lines.push(format!("hbclear {which} |  | {}", obs(t, 0, 0, 0)));
                    log.push("clear()".into());
                } else if code < 90 {
                    let n = match g.below(6) {
                        0 => 0,
                        1 => len,
                        2 => len + 1,
                        3 => cap,
                        4 => len / 2,
                        _ => g.below(2 * cap as u64 + 4) as usize,
                    };
                    let t = tabs[which].as_mut().unwrap();
                    alloc::arm();
                    t.shrink_to(n, |x| {
                        hashed.set(hashed.get() + 1);
                        hash(x.0)
                    });
                    let (da, df) = alloc::disarm();
                    lines.push(format!("hbshrink {which} {n} |  | {}", obs(t, hashed.get(), da, df)));
                    log.push(format!("shrink_to({n})"));
                } else if code < 96 {
                    let other = 1 - which;
                    alloc::arm();
                    let c = tabs[which].as_ref().unwrap().clone();
                    let old = tabs[other].replace(c);
                    let (da, _) = alloc::disarm();
                    drop(old);
                    keys[other] = keys[which].clone();
                    lines.push(format!("hbclone {other} {which} |  | {}", obs(tabs[other].as_ref().unwrap(), 0, da, 0)));
                    log.push(format!("table {other} = table {which}.clone()"));
                } else {
                    tabs[which] = None;
                    keys[which].clear();
                    lines.push(format!("forget {which} |  | "));
                    log.push(format!("drop table {which}"));
                }
                rep.evaluations += 1;
            }
        }));
        rep.tuples.insert(format!("hasher{kind}"));
        if r.is_err() {
            for p in ["C04", "C05", "C10"] {
                rep.fail(p, format!("hashbrown's raw table panicked under the calls griddle makes on it: {}", LAST_PANIC.with(|p| p.borrow().lines().last().unwrap_or("").to_string())), log.join(" ; "));
            }
        }
        if rep.transcript.len() < 400_000 {
            rep.transcript.push(format!("H id=hb-{round} debug={} R=8 elem=16 limit={} hasher=-", cfg!(debug_assertions) as u8, alloc::LIMIT));
            rep.transcript.append(&mut lines);
        }
        if rep.samples.is_empty() {
            rep.samples.push(log.iter().take(30).cloned().collect::<Vec<_>>().join(" ; "));
        }
    }
}

// ------------------------------------------------------------------------------------------------
// Histories on maps whose hash builder is a ZERO-SIZED type (`BuildHasherDefault<_>`, griddle's own default): every
// other driver uses a builder with state, so a shortcut keyed on `size_of::<S>() == 0` — or on two maps being known
// to hash alike — would never run there.  Plain `u64` elements against `BTreeMap`, phase-targeted like the main
// generator (sizes around the growth thresholds, reserve-driven splits, emptied-in-place old tables), every public
// call family, and after every call: len, contents through every read path, hook agreement, capacity >= len.
fn zsh_run<S: std::hash::BuildHasher + Clone + Default>(rep: &mut Report, label: &str, seed: u64, rounds: u64) {
    use griddle::hash_map::RawEntryMut;
    for round in 0..rounds {
        let mut g = Rng::new(seed.wrapping_mul(48_271).wrapping_add(round * 7 + 1));
        let mut m: HashMap<u64, u64, S> = HashMap::default();
        let mut r: BTreeMap<u64, u64> = BTreeMap::new();
        let mut other: HashMap<u64, u64, S> = HashMap::default();
        let mut rother: BTreeMap<u64, u64> = BTreeMap::new();
        let target = *g.pick(&[3u64, 7, 14, 15, 28, 29, 31, 56, 57, 60, 112, 113, 120]);
        let mut log: Vec<String> = vec![format!("hash builder: {label}")];
        let mut next = 0u64;
        let res = catch_unwind(AssertUnwindSafe(|| {
            let mut problems: Vec<String> = vec![];
            for step in 0..220 {
                let split = m.verif_state().old.is_some();
                let len = m.len() as u64;
                let pick = |g: &mut Rng, r: &BTreeMap<u64, u64>| -> u64 {
                    if r.is_empty() || g.chance(1, 4) { 1_000_000 + g.below(50) } else { *r.keys().nth(g.below(r.len() as u64) as usize).unwrap() }
                };
                let code = if len < target && g.chance(2, 3) { 0 } else { g.below(22) };
                match code {
                    0 | 1 => {
                        let k = next;
                        next += 1;
                        log.push(format!("insert {k}"));
                        if m.insert(k, k * 10) != r.insert(k, k * 10) { problems.push(format!("insert {k}")); }
                    }
                    2 => {
                        let k = pick(&mut g, &r);
                        log.push(format!("insert(overwrite) {k}"));
                        if m.insert(k, 5) != r.insert(k, 5) { problems.push(format!("insert over {k}")); }
                    }
                    3 => {
                        let k = pick(&mut g, &r);
                        log.push(format!("remove {k}"));
                        if m.remove(&k) != r.remove(&k) { problems.push(format!("remove {k}")); }
                    }
                    4 => {
                        let k = pick(&mut g, &r);
                        log.push(format!("remove_entry {k}"));
                        if m.remove_entry(&k) != r.remove_entry(&k) { problems.push(format!("remove_entry {k}")); }
                    }
                    5 => {
                        let n = *g.pick(&[0usize, 1, 5, 40, 300]);
                        log.push(format!("reserve {n}"));
                        m.reserve(n);
                    }
                    6 => {
                        log.push("shrink_to_fit".into());
                        m.shrink_to_fit();
                    }
                    7 => {
                        let md = 2 + g.below(3);
                        log.push(format!("retain k % {md} != 0"));
                        m.retain(|k, _| k % md != 0);
                        r.retain(|k, _| k % md != 0);
                    }
                    8 => {
                        if split {
                            // empty the old table in place
                            let mut ok = vec![];
                            m.verif_old_keys(usize::MAX, |x| ok.push(*x));
                            log.push("retain: reject exactly the parked elements".into());
                            m.retain(|k, _| !ok.contains(k));
                            r.retain(|k, _| !ok.contains(k));
                        }
                    }
                    9 => {
                        let k = pick(&mut g, &r);
                        log.push(format!("entry({k}).or_insert(1) += 1"));
                        *m.entry(k).or_insert(1) += 1;
                        *r.entry(k).or_insert(1) += 1;
                    }
                    10 => {
                        let k = pick(&mut g, &r);
                        log.push(format!("entry({k}).and_replace_entry_with(None)"));
                        let _ = m.entry(k).and_replace_entry_with(|_, _| None);
                        r.remove(&k);
                    }
                    11 => {
                        let k = pick(&mut g, &r);
                        log.push(format!("raw_entry_mut().from_key({k}).or_insert"));
                        match m.raw_entry_mut().from_key(&k) {
                            RawEntryMut::Occupied(mut o) => { *o.get_mut() += 3; }
                            RawEntryMut::Vacant(v) => { v.insert(k, 3); }
                        }
                        *r.entry(k).or_insert(0) += 3;
                    }
                    12 => {
                        log.push("other = clone(); other == self".into());
                        other = m.clone();
                        rother = r.clone();
                        if !(other == m) || !(m == other) { problems.push("clone != original".into()); }
                    }
                    13 => {
                        log.push("clone_from(other)".into());
                        m.clone_from(&other);
                        r = rother.clone();
                    }
                    14 => {
                        log.push("other.clone_from(self)".into());
                        other.clone_from(&m);
                        rother = r.clone();
                    }
                    15 => {
                        let eq = m == other;
                        let eq2 = other == m;
                        if eq != (r == rother) || eq2 != eq { problems.push(format!("== gives {eq} / {eq2}, reference {}", r == rother)); }
                    }
                    16 => {
                        let items: Vec<(u64, u64)> = (0..g.below(20)).map(|i| (if g.chance(1, 3) { pick(&mut g, &r) } else { next + i }, i)).collect();
                        next += 20;
                        log.push(format!("extend {items:?}"));
                        m.extend(items.clone());
                        r.extend(items);
                    }
                    17 => {
                        let md = 2 + g.below(3);
                        log.push(format!("drain_filter k % {md} == 1"));
                        let mut got: Vec<(u64, u64)> = m.drain_filter(|k, _| k % md == 1).collect();
                        got.sort_unstable();
                        let want: Vec<(u64, u64)> = r.iter().filter(|(k, _)| *k % md == 1).map(|(k, v)| (*k, *v)).collect();
                        r.retain(|k, _| k % md != 1);
                        if got != want { problems.push("drain_filter".into()); }
                    }
                    18 => {
                        if g.chance(1, 4) {
                            log.push("drain".into());
                            let mut got: Vec<(u64, u64)> = m.drain().collect();
                            got.sort_unstable();
                            let want: Vec<(u64, u64)> = r.iter().map(|(k, v)| (*k, *v)).collect();
                            r.clear();
                            if got != want { problems.push("drain".into()); }
                        }
                    }
                    19 => {
                        log.push("iter_mut += 1".into());
                        for (_, v) in m.iter_mut() { *v += 1; }
                        for v in r.values_mut() { *v += 1; }
                    }
                    20 => {
                        if g.chance(1, 3) {
                            log.push("into_iter of a clone; from_iter".into());
                            let mut got: Vec<(u64, u64)> = m.clone().into_iter().collect();
                            got.sort_unstable();
                            if got != r.iter().map(|(k, v)| (*k, *v)).collect::<Vec<_>>() { problems.push("into_iter".into()); }
                            let f: HashMap<u64, u64, S> = r.iter().map(|(k, v)| (*k, *v)).collect();
                            if !(f == m) { problems.push("from_iter != map".into()); }
                        }
                    }
                    _ => {
                        let k = pick(&mut g, &r);
                        if m.get(&k) != r.get(&k) || m.contains_key(&k) != r.contains_key(&k) || m.get_key_value(&k) != r.get_key_value(&k)
                            || m.raw_entry().from_key(&k) != r.get_key_value(&k) {
                            problems.push(format!("lookups of {k} disagree with the reference"));
                        }
                        if let Some(v) = r.get(&k) {
                            if m[&k] != *v { problems.push(format!("Index of {k}")); }
                            if m.get_key_value_mut(&k).map(|(a, b)| (*a, *b)) != Some((k, *v)) { problems.push(format!("get_key_value_mut of {k}")); }
                        }
                        // the by-reference trait impls: Extend<(&K, &V)>, IntoIterator for &mut, FromIterator with repeats
                        if g.chance(1, 4) {
                            log.push("extend by reference from other; for (_, v) in &mut m; from_iter with repeated keys".into());
                            m.extend(other.iter());
                            for (k2, v2) in rother.iter() { r.insert(*k2, *v2); }
                            for (_, v) in &mut m { *v += 2; }
                            for v in r.values_mut() { *v += 2; }
                            let pairs: Vec<(u64, u64)> = r.iter().map(|(a, b)| (*a, *b)).chain(r.iter().take(5).map(|(a, b)| (*a, *b + 1))).collect();
                            let f: HashMap<u64, u64, S> = pairs.iter().copied().collect();
                            let mut rf: BTreeMap<u64, u64> = BTreeMap::new();
                            for (a, b) in pairs { rf.insert(a, b); }
                            let mut got: Vec<(u64, u64)> = f.iter().map(|(a, b)| (*a, *b)).collect();
                            got.sort_unstable();
                            if got != rf.into_iter().collect::<Vec<_>>() { problems.push("from_iter with repeated keys".into()); }
                        }
                    }
                }
                // after every call
                if m.len() != r.len() || m.is_empty() != r.is_empty() { problems.push(format!("len {} vs {} after step {step}", m.len(), r.len())); }
                if m.capacity() < m.len() { problems.push("capacity < len".into()); }
                if let Some((l, _, _, cur)) = m.verif_state().old { if l != cur { problems.push("cursor count".into()); } }
                let mut got: Vec<(u64, u64)> = m.iter().map(|(k, v)| (*k, *v)).collect();
                got.sort_unstable();
                if got != r.iter().map(|(k, v)| (*k, *v)).collect::<Vec<_>>() { problems.push(format!("contents differ from the reference after step {step}")); }
                if m.keys().len() != r.len() || m.values().count() != r.len() { problems.push("keys()/values() length".into()); }
                for (k, v) in r.iter().take(40) {
                    if m.get(k) != Some(v) { problems.push(format!("get({k}) after step {step}")); break; }
                }
                if !problems.is_empty() { break; }
                rep.tuples.insert(format!("{label} op{code} split{split}"));
            }
            problems
        }));
        rep.evaluations += 1;
        let problems = match res {
            Ok(p) => p,
            Err(_) => vec![format!("panicked: {}", LAST_PANIC.with(|p| p.borrow().lines().last().unwrap_or("").to_string()))],
        };
        if !problems.is_empty() {
            let text = format!("{label}: {}", problems.join("; "));
            for p in ["C01", "C14", "C11", "C09", "C12", "C05"] {
                let relevant = match p {
                    "C11" => text.contains("clone"),
                    "C14" => text.contains("==") || text.contains("lookups") || text.contains("get(") || text.contains("contents"),
                    "C09" => text.contains("retain") || text.contains("drain_filter"),
                    "C12" => log.last().map_or(false, |l| l.contains("entry")),
                    "C05" => text.contains("panicked") || text.contains("cursor"),
                    _ => true,
                };
                if relevant { rep.fail(p, text.clone(), log.join("\n")); }
            }
        }
        if rep.samples.is_empty() { rep.samples.push(log.iter().take(25).cloned().collect::<Vec<_>>().join(" ; ")); }
    }
}

/// a fully colliding hasher with no state: every comparison is decided by `Eq` alone
#[derive(Default, Clone)]
pub struct OneBucket;
impl std::hash::Hasher for OneBucket {
    fn write(&mut self, _: &[u8]) {}
    fn finish(&self) -> u64 {
        7
    }
}

/// Legal but unusual ways of calling: lookups through unsized `Borrow` forms whose probe value occupies zero bytes
/// (`""`, an empty slice, a slice of zero-sized elements), the two entry calls that are documented to panic on a
/// handle without a key, and a `drain_filter` dropped part-way under a predicate that remembers what it saw.
fn unusual_calls(rep: &mut Report, seed: u64) {
    let mut problems: Vec<String> = vec![];
    let mut c12: Vec<String> = vec![];
    let mut c09: Vec<String> = vec![];
    let r = catch_unwind(AssertUnwindSafe(|| {
        // String keys, &str probes, everything in one bucket chain
        type OB = std::hash::BuildHasherDefault<OneBucket>;
        for n in [1usize, 3, 15, 29, 40] {
            let mut m: HashMap<String, u64, OB> = HashMap::default();
            let mut r: BTreeMap<String, u64> = BTreeMap::new();
            for i in 0..n {
                m.insert(format!("k{i}"), i as u64);
                r.insert(format!("k{i}"), i as u64);
            }
            for probe in ["", "k0", "k", "zz"] {
                if m.get(probe) != r.get(probe) || m.contains_key(probe) != r.contains_key(probe) || m.get_key_value(probe).map(|x| x.1) != r.get(probe)
                    || m.raw_entry().from_key(probe).map(|x| x.1) != r.get(probe) {
                    problems.push(format!("{n} String keys, lookup of {probe:?} through &str disagrees with the reference"));
                }
            }
            if m.get_mut("").is_some() { problems.push("get_mut(\"\") found something".into()); }
            if m.remove("") != r.remove("") || m.len() != r.len() { problems.push(format!("{n} String keys: remove(\"\") removed something")); }
            if let griddle::hash_map::Entry::Occupied(_) = m.entry(String::new()) { problems.push("entry(\"\") is occupied".into()); }
            // keys that ARE empty / zero-sized-element vectors next to non-empty ones
            let mut v: HashMap<Vec<()>, u64, OB> = HashMap::default();
            for i in 0..n.min(12) {
                v.insert(vec![(); i], i as u64);
            }
            for i in 0..14usize {
                let want = if i < n.min(12) { Some(i as u64) } else { None };
                if v.get(&vec![(); i][..]).copied() != want {
                    problems.push(format!("Vec<()> keys: get(&[(); {i}]) = {:?}, expected {want:?}", v.get(&vec![(); i][..])));
                }
            }
            let mut s: HashSet<String, OB> = HashSet::default();
            for i in 0..n { s.insert(format!("k{i}")); }
            if s.contains("") || s.get("").is_some() || s.take("").is_some() || s.len() != n { problems.push("HashSet<String>: \"\" found".into()); }
        }
        // a handle without a key: `entry(absent).insert(v)` returns one; `replace_key` / `replace_entry` on it are
        // documented to panic ("created through Entry::insert") — they must panic, and the map must not change
        for which in 0..2 {
            let mut m: HashMap<u64, u64, VBuild> = HashMap::with_hasher(VBuild { kind: HKind::Mul, seed });
            for i in 0..20 { m.insert(i, i); }
            let res = catch_unwind(AssertUnwindSafe(|| {
                let o = m.entry(1000).insert(5);
                if which == 0 { let _ = o.replace_key(); } else { let _ = o.replace_entry(6); }
            }));
            if res.is_ok() { c12.push(format!("{} on a handle created through Entry::insert returned instead of panicking", if which == 0 { "replace_key" } else { "replace_entry" })); }
            if m.len() != 21 || m.get(&1000) != Some(&5) || (0..20).any(|i| m.get(&i) != Some(&i)) || m.keys().filter(|k| **k == 1000).count() != 1 {
                c12.push("after the documented panic of replace_key / replace_entry the map is not what it was".into());
            }
        }
        // drain_filter over elements WITHOUT drop glue, dropped part-way, predicate with memory
        for n in [8u64, 15, 29, 30, 57, 100] {
            for take in [0usize, 1, 2, 5] {
                let mut m: HashMap<u64, u64, VBuild> = HashMap::with_hasher(VBuild { kind: HKind::Mul, seed: seed + n });
                for i in 0..n { m.insert(i, 2); }
                let mut seen: Vec<u64> = vec![];
                {
                    let mut df = m.drain_filter(|k, ttl| { seen.push(*k); *ttl -= 1; *k % 3 == 0 });
                    for _ in 0..take { if df.next().is_none() { break; } }
                }
                let mut s2 = seen.clone();
                s2.sort_unstable();
                s2.dedup();
                if s2.len() != seen.len() || seen.len() != n as usize {
                    c09.push(format!("drain_filter over {n} elements dropped after {take}: predicate ran {} times on {} distinct keys", seen.len(), s2.len()));
                }
                if m.iter().any(|(k, ttl)| *k % 3 == 0 || *ttl != 1) || m.len() != (0..n).filter(|k| k % 3 != 0).count() {
                    c09.push(format!("drain_filter over {n} elements dropped after {take}: survivors were not aged exactly once / a match remains"));
                }
                let mut st: HashSet<u64, VBuild> = HashSet::with_hasher(VBuild { kind: HKind::Mul, seed: seed + n });
                for i in 0..n { st.insert(i); }
                let mut shown = 0usize;
                {
                    let mut df = st.drain_filter(|k| { shown += 1; *k % 3 == 0 });
                    for _ in 0..take { if df.next().is_none() { break; } }
                }
                if shown != n as usize { c09.push(format!("set drain_filter over {n} elements dropped after {take}: predicate was shown {shown} elements")); }
            }
        }
    }));
    rep.evaluations += 1;
    if r.is_err() {
        problems.push(format!("panicked: {}", LAST_PANIC.with(|p| p.borrow().lines().last().unwrap_or("").to_string())));
    }
    if !problems.is_empty() {
        for p in ["C01", "C14"] { rep.fail(p, problems.join("; "), "lookups through unsized Borrow forms with zero-byte probes (one-bucket hasher)".into()); }
    }
    if !c12.is_empty() { for p in ["C12", "C05"] { rep.fail(p, c12.join("; "), "entry(absent).insert(v) then replace_key() / replace_entry(v)".into()); } }
    if !c09.is_empty() { rep.fail("C09", c09.join("; "), "drain_filter on u64 elements (no drop glue), n inserts, predicate |k, ttl| { log; *ttl -= 1; k % 3 == 0 }, take, drop".into()); }
}

/// a builder whose one-shot `hash_one` is NOT what its streaming hasher computes (ahash under specialisation is like
/// that, and says so): every hash the crate takes of a key must come by the same route, or moved elements get lost
#[derive(Default, Clone)]
pub struct TwoRoutes;
impl std::hash::BuildHasher for TwoRoutes {
    type Hasher = ZH;
    fn build_hasher(&self) -> ZH {
        ZH::default()
    }
    fn hash_one<T: std::hash::Hash>(&self, x: T) -> u64 {
        use std::hash::Hasher;
        let mut h = ZH::default();
        x.hash(&mut h);
        h.finish().rotate_left(17) ^ 0x5555_5555_5555_5555
    }
}

fn zsh(rep: &mut Report, seed: u64, scale: u64) {
    unusual_calls(rep, seed);
    zsh_run::<TwoRoutes>(rep, "a builder whose hash_one differs from its streaming hasher", seed, 300 * scale);
    zsh_run::<ZB>(rep, "BuildHasherDefault (zero-sized)", seed, 600 * scale);
    zsh_run::<griddle::hash_map::DefaultHashBuilder>(rep, "griddle's DefaultHashBuilder", seed, 400 * scale);
}

// ------------------------------------------------------------------------------------------------
// Iterator laws.  An iterator is more than `next()`: `nth`, `skip`, `step_by`, `fold`, `for_each`, `count`, `last`,
// `min` / `max`, `size_hint` / `len` may each be overridden by an adaptor, and each must behave like the default
// built on `next()`: consume what it says, leave the rest, report exhaustion only when exhausted.  `mk` builds the
// iterator afresh in the same state every time, so the sequence of a first pass is the reference for every other use.
fn iter_laws<T, I>(name: &str, mk: &dyn Fn() -> I, exact: bool, problems: &mut Vec<String>)
where
    T: PartialEq + Clone + std::fmt::Debug + Ord,
    I: Iterator<Item = T>,
{
    iter_laws_at(name, mk, exact, &[], problems)
}

/// `marks`: positions in the sequence where something changes underneath (the seam between the two tables)
fn iter_laws_at<T, I>(name: &str, mk: &dyn Fn() -> I, exact: bool, marks: &[usize], problems: &mut Vec<String>)
where
    T: PartialEq + Clone + std::fmt::Debug + Ord,
    I: Iterator<Item = T>,
{
    let seq: Vec<T> = mk().collect();
    let n = seq.len();
    let again: Vec<T> = mk().collect();
    if again != seq {
        problems.push(format!("{name}: two passes over the same state yield different sequences"));
        return;
    }
    let mut ks: Vec<usize> = vec![0, 1, n / 2, n.saturating_sub(1), n, n + 1];
    for m in marks {
        ks.extend([m.saturating_sub(1), *m, m + 1]);
    }
    ks.sort_unstable();
    ks.dedup();
    for &k in &ks {
        // advance k times with next()
        let adv = |it: &mut I| {
            for i in 0..k {
                let x = it.next();
                if x.as_ref() != seq.get(i) {
                    return false;
                }
            }
            true
        };
        let rest: &[T] = if k <= n { &seq[k..] } else { &[] };
        let mut bad = |what: String| {
            if problems.len() < 6 {
                problems.push(format!("{name}, after {k} of {n} next(): {what}"));
            }
        };
        {
            let mut it = mk();
            if !adv(&mut it) { bad("next() differs from the first pass".into()); continue; }
            let h = it.size_hint();
            if exact && h != (rest.len(), Some(rest.len())) { bad(format!("size_hint() = {h:?}, {} to come", rest.len())); }
            if !exact && (h.0 > rest.len() || h.1.map_or(false, |x| x < rest.len())) { bad(format!("size_hint() = {h:?} does not bracket {}", rest.len())); }
            let got: Vec<T> = it.fold(vec![], |mut v, x| { v.push(x); v });
            if got != rest { bad(format!("fold yields {} elements, {} to come", got.len(), rest.len())); }
        }
        {
            let mut it = mk();
            adv(&mut it);
            let mut got = vec![];
            it.for_each(|x| got.push(x));
            if got != rest { bad(format!("for_each yields {} elements, {} to come", got.len(), rest.len())); }
        }
        {
            let mut it = mk();
            adv(&mut it);
            if it.count() != rest.len() { bad("count()".into()); }
            let mut it = mk();
            adv(&mut it);
            if it.last().as_ref() != rest.last() { bad("last()".into()); }
            let mut it = mk();
            adv(&mut it);
            if it.max().as_ref() != rest.iter().max() { bad("max()".into()); }
            let mut it = mk();
            adv(&mut it);
            if it.min().as_ref() != rest.iter().min() { bad("min()".into()); }
        }
        let mut js: Vec<usize> = vec![0usize, 1, rest.len() / 2, rest.len().saturating_sub(1), rest.len(), rest.len() + 2];
        for m in marks {
            if *m >= k {
                js.extend([(m - k).saturating_sub(1), m - k, m - k + 1]);
            }
        }
        js.sort_unstable();
        js.dedup();
        for j in js {
            let mut it = mk();
            adv(&mut it);
            let x = it.nth(j);
            if x.as_ref() != rest.get(j) { bad(format!("nth({j}) returned {:?}", x.is_some())); }
            let left: &[T] = if j + 1 <= rest.len() { &rest[j + 1..] } else { &[] };
            let h = it.size_hint();
            if exact && h != (left.len(), Some(left.len())) { bad(format!("after nth({j}) size_hint() = {h:?}, {} to come", left.len())); }
            let got: Vec<T> = it.by_ref().collect();
            if got != left { bad(format!("after nth({j}) {} elements follow, expected {}", got.len(), left.len())); }
            if it.next().is_some() { bad(format!("after nth({j}) and exhaustion next() is Some")); }
            let mut it = mk();
            adv(&mut it);
            let got: Vec<T> = it.skip(j).collect();
            let want: &[T] = if j <= rest.len() { &rest[j..] } else { &[] };
            if got != want { bad(format!("skip({j})")); }
            if j > 0 {
                let mut it = mk();
                adv(&mut it);
                let got: Vec<T> = it.step_by(j).collect();
                let want: Vec<T> = rest.iter().step_by(j).cloned().collect();
                if got != want { bad(format!("step_by({j})")); }
            }
            let mut it = mk();
            adv(&mut it);
            let got: Vec<T> = it.by_ref().take(j).collect();
            let want: &[T] = &rest[..j.min(rest.len())];
            let after: Vec<T> = it.collect();
            let wafter: &[T] = &rest[j.min(rest.len())..];
            if got != want || after != wafter { bad(format!("by_ref().take({j}) then the rest")); }
        }
    }
}

fn iters(rep: &mut Report, seed: u64, scale: u64) {
    type PM = HashMap<u64, u64, VBuild>;
    type PS = HashSet<u64, VBuild>;
    let rounds = 60 * scale;
    for round in 0..rounds {
        let mut g = Rng::new(seed.wrapping_mul(31_337).wrapping_add(round));
        let hk = *g.pick(&[HKind::Mul, HKind::Low, HKind::Id]);
        let mut log: Vec<String> = vec![];
        // a map / two sets in a phase: plain, split by insertion, everything parked, old table partly or wholly emptied
        let mkmap = |g: &mut Rng, log: &mut Vec<String>| -> PM {
            let mut m = PM::with_hasher(VBuild { kind: hk, seed: g.below(50) });
            let n = *g.pick(&[0u64, 1, 3, 7, 14, 15, 17, 28, 29, 31, 40, 57, 60]);
            for i in 0..n { m.insert(i * 3 + g.below(2), i); }
            log.push(format!("{n} inserts"));
            match g.below(5) {
                0 => { m.reserve(m.len() * 2 + 9); log.push("reserve".into()); }
                1 => {
                    let mut ok = vec![];
                    m.verif_old_keys(usize::MAX, |k| ok.push(*k));
                    m.retain(|k, _| !ok.contains(k));
                    log.push("retain away the parked elements".into());
                }
                2 => {
                    let ks: Vec<u64> = m.keys().copied().filter(|k| k % 4 == 0).collect();
                    for k in ks { m.remove(&k); }
                    log.push("remove k % 4 == 0".into());
                }
                _ => {}
            }
            m
        };
        let bseed = g.below(1 << 40);
        // the same map again, as often as wanted (an owning iterator can only be studied on a fresh copy, and a CLONE is
        // never mid-resize)
        let build = || -> PM {
            let mut gg = Rng::new(bseed);
            mkmap(&mut gg, &mut vec![])
        };
        let m = build();
        {
            let mut gg = Rng::new(bseed);
            let _ = mkmap(&mut gg, &mut log);
        }
        let n_old = m.verif_state().old.map_or(0, |o| o.0);
        let a: PS = { let mm = mkmap(&mut g, &mut log); let mut s = PS::with_hasher(VBuild { kind: hk, seed: 7 }); for k in mm.keys() { s.insert(*k); } if mm.verif_state().old.is_some() { s.reserve(s.len() + 20); } s };
        let b: PS = { let mm = mkmap(&mut g, &mut log); let mut s = PS::with_hasher(VBuild { kind: hk, seed: 8 }); for k in mm.keys() { s.insert(*k / 2 * 3); } s };
        rep.tuples.insert(format!("split {} {} {} sizes {} {} {}", m.verif_state().old.is_some(), a.verif_state().old.is_some(), b.verif_state().old.is_some(), m.len().min(2), a.len().min(2), b.len().min(2)));
        let res = catch_unwind(AssertUnwindSafe(|| {
            let mut p8: Vec<String> = vec![];
            let mut p13: Vec<String> = vec![];
            iter_laws("HashMap::iter", &|| m.iter().map(|(k, v)| (*k, *v)), true, &mut p8);
            iter_laws("HashMap::keys", &|| m.keys().copied(), true, &mut p8);
            iter_laws("HashMap::values", &|| m.values().copied(), true, &mut p8);
            iter_laws("&HashMap into_iter", &|| (&m).into_iter().map(|(k, v)| (*k, *v)), true, &mut p8);
            iter_laws("HashMap::into_iter (of a clone)", &|| m.clone().into_iter(), true, &mut p8);
            // the map itself, in its phase: the old table is consumed first, so position n_old is the seam
            iter_laws_at("HashMap::into_iter", &|| build().into_iter(), true, &[n_old], &mut p8);
            iter_laws_at("HashSet::into_iter", &|| { let mut s = PS::with_hasher(VBuild { kind: hk, seed: 7 }); let b = build(); let split = b.verif_state().old.is_some(); for k in b.keys() { s.insert(*k); } if split { s.reserve(s.len() + 20); } s.into_iter() }, true, &[a.verif_state().old.map_or(0, |o| o.0)], &mut p8);
            // every way of consuming an owning iterator gives back every table it took
            for how in 0..7u8 {
                for owning in 0..2u8 {
                    alloc::arm();
                    {
                        let mut c = build();
                        let mut sink: PM = PM::with_hasher(VBuild { kind: hk, seed: 1 });
                        macro_rules! consume {
                            ($it:expr) => {{
                                let mut it = $it;
                                match how {
                                    0 => it.for_each(drop),
                                    1 => { let _ = it.count(); }
                                    2 => { let _ = it.last(); }
                                    3 => { let _ = it.fold(0u64, |a, (k, _)| a ^ k); }
                                    4 => sink.extend(it),
                                    5 => { let _ = it.next(); let _ = it.max(); }
                                    _ => { let _ = it.nth(n_old); let _: Vec<(u64, u64)> = it.collect(); }
                                }
                            }};
                        }
                        if owning == 0 { consume!(c.drain()); drop(c); } else { consume!(c.into_iter()); }
                        drop(sink);
                    }
                    let (al, fr) = alloc::disarm();
                    if al != fr {
                        p8.push(format!("LEAK: {} consumed by method {how}: {al} tables allocated, {fr} freed", if owning == 0 { "drain()" } else { "into_iter()" }));
                    }
                }
            }
            iter_laws("HashMap::iter().clone()", &|| { let it = m.iter(); let c = it.clone(); drop(it); c.map(|(k, v)| (*k, *v)) }, true, &mut p8);
            iter_laws("HashSet::iter", &|| a.iter().copied(), true, &mut p8);
            iter_laws("HashSet::into_iter (of a clone)", &|| a.clone().into_iter(), true, &mut p8);
            iter_laws("union", &|| a.union(&b).copied(), false, &mut p13);
            iter_laws("intersection", &|| a.intersection(&b).copied(), false, &mut p13);
            iter_laws("difference", &|| a.difference(&b).copied(), false, &mut p13);
            iter_laws("symmetric_difference", &|| a.symmetric_difference(&b).copied(), false, &mut p13);
            iter_laws("symmetric_difference (swapped)", &|| b.symmetric_difference(&a).copied(), false, &mut p13);
            iter_laws("union (with itself)", &|| a.union(&a).copied(), false, &mut p13);
            iter_laws("symmetric_difference (with itself)", &|| a.symmetric_difference(&a).copied(), false, &mut p13);
            // `Debug` of an iterator lists exactly what it has still to yield
            {
                let n = m.len();
                for k in [0usize, 1.min(n), n / 2, n] {
                    let cnt = |s: String, open: char| -> usize { s.chars().filter(|c| *c == open).count() };
                    let mut it = m.iter();
                    for _ in 0..k { it.next(); }
                    if cnt(format!("{:?}", it), '(') != n - k { p8.push(format!("Debug of Iter after {k} of {n}")); }
                    let mut ks = m.keys();
                    for _ in 0..k { ks.next(); }
                    let dk = format!("{:?}", ks);
                    let listed = if dk.trim() == "[]" { 0 } else { dk.split(',').count() };
                    if listed != n - k { p8.push(format!("Debug of Keys after {k} of {n}: {listed} listed")); }
                    let mut vs = m.values();
                    for _ in 0..k { vs.next(); }
                    let dv = format!("{:?}", vs);
                    let listed = if dv.trim() == "[]" { 0 } else { dv.split(',').count() };
                    if listed != n - k { p8.push(format!("Debug of Values after {k} of {n}")); }
                    let mut c = m.clone();
                    let mut d = c.drain();
                    for _ in 0..k { d.next(); }
                    if cnt(format!("{:?}", d), '(') != n - k { p8.push(format!("Debug of Drain after {k} of {n}")); }
                    drop(d);
                    let mut ii = m.clone().into_iter();
                    for _ in 0..k { ii.next(); }
                    if cnt(format!("{:?}", ii), '(') != n - k { p8.push(format!("Debug of IntoIter after {k} of {n}")); }
                }
                let na = a.len();
                let mut si = a.iter();
                if na > 0 { si.next(); }
                let ds = format!("{:?}", si);
                let listed = if ds.trim() == "[]" { 0 } else { ds.split(',').count() };
                if listed != na.saturating_sub(1) { p8.push("Debug of set Iter".into()); }
                let du = format!("{:?}", a.union(&b));
                let listed = if du.trim() == "[]" { 0 } else { du.split(',').count() };
                if listed != a.union(&b).count() { p13.push("Debug of Union".into()); }
            }
            // consuming / mutable iterators: one pass each through the operations that matter, against the first pass
            {
                let seq: Vec<(u64, u64)> = m.clone().drain().collect();
                // (a clone is never mid-resize: also the map itself, rebuilt, with the seam between its tables)
                let seq2: Vec<(u64, u64)> = build().drain().collect();
                for j in [0usize, 1, n_old.saturating_sub(1), n_old, n_old + 1, seq2.len()] {
                    let mut c = build();
                    let mut d = c.drain();
                    let x = d.nth(j);
                    let left = seq2.len().saturating_sub(j + 1);
                    if x.as_ref() != seq2.get(j) || d.len() != left { p8.push(format!("drain of a map with {n_old} parked elements: nth({j}) of {}", seq2.len())); }
                    let got: Vec<(u64, u64)> = d.collect();
                    if got.len() != left || (j + 1 <= seq2.len() && got != seq2[j + 1..]) { p8.push(format!("drain: after nth({j}) {} elements follow, expected {left}", got.len())); }
                    let mut c = build();
                    let sk: Vec<(u64, u64)> = c.drain().skip(j).collect();
                    if sk.len() != seq2.len().saturating_sub(j) { p8.push(format!("drain().skip({j}) yields {}", sk.len())); }
                }
                for j in [0usize, 1, seq.len() / 2, seq.len(), seq.len() + 1] {
                    let mut c = m.clone();
                    let mut d = c.drain();
                    let x = d.nth(j);
                    let left = seq.len().saturating_sub(j + 1);
                    if x.as_ref() != seq.get(j) || d.len() != left || d.size_hint() != (left, Some(left)) { p8.push(format!("drain: nth({j}) of {}", seq.len())); }
                    let restc = d.count();
                    if restc != left { p8.push(format!("drain: count() after nth({j})")); }
                    if !c.is_empty() { p8.push("map not empty after drain".into()); }
                    let mut c2 = m.clone();
                    let want: Vec<(u64, u64)> = c2.iter().skip(j).map(|(k, v)| (*k, *v)).collect();
                    let got: Vec<(u64, u64)> = c2.iter_mut().skip(j).map(|(k, v)| (*k, *v)).collect();
                    if got != want { p8.push(format!("iter_mut().skip({j})")); }
                    let mut c3 = m.clone();
                    let wanty = c3.values().nth(j).copied();
                    let mut im = c3.values_mut();
                    let y = im.nth(j).map(|v| *v);
                    if y != wanty || im.len() != left { p8.push(format!("values_mut: nth({j})")); }
                }
            }
            (p8, p13)
        }));
        rep.evaluations += 1;
        let (p8, p13) = match res {
            Ok(x) => x,
            Err(_) => (vec![format!("panicked: {}", LAST_PANIC.with(|p| p.borrow().lines().last().unwrap_or("").to_string()))], vec![]),
        };
        if !p8.is_empty() { rep.fail("C08", p8.join("; "), log.join("\n")); }
        if p8.iter().any(|p| p.starts_with("LEAK")) { rep.fail("C06", p8.iter().filter(|p| p.starts_with("LEAK")).cloned().collect::<Vec<_>>().join("; "), log.join("\n")); }
        if !p13.is_empty() { rep.fail("C13", p13.join("; "), log.join("\n")); rep.fail("C08", p13.join("; "), log.join("\n")); }
        if rep.samples.is_empty() { rep.samples.push(log.join(" ; ")); }
    }
}

// ------------------------------------------------------------------------------------------------
// Infallible requests the allocator refuses.  `reserve` / `with_capacity` / `extend` have no error to return: when the
// allocation fails they must not come back (hashbrown calls `handle_alloc_error`, the process aborts).  Coming back
// normally without the room is the one outcome C10 forbids, and it cannot be told from "did not return" in-process:
// each case runs in a child process (this binary, `extra oomchild <case>`), which exits 0 only if the call RETURNED.
fn oom_child(args: &[String]) {
    let case: u64 = args.get(3).and_then(|s| s.parse().ok()).unwrap_or(0);
    let phase = case % 4;
    let call = case / 4;
    let mut m: HashMap<u64, u64, VBuild> = HashMap::with_hasher(VBuild::default());
    match phase {
        0 => {}
        1 => { for i in 0..10 { m.insert(i, i); } }
        2 => { for i in 0..29 { m.insert(i, i); } }
        _ => { for i in 0..20 { m.insert(i, i); } m.reserve(100); }
    }
    let cap0 = m.capacity();
    // 2^27 elements of 16 bytes: a valid layout (no capacity overflow), above the harness allocator's 1 GiB limit
    let n: usize = 1 << 27;
    match call {
        0 => m.reserve(n),
        1 => {
            struct Hinted(usize);
            impl Iterator for Hinted {
                type Item = (u64, u64);
                fn next(&mut self) -> Option<(u64, u64)> { None }
                fn size_hint(&self) -> (usize, Option<usize>) { (self.0, None) }
            }
            m.extend(Hinted(2 * n));
        }
        2 => { let w: HashMap<u64, u64, VBuild> = HashMap::with_capacity_and_hasher(n, VBuild::default()); m = w; }
        _ => { let mut s: HashSet<u64, VBuild> = HashSet::with_hasher(VBuild::default()); for k in m.keys() { s.insert(*k); } s.reserve(n); println!("RETURNED capacity {} -> {}", cap0, s.capacity()); std::process::exit(0); }
    }
    println!("RETURNED capacity {} -> {}", cap0, m.capacity());
    std::process::exit(0);
}

fn oom(rep: &mut Report, _seed: u64, _scale: u64) {
    let exe = std::env::current_exe().expect("own path");
    let calls = ["HashMap::reserve", "HashMap::extend (hint)", "HashMap::with_capacity_and_hasher", "HashSet::reserve"];
    let phases = ["empty", "10 elements", "resize in flight", "everything parked"];
    for case in 0..16u64 {
        let out = std::process::Command::new(&exe).args(["extra", "oomchild", &case.to_string()]).output();
        rep.evaluations += 1;
        rep.tuples.insert(format!("case{case}"));
        match out {
            Ok(o) => {
                let text = String::from_utf8_lossy(&o.stdout).to_string();
                if o.status.success() || text.contains("RETURNED") {
                    let what = format!("{} of 2^27 more elements on a map ({}) came back normally although the allocator refused the table: {}", calls[(case / 4) as usize], phases[(case % 4) as usize], text.trim());
                    rep.fail("C10", what.clone(), format!("gharness extra oomchild {case}"));
                    rep.fail("C04", what, format!("gharness extra oomchild {case}"));
                }
            }
            Err(e) => {
                rep.bump("spawn_failed", 1);
                let _ = e;
            }
        }
    }
}
