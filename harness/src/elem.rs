//! Instrumented element types: every Hash / Eq / Clone / Drop goes through a thread-local bus
//! that counts calls, can panic on the n-th call (fuse), and keeps a ledger of live objects.
use std::borrow::Borrow;
use std::cell::{Cell, RefCell};
use std::hash::{BuildHasher, Hash, Hasher};

pub const HASH: u8 = 1;
pub const EQ: u8 = 2;
pub const CLONE: u8 = 4;
pub const CLOSURE: u8 = 8;
/// a value's destructor (fault driver only; never fires while already unwinding)
pub const DROP: u8 = 16;

thread_local! {
    static NEXT_ID: Cell<u64> = const { Cell::new(1) };
    /// per id: 0 never created, 1 live, 2 dropped.  (A `Vec<u8>`: its allocations have alignment 1,
    /// so they are never mistaken for table allocations; std's own hash set would be.)
    static LIVE: RefCell<Vec<u8>> = const { RefCell::new(Vec::new()) };
    static NLIVE: Cell<usize> = const { Cell::new(0) };
    /// ids dropped while the window is open
    static DROPPED: RefCell<Vec<u64>> = const { RefCell::new(Vec::new()) };
    static WINDOW: Cell<bool> = const { Cell::new(false) };
    static HASHES: Cell<u64> = const { Cell::new(0) };
    static EQS: Cell<u64> = const { Cell::new(0) };
    static CLONES: Cell<u64> = const { Cell::new(0) };
    static CALLBACKS: Cell<u64> = const { Cell::new(0) };
    static FUSE: Cell<i64> = const { Cell::new(-1) };
    static FUSE_KINDS: Cell<u8> = const { Cell::new(0) };
    static FIRED: Cell<bool> = const { Cell::new(false) };
    /// anomalies detected by the element types themselves (double drop, use of a dead object)
    static ANOMALIES: RefCell<Vec<String>> = const { RefCell::new(Vec::new()) };
}

pub fn next_id() -> u64 {
    NEXT_ID.with(|n| {
        let v = n.get();
        n.set(v + 1);
        v
    })
}
pub fn peek_next_id() -> u64 {
    NEXT_ID.with(|n| n.get())
}
pub fn reset_ids() {
    NEXT_ID.with(|n| n.set(1));
    LIVE.with(|l| l.borrow_mut().clear());
    NLIVE.with(|n| n.set(0));
    DROPPED.with(|d| d.borrow_mut().clear());
    ANOMALIES.with(|a| a.borrow_mut().clear());
    disarm_fuse();
}
pub fn live_count() -> usize {
    NLIVE.with(|n| n.get())
}
pub fn is_live(id: u64) -> bool {
    LIVE.with(|l| l.borrow().get(id as usize).copied() == Some(1))
}
pub fn anomaly(s: String) {
    ANOMALIES.with(|a| a.borrow_mut().push(s));
}
pub fn take_anomalies() -> Vec<String> {
    ANOMALIES.with(|a| std::mem::take(&mut *a.borrow_mut()))
}
pub fn open_window() {
    DROPPED.with(|d| d.borrow_mut().clear());
    HASHES.with(|c| c.set(0));
    EQS.with(|c| c.set(0));
    CLONES.with(|c| c.set(0));
    CALLBACKS.with(|c| c.set(0));
    WINDOW.with(|w| w.set(true));
}
pub struct WindowStats {
    pub hashes: u64,
    pub eqs: u64,
    pub clones: u64,
    pub callbacks: u64,
    pub dropped: Vec<u64>,
}
pub fn close_window() -> WindowStats {
    WINDOW.with(|w| w.set(false));
    WindowStats {
        hashes: HASHES.with(|c| c.get()),
        eqs: EQS.with(|c| c.get()),
        clones: CLONES.with(|c| c.get()),
        callbacks: CALLBACKS.with(|c| c.get()),
        dropped: DROPPED.with(|d| std::mem::take(&mut *d.borrow_mut())),
    }
}
/// Arm the fuse: the `n`-th (0-based) callback whose kind is in `kinds` panics.
pub fn arm_fuse(n: i64, kinds: u8) {
    FUSE.with(|f| f.set(n));
    FUSE_KINDS.with(|k| k.set(kinds));
    FIRED.with(|f| f.set(false));
}
pub fn disarm_fuse() {
    FUSE.with(|f| f.set(-1));
    FUSE_KINDS.with(|k| k.set(0));
}
pub fn fuse_fired() -> bool {
    FIRED.with(|f| f.get())
}
pub fn tick(kind: u8) {
    match kind {
        HASH => HASHES.with(|c| c.set(c.get() + 1)),
        EQ => EQS.with(|c| c.set(c.get() + 1)),
        CLONE => CLONES.with(|c| c.set(c.get() + 1)),
        _ => {}
    }
    CALLBACKS.with(|c| c.set(c.get() + 1));
    if FUSE_KINDS.with(|k| k.get()) & kind == 0 {
        return;
    }
    let f = FUSE.with(|f| f.get());
    if f < 0 {
        return;
    }
    if f == 0 {
        FUSE.with(|f| f.set(-1));
        FIRED.with(|f| f.set(true));
        panic!("injected");
    }
    FUSE.with(|x| x.set(f - 1));
}
fn born(id: u64) {
    let fresh = LIVE.with(|l| {
        let mut l = l.borrow_mut();
        if l.len() <= id as usize {
            l.resize(id as usize + 64, 0);
        }
        let was = l[id as usize];
        l[id as usize] = 1;
        was == 0
    });
    if fresh {
        NLIVE.with(|n| n.set(n.get() + 1));
    } else {
        anomaly(format!("object id {id} created twice"));
    }
}
fn died(id: u64) {
    let ok = LIVE.with(|l| {
        let mut l = l.borrow_mut();
        match l.get_mut(id as usize) {
            Some(x) if *x == 1 => {
                *x = 2;
                true
            }
            _ => false,
        }
    });
    if ok {
        NLIVE.with(|n| n.set(n.get() - 1));
    }
    if !ok {
        anomaly(format!("object id {id} dropped twice (or never created)"));
    }
    if WINDOW.with(|w| w.get()) {
        DROPPED.with(|d| d.borrow_mut().push(id));
    }
}
fn check_live(id: u64, canary: u64, what: &str) {
    if canary != id ^ 0x5a5a_5a5a_5a5a_5a5a {
        anomaly(format!("object id {id}: canary destroyed ({what})"));
    } else if !is_live(id) {
        anomaly(format!("object id {id} used after drop ({what})"));
    }
}

/// The borrowed form of a key: lookups use `&Q` so that no key object is created for a query.
#[derive(Debug)]
#[repr(transparent)]
pub struct Q(pub u64);
impl Hash for Q {
    fn hash<H: Hasher>(&self, s: &mut H) {
        tick(HASH);
        s.write_u64(self.0)
    }
}
impl PartialEq for Q {
    fn eq(&self, o: &Q) -> bool {
        tick(EQ);
        self.0 == o.0
    }
}
impl Eq for Q {}

/// Heap-owning key with identity.
#[derive(Debug)]
pub struct Key {
    pub q: Q,
    pub id: u64,
    canary: Box<u64>,
}
impl Key {
    pub fn with_id(k: u64, id: u64) -> Key {
        born(id);
        Key { q: Q(k), id, canary: Box::new(id ^ 0x5a5a_5a5a_5a5a_5a5a) }
    }
    pub fn new(k: u64) -> Key {
        Key::with_id(k, next_id())
    }
    pub fn k(&self) -> u64 {
        self.q.0
    }
    pub fn check(&self, what: &str) {
        check_live(self.id, *self.canary, what)
    }
}
impl Drop for Key {
    fn drop(&mut self) {
        died(self.id);
        *self.canary = 0;
    }
}
impl Borrow<Q> for Key {
    fn borrow(&self) -> &Q {
        self.check("borrow");
        &self.q
    }
}
impl Hash for Key {
    fn hash<H: Hasher>(&self, s: &mut H) {
        self.check("hash");
        self.q.hash(s)
    }
}
impl PartialEq for Key {
    fn eq(&self, o: &Key) -> bool {
        self.check("eq");
        o.check("eq");
        self.q == o.q
    }
}
impl Eq for Key {}
impl Clone for Key {
    fn clone(&self) -> Key {
        self.check("clone");
        tick(CLONE);
        Key::new(self.q.0)
    }
}

#[derive(Debug)]
pub struct Val {
    pub v: u64,
    pub id: u64,
    canary: Box<u64>,
}
impl Val {
    pub fn with_id(v: u64, id: u64) -> Val {
        born(id);
        Val { v, id, canary: Box::new(id ^ 0x5a5a_5a5a_5a5a_5a5a) }
    }
    pub fn new(v: u64) -> Val {
        Val::with_id(v, next_id())
    }
    pub fn check(&self, what: &str) {
        check_live(self.id, *self.canary, what)
    }
}
impl Drop for Val {
    fn drop(&mut self) {
        died(self.id);
        *self.canary = 0;
        if FUSE_KINDS.with(|k| k.get()) & DROP != 0 && !std::thread::panicking() {
            let f = FUSE.with(|f| f.get());
            if f == 0 {
                FUSE.with(|f| f.set(-1));
                FIRED.with(|f| f.set(true));
                panic!("injected (destructor)");
            } else if f > 0 {
                FUSE.with(|x| x.set(f - 1));
            }
        }
    }
}
impl Clone for Val {
    fn clone(&self) -> Val {
        self.check("clone");
        tick(CLONE);
        Val::new(self.v)
    }
}
impl PartialEq for Val {
    fn eq(&self, o: &Val) -> bool {
        self.check("eq");
        o.check("eq");
        tick(EQ);
        self.v == o.v
    }
}
impl Eq for Val {}
impl Default for Val {
    fn default() -> Val {
        Val::new(0)
    }
}

/// Hash builders with cloneable internal state.
#[derive(Clone, Copy, Debug, PartialEq, Eq)]
pub enum HKind {
    Mul,
    Low,
    Const,
    /// the key itself (plus the seed): neighbouring keys land in neighbouring buckets, so removals leave holes
    /// and tombstones inside long runs of full buckets
    Id,
}
#[derive(Clone, Debug)]
pub struct VBuild {
    pub kind: HKind,
    pub seed: u64,
}
impl Default for VBuild {
    fn default() -> Self {
        VBuild { kind: HKind::Mul, seed: 0 }
    }
}
pub struct VHasher {
    kind: HKind,
    seed: u64,
    acc: u64,
}
impl BuildHasher for VBuild {
    type Hasher = VHasher;
    fn build_hasher(&self) -> VHasher {
        VHasher { kind: self.kind, seed: self.seed, acc: 0 }
    }
}
impl Hasher for VHasher {
    fn write(&mut self, bytes: &[u8]) {
        for b in bytes {
            self.acc = self.acc.rotate_left(8) ^ (*b as u64);
        }
    }
    fn write_u64(&mut self, x: u64) {
        self.acc = x;
    }
    fn finish(&self) -> u64 {
        match self.kind {
            HKind::Mul => {
                let x = (self.acc ^ self.seed).wrapping_mul(0x9E37_79B9_7F4A_7C15);
                x ^ (x >> 29)
            }
            HKind::Low => (self.acc.wrapping_add(self.seed)) % 8,
            HKind::Const => self.seed,
            HKind::Id => self.acc.wrapping_add(self.seed),
        }
    }
}
