//! gharness — drives the real griddle (built from /repo's working tree with the `verif-hooks`
//! feature) through generated or replayed operation histories, writes the transcript for the Lean
//! model driver, and evaluates the model-independent oracles.
mod alloc;
mod elem;
mod gen;
mod ops;
mod watch;
mod extra;

use elem::*;
use gen::*;
use ops::*;
use std::collections::BTreeMap;
use std::io::Write;
use std::sync::atomic::{AtomicUsize, Ordering};
use std::sync::Mutex;

#[global_allocator]
static GLOBAL: alloc::Counting = alloc::Counting;

pub struct HistResult {
    pub id: usize,
    pub seed: u64,
    pub hk: HKind,
    pub ops: Vec<(usize, Op)>,
    pub transcript: Vec<String>,
    pub fails: Vec<DirectFail>,
    pub stats: Stats,
}

pub fn hk_name(h: HKind) -> &'static str {
    match h {
        HKind::Mul => "mul",
        HKind::Low => "low",
        HKind::Const => "const",
        HKind::Id => "id",
    }
}
pub fn hk_parse(s: &str) -> HKind {
    match s {
        "low" => HKind::Low,
        "const" => HKind::Const,
        "id" => HKind::Id,
        _ => HKind::Mul,
    }
}

pub fn header(id: &str, hk: HKind) -> String {
    format!(
        "H id={id} debug={} R={} elem={} limit={} hasher={}",
        cfg!(debug_assertions) as u8,
        probe_r(),
        std::mem::size_of::<(Key, Val)>(),
        alloc::LIMIT,
        hk_name(hk)
    )
}

pub fn probe_r() -> usize {
    let m: M = M::with_hasher(VBuild::default());
    m.verif_state().r
}

/// End of a history: dump and drop every map, then the ledger must balance.
pub fn finish(w: &mut World) {
    for mid in 0..w.maps.len() {
        if w.maps[mid].is_some() {
            w.exec(mid, &Op::Dump);
            w.exec(mid, &Op::Drop);
        }
    }
    let live = live_count();
    if live != 0 && !w.leak_allowed {
        w.fails.borrow_mut().push(DirectFail { props: vec!["C06"], op_index: w.op_index, what: format!("{live} key/value objects still live after every map was dropped") });
    }
    let lt = alloc::live_tables();
    if lt != 0 && !w.leak_allowed {
        w.fails.borrow_mut().push(DirectFail { props: vec!["C06", "C03"], op_index: w.op_index, what: format!("{lt} table allocations still live after every map was dropped") });
    }
    for a in take_anomalies() {
        w.fails.borrow_mut().push(DirectFail { props: vec!["C05", "C06"], op_index: w.op_index, what: a });
    }
}

pub fn fresh_world(hk: HKind) -> World {
    reset_ids();
    alloc::set_live(0);
    let mut w = World::new(hk);
    // the properties fix the per-call quota at R = 8; the direct oracles use that constant, not
    // whatever the crate was compiled with
    w.r = 8;
    if probe_r() != 8 {
        w.fails.borrow_mut().push(DirectFail { props: vec!["C02", "C03"], op_index: 0, what: format!("the crate moves R = {} elements per call, the properties say 8", probe_r()) });
    }
    w
}

pub fn run_ops(hk: HKind, ops: &[(usize, Op)], quiet: bool) -> World {
    let mut w = fresh_world(hk);
    w.quiet_transcript = quiet;
    for (i, (mid, op)) in ops.iter().enumerate() {
        watch::beat(127, i);
        w.exec(*mid, op);
    }
    watch::beat(127, ops.len());
    finish(&mut w);
    watch::idle(127);
    w
}

fn gen_history(slot: usize, id: usize, seed: u64, slice: Slice, nops: usize, max_len: usize, progress: &str, quiet: bool) -> HistResult {
    let hseed = seed.wrapping_mul(1_000_003).wrapping_add(id as u64);
    let mut g = Gen::new(hseed, slice, max_len);
    // the fully colliding hasher is quadratic: only for small targets
    let hk = match g.rng.below(6) {
        5 => HKind::Id,
        0 | 1 => HKind::Mul,
        2 | 3 => {
            if g.target <= 8000 { HKind::Low } else { HKind::Mul }
        }
        _ => {
            if g.target <= 300 { HKind::Const } else { HKind::Mul }
        }
    };
    let mut w = fresh_world(hk);
    w.quiet_transcript = quiet;
    let pfile = if progress.is_empty() { String::new() } else { format!("{progress}/h{id}.ops") };
    if !pfile.is_empty() {
        if let Ok(mut f) = std::fs::File::create(&pfile) {
            let _ = writeln!(f, "# history {id} (seed {hseed})\nH hasher={}", hk_name(hk));
            w.progress = Some(f);
        }
    }
    let mut ops = vec![];
    for _ in 0..nops {
        watch::beat(slot, id);
        let (mid, op) = g.next(&w);
        w.exec(mid, &op);
        ops.push((mid, op));
    }
    watch::beat(slot, id);
    finish(&mut w);
    watch::idle(slot);
    w.progress = None;
    if !pfile.is_empty() {
        let _ = std::fs::remove_file(&pfile);
    }
    let fails = w.fails.take();
    HistResult { id, seed: hseed, hk, ops, transcript: std::mem::take(&mut w.transcript), fails, stats: w.stats.clone() }
}

/// Delta-debug a failing history: keep removing ops while a failure for `prop` remains.
pub fn shrink(hk: HKind, ops: &[(usize, Op)], prop: &str, full: bool) -> Vec<(usize, Op)> {
    let started = std::time::Instant::now();
    let fails_with = |o: &[(usize, Op)]| -> bool {
        let w = run_ops(hk, o, true);
        let r = w.fails.borrow().iter().any(|f| f.props.contains(&prop));
        r
    };
    let mut cur: Vec<(usize, Op)> = ops.to_vec();
    if !fails_with(&cur) {
        return cur;
    }
    // cut everything after the first failing op
    let w = run_ops(hk, &cur, true);
    let first = w.fails.borrow().iter().find(|f| f.props.contains(&prop)).map(|f| f.op_index);
    if let Some(op_index) = first {
        if op_index <= cur.len() {
            let cut: Vec<_> = cur[..op_index].to_vec();
            if fails_with(&cut) {
                cur = cut;
            }
        }
    }
    if !full {
        // many histories fail: the cut at the first failing operation is the replay
        return cur;
    }
    let mut chunk = (cur.len() / 2).max(1);
    let mut budget = 600;
    while chunk >= 1 && budget > 0 && started.elapsed().as_secs() < 8 {
        let mut i = 0;
        let mut progressed = false;
        while i < cur.len() && budget > 0 && started.elapsed().as_secs() < 8 {
            let end = (i + chunk).min(cur.len());
            let mut cand = cur[..i].to_vec();
            cand.extend_from_slice(&cur[end..]);
            budget -= 1;
            if !cand.is_empty() && fails_with(&cand) {
                cur = cand;
                progressed = true;
            } else {
                i += chunk;
            }
        }
        if chunk == 1 && !progressed {
            break;
        }
        if !progressed || chunk > 1 {
            chunk = if chunk == 1 { 1 } else { chunk / 2 };
        }
    }
    cur
}

pub fn write_ops_file(path: &str, hk: HKind, ops: &[(usize, Op)], comments: &[String]) {
    let mut f = std::fs::File::create(path).expect("create ops file");
    for c in comments {
        writeln!(f, "# {c}").unwrap();
    }
    writeln!(f, "H hasher={}", hk_name(hk)).unwrap();
    for (mid, op) in ops {
        writeln!(f, "{}", fmt_op(*mid, op)).unwrap();
    }
}

pub fn read_ops_file(path: &str) -> (HKind, Vec<(usize, Op)>) {
    let s = std::fs::read_to_string(path).expect("read ops file");
    let mut hk = HKind::Mul;
    let mut ops = vec![];
    for l in s.lines() {
        let l = l.trim();
        if l.is_empty() || l.starts_with('#') {
            continue;
        }
        if let Some(rest) = l.strip_prefix("H ") {
            for t in rest.split_whitespace() {
                if let Some(h) = t.strip_prefix("hasher=") {
                    hk = hk_parse(h);
                }
            }
            continue;
        }
        match parse_op(l) {
            Some(line) => ops.push((line.mid, line.op)),
            None => eprintln!("unparsable op line: {l}"),
        }
    }
    (hk, ops)
}

fn json_str(s: &str) -> String {
    let mut o = String::from("\"");
    for c in s.chars() {
        match c {
            '"' => o.push_str("\\\""),
            '\\' => o.push_str("\\\\"),
            '\n' => o.push_str("\\n"),
            c if (c as u32) < 32 => o.push(' '),
            c => o.push(c),
        }
    }
    o.push('"');
    o
}

fn arg<'a>(args: &'a [String], name: &str) -> Option<&'a str> {
    args.iter().position(|a| a == name).and_then(|i| args.get(i + 1)).map(|s| s.as_str())
}

fn main() {
    install_panic_hook();
    if std::env::var("GH_TRACE_ALLOC").is_ok() {
        alloc::TRACE.store(true, std::sync::atomic::Ordering::Relaxed);
    }
    let args: Vec<String> = std::env::args().collect();
    let cmd = args.get(1).map(|s| s.as_str()).unwrap_or("");
    match cmd {
        "run" => cmd_run(&args),
        "replay" => cmd_replay(&args),
        "extra" => extra::cmd_extra(&args),
        // the operations of one generated history (generation is adaptive, so the history is executed again)
        "ops" => {
            let slice = Slice::parse(arg(&args, "--slice").unwrap_or("core")).expect("slice");
            let seed: u64 = arg(&args, "--seed").and_then(|s| s.parse().ok()).unwrap_or(1);
            let id: usize = arg(&args, "--id").and_then(|s| s.parse().ok()).unwrap_or(0);
            let nops: usize = arg(&args, "--ops").and_then(|s| s.parse().ok()).unwrap_or(300);
            let max_len: usize = arg(&args, "--maxlen").and_then(|s| s.parse().ok()).unwrap_or(500);
            let upto: usize = arg(&args, "--upto").and_then(|s| s.parse().ok()).unwrap_or(usize::MAX);
            watch::start();
            let r = gen_history(0, id, seed, slice, nops, max_len, "", true);
            println!("H hasher={}", hk_name(r.hk));
            for (mid, op) in r.ops.iter().take(upto) {
                println!("{}", fmt_op(*mid, op));
            }
        }
        "info" => {
            println!("R={} debug={} elem={}", probe_r(), cfg!(debug_assertions), std::mem::size_of::<(Key, Val)>());
        }
        _ => {
            eprintln!("usage: gharness run|replay|extra|info …");
            std::process::exit(2);
        }
    }
}

fn cmd_replay(args: &[String]) {
    let file = arg(args, "--file").expect("--file");
    let (hk, ops) = read_ops_file(file);
    watch::start();
    let w = run_ops(hk, &ops, false);
    println!("{}", header("replay", hk));
    for l in &w.transcript {
        println!("{l}");
    }
    for f in w.fails.borrow().iter() {
        eprintln!("DIRECT-FAIL props={} op={} what={}", f.props.join(","), f.op_index, f.what);
    }
    if !w.fails.borrow().is_empty() {
        std::process::exit(1);
    }
}

fn cmd_run(args: &[String]) {
    let slice = Slice::parse(arg(args, "--slice").unwrap_or("core")).expect("slice");
    let seed: u64 = arg(args, "--seed").and_then(|s| s.parse().ok()).unwrap_or(1);
    let hists: usize = arg(args, "--hists").and_then(|s| s.parse().ok()).unwrap_or(10);
    let nops: usize = arg(args, "--ops").and_then(|s| s.parse().ok()).unwrap_or(300);
    let max_len: usize = arg(args, "--maxlen").and_then(|s| s.parse().ok()).unwrap_or(500);
    let threads: usize = arg(args, "--threads").and_then(|s| s.parse().ok()).unwrap_or(8);
    let out = arg(args, "--out").unwrap_or("/dev/null").to_string();
    let report = arg(args, "--report").unwrap_or("/dev/null").to_string();
    let replay_dir = arg(args, "--replays").unwrap_or("").to_string();
    let tag = arg(args, "--tag").unwrap_or("run").to_string();
    let progress = arg(args, "--progress").unwrap_or("").to_string();
    let quiet = args.iter().any(|a| a == "--no-transcript");

    let next = AtomicUsize::new(0);
    let results: Mutex<Vec<HistResult>> = Mutex::new(vec![]);
    watch::start();
    std::thread::scope(|s| {
        for slot in 0..threads {
            let (next, results, progress) = (&next, &results, &progress);
            s.spawn(move || {
                install_panic_hook();
                loop {
                    let i = next.fetch_add(1, Ordering::SeqCst);
                    if i >= hists {
                        break;
                    }
                    let r = gen_history(slot, i, seed, slice, nops, max_len, progress, quiet);
                    results.lock().unwrap().push(r);
                }
            });
        }
    });
    let mut results = results.into_inner().unwrap();
    results.sort_by_key(|r| r.id);

    // transcript
    let mut tf = std::io::BufWriter::new(std::fs::File::create(&out).expect("create transcript"));
    for r in &results {
        writeln!(tf, "{}", header(&format!("{}-{}", tag, r.id), r.hk)).unwrap();
        for l in &r.transcript {
            writeln!(tf, "{l}").unwrap();
        }
    }
    tf.flush().unwrap();

    // aggregate stats
    let mut total = Stats::default();
    let mut fails_json: Vec<String> = vec![];
    let mut shrunk_fully = 0usize;
    let mut samples: Vec<String> = vec![];
    let mut hist_index: Vec<String> = vec![];
    for r in &results {
        total.ops += r.stats.ops;
        total.ops_split += r.stats.ops_split;
        total.growths += r.stats.growths;
        total.old_removals += r.stats.old_removals;
        total.max_buckets = total.max_buckets.max(r.stats.max_buckets);
        total.max_len = total.max_len.max(r.stats.max_len);
        for (k, v) in &r.stats.matrix {
            *total.matrix.entry(k.clone()).or_insert(0) += v;
        }
        for (k, v) in &r.stats.panics {
            *total.panics.entry(k.clone()).or_insert(0) += v;
        }
        for t in &r.stats.tuples {
            total.tuples.insert(t.clone());
        }
        if samples.len() < 2 {
            let s: Vec<String> = r.ops.iter().take(40).map(|(m, o)| fmt_op(*m, o)).collect();
            samples.push(json_str(&format!("[{} hasher={}] {}", r.id, hk_name(r.hk), s.join(" ; "))));
        }
        hist_index.push(format!("{{\"id\":{},\"seed\":{},\"hasher\":{},\"ops\":{}}}", r.id, r.seed, json_str(hk_name(r.hk)), r.ops.len()));
        if !r.fails.is_empty() {
            // one replay per (history, property): shrunk
            let mut by_prop: BTreeMap<&str, &DirectFail> = BTreeMap::new();
            for f in &r.fails {
                for p in &f.props {
                    by_prop.entry(p).or_insert(f);
                }
            }
            for (p, f) in by_prop {
                let mut path = String::new();
                let mut shrunk_len = r.ops.len();
                let mut what = f.what.clone();
                if !replay_dir.is_empty() {
                    let small = shrink(r.hk, &r.ops, p, shrunk_fully < 6);
                    shrunk_fully += 1;
                    shrunk_len = small.len();
                    let w2 = run_ops(r.hk, &small, true);
                    if let Some(f2) = w2.fails.borrow().iter().find(|x| x.props.contains(&p)) {
                        what = f2.what.clone();
                    }
                    path = format!("{}/{}-{}-{}-h{}.ops", replay_dir, p, tag, seed, r.id);
                    write_ops_file(&path, r.hk, &small, &[format!("property {p}: {what}"), format!("slice {:?} seed {} history {}", slice, seed, r.id), "replay: gharness replay --file <this file>".to_string()]);
                }
                fails_json.push(format!(
                    "{{\"prop\":{},\"hist\":{},\"op\":{},\"what\":{},\"replay\":{},\"shrunk_ops\":{}}}",
                    json_str(p), r.id, f.op_index, json_str(&what), json_str(&path), shrunk_len
                ));
            }
        }
    }
    let matrix: Vec<String> = total.matrix.iter().map(|((k, ph), v)| format!("{}:{}", json_str(&format!("{k}@{ph}")), v)).collect();
    let panics: Vec<String> = total.panics.iter().map(|(k, v)| format!("{}:{}", json_str(k), v)).collect();
    let rep = format!(
        "{{\"slice\":{},\"seed\":{},\"hists\":{},\"ops\":{},\"ops_with_resize_pending\":{},\"growths\":{},\"old_table_removals\":{},\"max_buckets\":{},\"max_len\":{},\"distinct_nontrivial\":{},\"R\":{},\"debug\":{},\"matrix\":{{{}}},\"panics\":{{{}}},\"fails\":[{}],\"samples\":[{}],\"histories\":[{}]}}",
        json_str(&format!("{:?}", slice)),
        seed,
        results.len(),
        total.ops,
        total.ops_split,
        total.growths,
        total.old_removals,
        total.max_buckets,
        total.max_len,
        total.tuples.len(),
        probe_r(),
        cfg!(debug_assertions),
        matrix.join(","),
        panics.join(","),
        fails_json.join(","),
        samples.join(","),
        hist_index.join(",")
    );
    std::fs::write(&report, rep).expect("write report");
    let nf = fails_json.len();
    println!("gharness run slice={:?} hists={} ops={} split-ops={} growths={} direct-fails={}", slice, results.len(), total.ops, total.ops_split, total.growths, nf);
}
