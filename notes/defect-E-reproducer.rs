use griddle::HashMap;
use std::cell::Cell;
use std::panic::{catch_unwind, AssertUnwindSafe};
thread_local! { static FUSE: Cell<i64> = Cell::new(-1); }
#[derive(Clone, PartialEq, Eq, Debug)]
struct K(u64);
impl std::hash::Hash for K { fn hash<H: std::hash::Hasher>(&self, s: &mut H) {
    let f = FUSE.with(|f| f.get()); if f == 0 { FUSE.with(|f| f.set(-1)); panic!("injected"); } if f > 0 { FUSE.with(|x| x.set(f - 1)); }
    self.0.hash(s) } }
fn main() {
    std::panic::set_hook(Box::new(|i| { println!("   panic: {}", format!("{i}").lines().last().unwrap_or("")); }));
    let mut src: HashMap<K, u64> = HashMap::new();
    for i in 0..20 { src.insert(K(i), i); }          // no leftovers needed: 20 in a 32-bucket table? (28 cap) 
    let mut dst: HashMap<K, u64> = HashMap::with_capacity(100);
    for i in 0..5 { dst.insert(K(1000 + i), 1); }
    println!("src len {} cap {}; dst len {} cap {}", src.len(), src.capacity(), dst.len(), dst.capacity());
    FUSE.with(|f| f.set(7));
    let r = catch_unwind(AssertUnwindSafe(|| dst.clone_from(&src)));
    println!("clone_from panicked: {}", r.is_err());
    println!("dst len {} iter count {} cap {}", dst.len(), dst.iter().count(), dst.capacity());
    let phantom: Vec<u64> = (0..20).filter(|i| dst.get(&K(*i)).is_some()).collect();
    println!("keys found by get although len()==0: {:?}", phantom);
    let r = catch_unwind(AssertUnwindSafe(|| { for i in 0..200 { dst.insert(K(5000 + i), i); } }));
    println!("200 inserts afterwards panicked: {}  len {} iter {}", r.is_err(), dst.len(), dst.iter().count());
}
