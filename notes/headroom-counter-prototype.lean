/-! Counter abstraction of griddle's RawTable, to validate the headroom arithmetic (I3). -/
def ceilDiv (a r : Nat) : Nat := (a + r - 1) / r

theorem ceilDiv_sub (L R : Nat) (hR : 0 < R) (h : R ≤ L) : ceilDiv (L - R) R + 1 = ceilDiv L R := by
  unfold ceilDiv
  have : L + R - 1 = (L - R + R - 1) + R := by omega
  rw [this, Nat.add_div_right _ hR]

theorem ceilDiv_zero (R : Nat) (hR : 0 < R) : ceilDiv 0 R = 0 := by
  unfold ceilDiv; simp; omega

theorem ceilDiv_pos (L R : Nat) (hR : 0 < R) (h : 0 < L) : 0 < ceilDiv L R := by
  unfold ceilDiv; apply Nat.div_pos <;> omega

theorem ceilDiv_mono (a b R : Nat) (h : a ≤ b) : ceilDiv a R ≤ ceilDiv b R := by
  unfold ceilDiv; exact Nat.div_le_div_right (by omega)

structure C where
  gl : Nat          -- main.growth_left
  lo : Bool         -- leftovers.is_some()
  L  : Nat          -- old table len (0 if !lo)
deriving Repr, DecidableEq

def I3 (R : Nat) (s : C) : Prop := (s.lo = true → max 1 (s.L + ceilDiv s.L R) ≤ s.gl) ∧ (s.lo = false → s.L = 0)

/-- `carry`: moves m = min R L; `hits` of them land on tombstones (any 0 ≤ hits ≤ m). -/
def carry (R : Nat) (s : C) (hits : Nat) : C :=
  if s.lo then
    let m := min R s.L
    { gl := s.gl - (m - hits), lo := decide (R < s.L), L := s.L - m }
  else s

theorem carry_I3 (R : Nat) (hR : 0 < R) (s : C) (hits : Nat) (h : I3 R s) : I3 R (carry R s hits) := by
  unfold carry
  split
  · rename_i hlo
    obtain ⟨h1, _⟩ := h
    have h1 := h1 hlo
    constructor
    · intro hlt
      simp at hlt
      have hm : min R s.L = R := by omega
      have := ceilDiv_sub s.L R hR (by omega)
      have hp := ceilDiv_pos (s.L - R) R hR (by omega)
      simp only [hm]
      omega
    · intro hge
      simp at hge
      simp only []
      omega
  · exact h

/-- inserting a new key when gl > 0: one slot (or a tombstone), then carry. -/
def insertNew (R : Nat) (s : C) (onTomb : Bool) (hits : Nat) : C :=
  carry R { s with gl := if onTomb then s.gl else s.gl - 1 } hits

theorem insertNew_I3 (R : Nat) (hR : 0 < R) (s : C) (t : Bool) (hits : Nat) (h : I3 R s) (hpos : 0 < s.gl) :
    I3 R (insertNew R s t hits) := by
  unfold insertNew carry
  obtain ⟨h1, h2⟩ := h
  by_cases hlo : s.lo = true
  · have h1 := h1 hlo
    simp only [hlo, if_true]
    constructor
    · intro hlt
      simp at hlt
      have hm : min R s.L = R := by omega
      have := ceilDiv_sub s.L R hR (by omega)
      have hp := ceilDiv_pos (s.L - R) R hR (by omega)
      simp only [hm]
      cases t <;> simp <;> omega
    · intro hge
      simp at hge
      simp only []
      omega
  · have hlo' : s.lo = false := by cases h : s.lo <;> simp_all
    simp only [hlo', Bool.false_eq_true, if_false]
    exact ⟨by intro h; simp at h, fun _ => h2 hlo'⟩

/-- capacity - len = gl - L;  filling: n fresh inserts from a state with I3 never find gl = 0. -/
def fill (R : Nat) : Nat → C → (Nat → Bool × Nat) → Option C
  | 0, s, _ => some s
  | n+1, s, orc => if s.gl = 0 then none else fill R n (insertNew R s (orc n).1 (orc n).2) orc

theorem fill_ok (R : Nat) (hR : 0 < R) : ∀ (n : Nat) (s : C) (orc : Nat → Bool × Nat), I3 R s → n + s.L ≤ s.gl →
    (∀ i, (orc i).1 = false) → (∀ i, (orc i).2 = 0) →
    ∃ s', fill R n s orc = some s' ∧ I3 R s' := by
  intro n
  induction n with
  | zero => intro s orc h _ _ _; exact ⟨s, rfl, h⟩
  | succ n ih =>
    intro s orc h hb ho1 ho2
    unfold fill
    have hpos : s.gl ≠ 0 := by
      obtain ⟨h1, h2⟩ := h
      cases hlo : s.lo
      · omega
      · have := h1 hlo; omega
    simp only [hpos, if_false]
    apply ih _ _ (insertNew_I3 R hR s _ _ h (by omega))
    · simp only [insertNew, carry, ho1, ho2]
      split <;> simp <;> omega
    · exact ho1
    · exact ho2

#print axioms fill_ok
