use griddle::{HashMap, HashSet};
use griddle::hash_map::Entry;
use std::panic::{catch_unwind, AssertUnwindSafe};
fn t(name: &str, f: impl FnOnce()) {
    let r = catch_unwind(AssertUnwindSafe(f));
    println!("== {name}: {}", if r.is_ok() { "ok" } else { "PANIC" });
}
fn main() {
    std::panic::set_hook(Box::new(|i| { println!("   panic: {}", i); }));
    t("A", || {
        let mut m: HashMap<u64, u64> = HashMap::new();
        for i in 0..15 { m.insert(i, i); }
        m.retain(|_, _| false);
        m.shrink_to_fit();
        m.insert(100, 1);
        assert_eq!(m.len(), 1);
    });
    t("A2 keep 7", || {
        let mut m: HashMap<u64, u64> = HashMap::new();
        for i in 0..15 { m.insert(i, i); }
        let mut kept = 0;
        // remove everything except 7 elements
        m.retain(|_, _| { kept += 1; kept <= 7 });
        m.shrink_to_fit();
        println!("   len {} cap {}", m.len(), m.capacity());
        for i in 100..130 { m.insert(i, 1); }
        assert_eq!(m.len(), 37);
    });
    t("B zst", || {
        let mut s: HashSet<()> = HashSet::new();
        s.insert(());
        s.reserve(10);
        assert!(s.remove(&()));
        assert!(s.is_empty());
        s.insert(());
        s.reserve(100);
        s.retain(|_| false);
        assert!(s.is_empty());
        s.insert(());
        assert_eq!(s.len(), 1);
        let mut m: HashMap<(), ()> = HashMap::new();
        m.insert((), ());
        m.reserve(50);
        if let Entry::Occupied(o) = m.entry(()) { let _ = o.replace_entry_with(|_, _| Some(())); }
        assert_eq!(m.len(), 1);
        let r = catch_unwind(AssertUnwindSafe(|| {
            if let Entry::Occupied(o) = m.entry(()) { let _ = o.replace_entry_with(|_, _| panic!("boom")); }
        }));
        assert!(r.is_err());
        assert_eq!(m.len(), 0);
        m.insert((), ());
        assert_eq!(m.len(), 1);
        assert_eq!(m.iter().count(), 1);
    });
    t("C replace_entry_with on old", || {
        for keep in [false, true] {
            let mut m: HashMap<u64, u64> = HashMap::new();
            for i in 0..29 { m.insert(i, i); }
            for i in 0..29u64 {
                if let Entry::Occupied(o) = m.entry(i) {
                    let _ = o.replace_entry_with(|_, v| if keep { Some(v + 1000) } else { None });
                }
            }
            println!("   keep={keep} len {}", m.len());
            for i in 100..140 { m.insert(i, i); }
            println!("   len {}", m.len());
            for i in 0..29u64 { assert_eq!(m.get(&i).copied(), if keep { Some(i + 1000) } else { None }); }
            assert_eq!(m.iter().count(), m.len());
        }
    });
    d();
    t("C2 panicking closure", || {
        let mut m: HashMap<u64, String> = HashMap::new();
        for i in 0..29 { m.insert(i, format!("v{i}")); }
        let mut lost = 0;
        for i in 0..29u64 {
            let r = catch_unwind(AssertUnwindSafe(|| {
                if let Entry::Occupied(o) = m.entry(i) {
                    let _ = o.replace_entry_with(|_, _| -> Option<String> { panic!("boom") });
                }
            }));
            if r.is_err() { lost += 1; }
        }
        println!("   lost {lost} len {}", m.len());
        for i in 100..200 { m.insert(i, format!("w{i}")); }
        assert_eq!(m.iter().count(), m.len());
        assert_eq!(m.len(), 100);
    });
}
#[allow(dead_code)]
pub fn d() {
    t("D", || {
        for n in [14u64, 15] {
            let mut m: HashMap<u64, u64> = HashMap::new();
            for i in 0..n { m.insert(i, i); }
            for a in [usize::MAX, usize::MAX - 5, usize::MAX - 15, usize::MAX / 2, usize::MAX / 8, (isize::MAX as usize) / 16] {
                let r = m.try_reserve(a);
                println!("   n={n} try_reserve({a:#x}) -> {:?} cap {} len {}", r, m.capacity(), m.len());
                assert!(r.is_err());
                assert_eq!(m.len(), n as usize);
                for i in 0..n { assert_eq!(m.get(&i), Some(&i)); }
                let r = catch_unwind(AssertUnwindSafe(|| { let mut m2 = m.clone(); m2.reserve(a); }));
                assert!(r.is_err() || a < usize::MAX / 4);
            }
        }
    });
}
