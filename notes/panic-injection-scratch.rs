use griddle::hash_map::Entry;
use griddle::HashMap;
use std::cell::{Cell, RefCell};
use std::collections::{BTreeMap, BTreeSet};
use std::panic::{catch_unwind, AssertUnwindSafe};

thread_local! { static LIVE: RefCell<BTreeSet<u64>> = RefCell::new(BTreeSet::new()); static NEXT: Cell<u64> = Cell::new(1); static DOUBLE: Cell<u64> = Cell::new(0);
  static CTX: RefCell<String> = RefCell::new(String::new()); static FUSE: Cell<i64> = Cell::new(-1); static KINDS: Cell<u8> = Cell::new(0); }
fn tick(kind: u8) { if KINDS.with(|k| k.get()) & kind == 0 { return; } let f = FUSE.with(|f| f.get()); if f < 0 { return; } if f == 0 { FUSE.with(|f| f.set(-1)); panic!("injected"); } FUSE.with(|x| x.set(f - 1)); }
#[derive(Debug)]
struct D(u64, u64);
impl D { fn new(p: u64) -> D { let id = NEXT.with(|n| { n.set(n.get() + 1); n.get() }); LIVE.with(|l| l.borrow_mut().insert(id)); D(p, id) } fn live(&self) -> bool { LIVE.with(|l| l.borrow().contains(&self.1)) } }
impl Drop for D { fn drop(&mut self) { let ok = LIVE.with(|l| l.borrow_mut().remove(&self.1)); if !ok { DOUBLE.with(|d| d.set(d.get() + 1)); } } }
impl Clone for D { fn clone(&self) -> D { assert!(self.live()); tick(4); D::new(self.0) } }
impl PartialEq for D { fn eq(&self, o: &D) -> bool { assert!(self.live() && o.live()); tick(2); self.0 == o.0 } }
impl Eq for D {}
impl std::hash::Hash for D { fn hash<H: std::hash::Hasher>(&self, s: &mut H) { assert!(self.live()); tick(1); self.0.hash(s) } }
struct Rng(u64);
impl Rng { fn n(&mut self) -> u64 { self.0 ^= self.0 << 13; self.0 ^= self.0 >> 7; self.0 ^= self.0 << 17; self.0 } fn b(&mut self, m: u64) -> u64 { self.n() % m } }

fn build(g: &mut Rng) -> HashMap<D, D> {
    let mut m: HashMap<D, D> = HashMap::new();
    let n = [3, 4, 7, 8, 14, 15, 16, 20, 28, 29, 33, 40, 57, 60][g.b(14) as usize];
    for i in 0..n { m.insert(D::new(i), D::new(i + 100)); }
    for _ in 0..g.b(4) { m.remove(&D::new(g.b(n))); }
    if g.b(4) == 0 { m.reserve(g.b(100) as usize); }
    m
}
fn snapshot(m: &HashMap<D, D>) -> BTreeMap<u64, u64> { m.iter().map(|(k, v)| (k.0, v.0)).collect() }
fn consistent(m: &HashMap<D, D>, ctx: &str) {
    let it: Vec<(u64, u64)> = m.iter().map(|(k, v)| { assert!(k.live() && v.live(), "dead elem {ctx}"); (k.0, v.0) }).collect();
    assert_eq!(it.len(), m.len(), "len vs iter {ctx}");
    let s: BTreeSet<u64> = it.iter().map(|x| x.0).collect(); assert_eq!(s.len(), it.len(), "dup keys {ctx}");
    for (k, v) in &it { let got = m.get(&D::new(*k)).map(|v| v.0); assert_eq!(got, Some(*v), "get {ctx}"); }
}
fn main() {
    std::panic::set_hook(Box::new(|i| { let s = format!("{i}"); if !s.contains("injected") { eprintln!("{s}\n  ctx: {}", CTX.with(|c| c.borrow().clone())); } }));
    let mut points = 0u64; let mut panics = 0u64;
    for seed in 1..=400u64 {
        for op in 0..13u32 { for kinds in [1u8, 2, 4, 8, 15] {
            let mut idx = 0i64;
            loop {
                let mut g = Rng(seed * 31337 + 5);
                let mut m = build(&mut g);
                let mut src = build(&mut g);
                let before = snapshot(&m);
                let k = g.b(70); 
                CTX.with(|c| *c.borrow_mut() = format!("seed {seed} op {op} kinds {kinds} idx {idx} k {k} mlen {} srclen {}", m.len(), src.len()));
                KINDS.with(|x| x.set(kinds)); FUSE.with(|f| f.set(idx));
                let r = catch_unwind(AssertUnwindSafe(|| {
                    match op {
                        0 => { m.insert(D::new(k), D::new(1)); }
                        1 => { m.remove(&D::new(k)); }
                        2 => { m.retain(|k, v| { tick(8); v.0 += 1; k.0 % 3 != 0 }); }
                        3 => { let d = m.drain_filter(|k, _| { tick(8); k.0 % 2 == 0 }); drop(d); }
                        4 => { m.entry(D::new(k)).or_insert_with(|| { tick(8); D::new(2) }); }
                        5 => { let _ = m.entry(D::new(k)).and_modify(|v| { tick(8); v.0 += 1; }); }
                        6 => { if let Entry::Occupied(o) = m.entry(D::new(k)) { let _ = o.replace_entry_with(|_, v| { tick(8); if v.0 % 2 == 0 { Some(v) } else { None } }); } }
                        7 => { m.reserve(k as usize * 3); }
                        8 => { m.shrink_to_fit(); }
                        9 => { let c = m.clone(); drop(c); }
                        10 => { m.clone_from(&src); }
                        11 => { m.extend((0..10).map(|i| (D::new(i + k), D::new(3)))); }
                        _ => { let _ = m.raw_entry_mut().from_key(&D::new(k)).and_replace_entry_with(|_, v| { tick(8); if v.0 % 2 == 1 { Some(v) } else { None } }); }
                    }
                }));
                let fired = FUSE.with(|f| f.get()) == -1 && r.is_err();
                FUSE.with(|f| f.set(-1)); KINDS.with(|x| x.set(0));
                points += 1;
                let ctx = format!("seed {seed} op {op} kinds {kinds} idx {idx}");
                if r.is_err() { panics += 1; assert!(fired, "unexpected panic {ctx}"); }
                consistent(&m, &ctx);
                consistent(&src, &ctx);
                if r.is_err() && op != 10 {
                    let after = snapshot(&m);
                    // elements only lost, or legitimately changed
                    for (k2, v2) in &after { if let Some(b) = before.get(k2) { assert!(*v2 == *b || *v2 == *b + 1 || *v2 == 1 || *v2 == 3, "weird value {ctx}"); } }
                    let lost = before.keys().filter(|k| !after.contains_key(k)).count();
                    if op != 7 && op != 8 && op != 3 && op != 2 && op != 6 && op != 12 && op != 0 && op != 11 && op != 4 { assert_eq!(lost, 0, "lost {lost} {ctx}"); }
                }
                // continue using
                for i in 0..40 { m.insert(D::new(1000 + i), D::new(0)); }
                consistent(&m, &ctx);
                drop(m); drop(src);
                if op == 10 && r.is_err() { LIVE.with(|l| l.borrow_mut().clear()); }
                assert_eq!(LIVE.with(|l| l.borrow().len()), 0, "leak {ctx}");
                assert_eq!(DOUBLE.with(|d| d.get()), 0, "double drop {ctx}");
                if r.is_ok() { break; }
                idx += 1;
                if idx > 400 { break; }
            }
        } }
    }
    println!("crash points {points}, panics {panics}: ok");
}
