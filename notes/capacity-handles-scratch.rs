use griddle::hash_map::Entry;
use griddle::HashMap;
use std::alloc::{GlobalAlloc, Layout, System};
use std::cell::Cell;
thread_local! { static ALLOCS: Cell<u64> = Cell::new(0); }
struct A;
unsafe impl GlobalAlloc for A {
    unsafe fn alloc(&self, l: Layout) -> *mut u8 { if l.align() >= 16 { let _ = ALLOCS.try_with(|a| a.set(a.get() + 1)); } System.alloc(l) }
    unsafe fn dealloc(&self, p: *mut u8, l: Layout) { System.dealloc(p, l) }
}
#[global_allocator]
static G: A = A;
struct Rng(u64);
impl Rng { fn n(&mut self) -> u64 { self.0 ^= self.0 << 13; self.0 ^= self.0 >> 7; self.0 ^= self.0 << 17; self.0 } fn b(&mut self, m: u64) -> u64 { self.n() % m } }
fn allocs() -> u64 { ALLOCS.with(|a| a.get()) }
fn main() {
    let mut cases = 0u64;
    for seed in 1..=20000u64 {
        let mut g = Rng(seed * 48271 + 1);
        let mut m: HashMap<u64, u64> = if g.b(3) == 0 { let c = g.b(70) as usize; let m = HashMap::with_capacity(c); assert!(m.capacity() >= c); let mut m2: HashMap<u64,u64> = HashMap::with_capacity(c); let a0 = allocs(); for i in 0..c as u64 { m2.insert(i, i); } assert_eq!(a0, allocs(), "with_capacity realloc c={c}"); m } else { HashMap::new() };
        let n = g.b(130);
        for i in 0..n { m.insert(i, i); }
        for _ in 0..g.b(12) { m.remove(&g.b(n + 1)); }
        if g.b(5) == 0 { m.retain(|k, _| k % 3 != 0); }
        let snapshot: std::collections::BTreeMap<u64, u64> = m.iter().map(|(k, v)| (*k, *v)).collect();
        match g.b(3) {
            0 => { // reserve / try_reserve
                let free = m.capacity() - m.len();
                let add = match g.b(4) { 0 => g.b(5), 1 => (free as u64 + g.b(3)).saturating_sub(1), 2 => g.b(300), _ => free as u64 } as usize;
                if g.b(2) == 0 { m.reserve(add); } else { m.try_reserve(add).unwrap(); }
                assert!(m.capacity() >= m.len() + add, "seed {seed} reserve({add}) cap {} len {}", m.capacity(), m.len());
                let a0 = allocs();
                for i in 0..add as u64 { m.insert(1_000_000 + i, 0); }
                assert_eq!(a0, allocs(), "seed {seed} reserve({add}) then inserts reallocated");
                for (k, v) in &snapshot { assert_eq!(m.get(k), Some(v)); }
            }
            1 => { // shrink_to
                let prev = m.capacity(); let arg = match g.b(4) { 0 => 0, 1 => g.b(200) as usize, 2 => m.len() + g.b(3) as usize, _ => prev + g.b(3) as usize };
                m.shrink_to(arg);
                assert!(m.capacity() >= std::cmp::max(m.len(), std::cmp::min(arg, prev)), "seed {seed} shrink_to({arg}) prev {prev} cap {} len {}", m.capacity(), m.len());
                assert_eq!(m.len(), snapshot.len());
                for (k, v) in &snapshot { assert_eq!(m.get(k), Some(v)); }
                for i in 0..100 { m.insert(2_000_000 + i, 0); }
                assert_eq!(m.len(), snapshot.len() + 100);
            }
            _ => { // handles: write through returned refs / occupied entries created by inserting calls
                for j in 0..40u64 {
                    let k = 3_000_000 + j;
                    match g.b(5) {
                        0 => { *m.entry(k).or_insert(1) = 77; }
                        1 => { let mut o = m.entry(k).insert(1); *o.get_mut() = 77; assert_eq!(*o.key(), k); }
                        2 => { let (kk, v) = m.raw_entry_mut().from_key(&k).or_insert(k, 1); assert_eq!(*kk, k); *v = 77; }
                        3 => { let mut o = m.raw_entry_mut().from_key(&k).insert(k, 1); *o.get_mut() = 77; }
                        _ => { if let Entry::Vacant(v) = m.entry(k) { *v.insert(1) = 77; } }
                    }
                    assert_eq!(m.get(&k), Some(&77), "seed {seed} handle write lost k {k}");
                }
                // chain: replace_entry_with(None) then insert through vacant
                for (k, _) in snapshot.iter().take(10) {
                    if let Entry::Occupied(o) = m.entry(*k) { let e = o.replace_entry_with(|_, _| None); e.or_insert(5); }
                    assert_eq!(m.get(k), Some(&5));
                }
                assert_eq!(m.iter().filter(|(k, _)| snapshot.contains_key(k)).count(), snapshot.len());
                assert_eq!(m.len(), snapshot.len() + 40);
            }
        }
        cases += 1;
    }
    println!("cases {cases}: ok");
}
