#!/bin/sh
# run every seeded change against the check of its own property; print one verdict line each
cd /verif
for d in seeded/*/; do
  name=$(basename $d); id=$(echo $name | cut -c1-3)
  [ -f $d/patch.diff ] || continue
  git -C /repo apply /verif/$d/patch.diff || { echo "$name: patch does not apply"; continue; }
  GH_HANG_SECS=20 ./check $id > /tmp/seed-$name.out 2>&1; rc=$?
  v=$(grep -m1 "^VIOLATION" /tmp/seed-$name.out | cut -c1-150)
  echo "$name rc=$rc $v"
  git -C /repo checkout -- .
done
git -C /repo status --short | head -3
