#!/bin/sh
# run every seeded change against the check of its own property; print one verdict line each
cd /verif
for d in seeded/*/; do
  id=$(basename $d)
  git -C /repo apply /verif/$d/patch.diff || { echo "$id: patch does not apply"; continue; }
  ./check $id > /tmp/seed-$id.out 2>&1; rc=$?
  v=$(grep -m1 "^VIOLATION" /tmp/seed-$id.out)
  echo "$id rc=$rc $v"
  git -C /repo checkout -- .
done
git -C /repo status --short | head -3
