#!/bin/sh
# usage: tools/confirm_seed.sh <worktree> <id>   — confirm a seeded change independently, then store it under /verif/seeded/<id>/
WT=$1; ID=$2; OUT=/verif/seeded/$ID; mkdir -p $OUT
export CARGO_NET_OFFLINE=true CARGO_TARGET_DIR=$WT/target
cd $WT || exit 2
git diff -- src > /tmp/confirm-$ID.diff
cmp -s /tmp/confirm-$ID.diff seed/patch.diff || echo "NOTE: worktree diff differs from seed/patch.diff"
{
echo "## cargo build (default, rayon+serde) with the change"
cargo build --offline 2>&1 | tail -1
cargo build --offline --features rayon,serde 2>&1 | tail -1
echo "## cargo test --offline with the change"
cargo test --offline 2>&1 | grep -E "^test result|FAILED|panicked" | head -12
echo "## cargo test --offline --features rayon,serde with the change"
cargo test --offline --features rayon,serde 2>&1 | grep -E "^test result|FAILED|panicked" | head -12
echo "## demo WITH the change"
(cd seed/demo && timeout 300 cargo run --offline 2>&1 | tail -4; timeout 300 cargo run --offline --release 2>&1 | tail -3)
git apply -R seed/patch.diff
echo "## demo WITHOUT the change"
(cd seed/demo && timeout 300 cargo run --offline 2>&1 | tail -4; timeout 300 cargo run --offline --release 2>&1 | tail -3)
git apply seed/patch.diff
} > $OUT/confirm.log 2>&1
cp seed/patch.diff $OUT/patch.diff
cp seed/demo.rs $OUT/demo.rs 2>/dev/null
cp seed/notes.md $OUT/notes.md 2>/dev/null
mkdir -p $OUT/demo; cp seed/demo/Cargo.toml $OUT/demo/ 2>/dev/null; [ -d seed/demo/src ] && cp -r seed/demo/src $OUT/demo/
echo "confirmed $ID -> $OUT/confirm.log"
