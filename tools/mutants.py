#!/usr/bin/env python3
"""
mutants.py — a mechanical complement to the sub-agent seeds: small syntactic changes to griddle's
non-test source, each evaluated in a scratch copy of /repo (never in /repo itself):

  1. does it build (default and rayon,serde features)?            else: discarded
  2. does the unedited test suite still pass?                     else: killed by the tests (uninteresting)
  3. do the /verif checks detect it?  (run in a fixed order against the copy, stop at the first
     VIOLATION)                                                   else: SURVIVOR -> look at it by hand:
                                                                  equivalent change, or a gap in the checks

usage: tools/mutants.py --n 80 --seed 1 --workers 4 [--files raw,map,set,rayon,serde] --out /tmp/mut
       tools/mutants.py --list        (print the candidate sites and exit)
Results: <out>/results.jsonl (one line per mutant) and a summary on stdout.  Scratch copies and their
build output live under <out>/w<i> and are removed at the end.
"""
import json, os, random, re, shutil, subprocess, sys, time
from concurrent.futures import ThreadPoolExecutor

REPO = "/repo"
VERIF = os.path.dirname(os.path.dirname(os.path.abspath(__file__)))
ORDER = ["C01", "C04", "C05", "C10", "C03", "C06", "C08", "C09", "C12", "C11", "C02", "C07", "C13", "C14", "C16", "C15", "C17"]

FILES = {
    "raw": ("src/raw/mod.rs", 1, 814),
    "map": ("src/map.rs", 1, 3183),
    "set": ("src/set.rs", 1, 1699),
    "rayon": ("src/external_trait_impls/rayon/raw.rs", 1, 59),
    "rayonmap": ("src/external_trait_impls/rayon/map.rs", 1, 300),
    "serde": ("src/external_trait_impls/serde.rs", 1, 200),
}
SKIP_RANGES = {"src/map.rs": [(1195, 1220)], "src/set.rs": [(978, 1000)]}

# (name, regex, replacement)
OPS = [
    ("drop+1", re.compile(r" \+ 1\b"), ""),
    ("drop-1", re.compile(r" - 1\b"), ""),
    ("lt->le", re.compile(r"(?<=[\w\)\]]) < (?=[\w\(])"), " <= "),
    ("le->lt", re.compile(r"(?<=[\w\)\]]) <= (?=[\w\(])"), " < "),
    ("gt->ge", re.compile(r"(?<=[\w\)\]]) > (?=[\w\(])"), " >= "),
    ("ge->gt", re.compile(r"(?<=[\w\)\]]) >= (?=[\w\(])"), " > "),
    ("eq->ne", re.compile(r" == "), " != "),
    ("ne->eq", re.compile(r" != "), " == "),
    ("and->or", re.compile(r" && "), " || "),
    ("or->and", re.compile(r" \|\| "), " && "),
    ("some->none", re.compile(r"\.is_some\(\)"), ".is_none()"),
    ("none->some", re.compile(r"\.is_none\(\)"), ".is_some()"),
    ("true->false", re.compile(r"\btrue\b"), "false"),
    ("false->true", re.compile(r"\bfalse\b"), "true"),
    ("max->min", re.compile(r"\bmax\("), "min("),
    ("min->max", re.compile(r"\bmin\("), "max("),
    ("R->R-1", re.compile(r"\bR\b(?! *[:=])"), "(R - 1)"),
    ("R->R+1", re.compile(r"\bR\b(?! *[:=])"), "(R + 1)"),
    ("plus->minus", re.compile(r"(?<=[\w\)]) \+ (?=[\w\(])"), " - "),
    ("minus->plus", re.compile(r"(?<=[\w\)]) - (?=[\w\(])"), " + "),
    ("neg-if", re.compile(r"\bif (?!let\b)(.+) \{$"), r"if !(\1) {"),
    ("del-stmt", re.compile(r"^(\s*)(self|lo|table|this|me)\.[\w\.]+\(.*\);\s*$"), r"\1();"),
    ("del-unsafe-stmt", re.compile(r"^(\s*)unsafe \{ (self|lo)\.[\w\.]+\(.*\) \};?\s*$"), r"\1();"),
    ("zero->one", re.compile(r"(?<![\.\w])0(?![\.\w])"), "1"),
    ("one->zero", re.compile(r"(?<![\.\w])1(?![\.\w])"), "0"),
    ("two->three", re.compile(r"(?<![\.\w])2(?![\.\w])"), "3"),
    ("some->None", re.compile(r"\bSome\(([^()]+)\)(?=[;,]?\s*$)"), "None"),
    ("del-assign", re.compile(r"^(\s*)\*?[\w\.]+ [\+\-]?= .*;\s*$"), r"\1();"),
    ("del-call", re.compile(r"^(\s*)(mem::forget|drop|core::mem::forget)\(.*\);\s*$"), r"\1();"),
    ("and-true", re.compile(r" && [^&|{]+(?= \{$)"), ""),
    ("or-false", re.compile(r" \|\| [^&|{]+(?= \{$)"), ""),
]


def candidate_sites(which):
    sites = []
    for key in which:
        path, lo, hi = FILES[key]
        lines = open(os.path.join(REPO, path)).read().split("\n")
        in_attr_test = 0
        for n, line in enumerate(lines, 1):
            if n < lo or n > hi:
                continue
            if any(a <= n <= b for a, b in SKIP_RANGES.get(path, [])):
                continue
            st = line.strip()
            if not st or st.startswith("//") or st.startswith("#[") or st.startswith("use ") or "verif" in st:
                continue
            if "debug_assert" in st or st.startswith("assert"):
                continue
            code = line.split("//")[0]
            for name, rx, rep in OPS:
                for mi, m in enumerate(rx.finditer(code)):
                    new = code[:m.start()] + m.expand(rep) + code[m.end():]
                    if new != code:
                        sites.append(dict(file=path, line=n, op=name, idx=mi, old=line, new=new + line[len(code):]))
    return sites


def sh(cmd, cwd, timeout, env=None):
    e = dict(os.environ)
    e.update({"CARGO_NET_OFFLINE": "true"})
    if env:
        e.update(env)
    try:
        p = subprocess.run(cmd, cwd=cwd, env=e, stdout=subprocess.PIPE, stderr=subprocess.STDOUT, text=True, timeout=timeout)
        return p.returncode, p.stdout
    except subprocess.TimeoutExpired as ex:
        o = ex.stdout or ""
        if isinstance(o, bytes):
            o = o.decode(errors="replace")
        return 124, o + "\nTIMEOUT"


def evaluate(slot, out, site, checks):
    w = os.path.join(out, f"w{slot}")
    repo = os.path.join(w, "repo")
    if not os.path.exists(repo):
        os.makedirs(w, exist_ok=True)
        shutil.copytree(REPO, repo, ignore=shutil.ignore_patterns("target", ".git"))
    f = os.path.join(repo, site["file"])
    orig = open(os.path.join(REPO, site["file"])).read()
    lines = orig.split("\n")
    assert lines[site["line"] - 1] == site["old"]
    lines[site["line"] - 1] = site["new"]
    open(f, "w").write("\n".join(lines))
    res = dict(site)
    t0 = time.time()
    try:
        tgt = os.path.join(w, "target")
        rc, o = sh(["cargo", "build", "--offline", "--features", "rayon,serde"], repo, 900, {"CARGO_TARGET_DIR": tgt})
        if rc != 0:
            res["verdict"] = "no-build"
            return res
        rc, o = sh(["cargo", "test", "--workspace", "--no-fail-fast", "--offline"], repo, 1800, {"CARGO_TARGET_DIR": tgt})
        if rc != 0:
            res["verdict"] = "killed-by-tests"
            return res
        rc, o = sh(["cargo", "test", "--no-fail-fast", "--offline", "--features", "rayon,serde"], repo, 1800, {"CARGO_TARGET_DIR": tgt})
        if rc != 0:
            res["verdict"] = "killed-by-tests"
            return res
        scratch = os.path.join(w, "out")
        shutil.rmtree(os.path.join(scratch, "replays"), ignore_errors=True)
        env = {"VERIF_REPO": repo, "VERIF_SCRATCH": scratch, "VERIF_SKIP_PROOFS": "1", "GH_HANG_SECS": "30"}
        res["verdict"] = "SURVIVOR"
        res["checks_run"] = []
        for pid in checks:
            rc, o = sh([os.path.join(VERIF, "check"), pid], VERIF, 3600, env)
            res["checks_run"].append(pid)
            if "VIOLATION" in o:
                res["verdict"] = "detected"
                res["by"] = pid
                viol = [l for l in o.split("\n") if l.startswith("  ") or l.startswith("VIOLATION")]
                res["how"] = " | ".join(x.strip()[:160] for x in viol[:2])
                break
            if rc != 0:
                res["verdict"] = "check-broken"
                res["by"] = pid
                res["how"] = o[-400:]
                break
        return res
    finally:
        open(f, "w").write(orig)
        res["secs"] = round(time.time() - t0)


def main():
    a = sys.argv[1:]
    def arg(name, d):
        return a[a.index(name) + 1] if name in a else d
    which = arg("--files", "raw,map,set,rayon,serde").split(",")
    sites = candidate_sites(which)
    if "--list" in a:
        for s in sites:
            print(f"{s['file']}:{s['line']} {s['op']}: {s['new'].strip()[:110]}")
        print(len(sites), "sites")
        return
    n = int(arg("--n", "40"))
    seed = int(arg("--seed", "1"))
    workers = int(arg("--workers", "4"))
    out = arg("--out", "/tmp/mut")
    checks = arg("--checks", ",".join(ORDER)).split(",")
    skip = arg("--skip", "")
    if skip:
        import glob as _g
        done = set()
        for f in _g.glob(skip):
            for l in open(f):
                try:
                    r = json.loads(l)
                    done.add((r["file"], r["line"], r["op"], r.get("idx", 0)))
                except Exception:
                    pass
        sites = [x for x in sites if (x["file"], x["line"], x["op"], x["idx"]) not in done]
    only_ops = arg("--ops", "")
    if only_ops:
        sites = [x for x in sites if x["op"] in only_ops.split(",")]
    os.makedirs(out, exist_ok=True)
    rng = random.Random(seed)
    rng.shuffle(sites)
    # spread over files / operators: at most 3 per (file, op) pair first
    seen, pick = {}, []
    for s in sites:
        k = (s["file"], s["op"])
        if seen.get(k, 0) < max(3, n // 20) or "--all" in a:
            seen[k] = seen.get(k, 0) + 1
            pick.append(s)
        if len(pick) >= n:
            break
    resf = open(os.path.join(out, "results.jsonl"), "a")
    import queue
    slots = queue.Queue()
    for i in range(workers):
        slots.put(i)

    def job(site):
        slot = slots.get()
        try:
            r = evaluate(slot, out, site, checks)
        except Exception as ex:  # noqa
            r = dict(site, verdict="tool-error", how=str(ex))
        finally:
            slots.put(slot)
        resf.write(json.dumps(r) + "\n")
        resf.flush()
        print(f"[{r['verdict']:>15}] {r['file']}:{r['line']} {r['op']} {r.get('by', '')} :: {r['new'].strip()[:90]}", flush=True)
        return r

    with ThreadPoolExecutor(max_workers=workers) as ex:
        rs = list(ex.map(job, pick))
    tally = {}
    for r in rs:
        tally[r["verdict"]] = tally.get(r["verdict"], 0) + 1
    print("SUMMARY", json.dumps(tally))
    for i in range(workers):
        shutil.rmtree(os.path.join(out, f"w{i}"), ignore_errors=True)


if __name__ == "__main__":
    main()
