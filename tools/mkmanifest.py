#!/usr/bin/env python3
"""Regenerates /verif/MANIFEST.json from the table below and lean/obligations.json."""
import json, os
ROOT = os.path.dirname(os.path.dirname(os.path.abspath(__file__)))
obl = json.load(open(os.path.join(ROOT, "lean", "obligations.json")))
props = [json.loads(l) for l in open(os.path.join(ROOT, "properties.jsonl"))]

NOTE = ("Trusted: Lean 4.33 kernel (axioms propext, Classical.choice, Quot.sound only; audited on every run). "
        "hashbrown 0.14.5 is modelled (contents/buckets/growth_left, exact sizing arithmetic, unsafe preconditions as faults, "
        "tombstone choices and iteration order as universally quantified oracles), not verified. The hand-written model's tie to "
        "/repo is checked on every run by replaying harness transcripts of the real crate on the model's executable definitions "
        "(gmodel); that check is testing, structured and phase-targeted. ")
TEXT = {
 "C01": ("proof", "Theorems: every modelled map operation refines the abstract key→entry map on all invariant states (Props/C01.lean); lock-step of return values, len, contents against the real crate in every resize phase; direct BTreeMap reference.", "7-C01"),
 "C02": ("proof", "Theorems: per-call bounds moved ≤ R, hashes ≤ R+2, allocs ≤ 1 for key-adding calls and 1/0/0 for lookups/removals, with no hypothesis on size (Props/C02.lean); lock-step predicts the per-call hash/allocation counts exactly; direct counters.", "7-C02"),
 "C03": ("proof", "Theorems: a key-adding call leaves L - min(R,L) parked elements, the old table is released with its last element, a pending resize of L elements ends within ceil(L/R) key-adding calls (Props/C03.lean); lock-step of old-table counts and frees.", "7-C03"),
 "C04": ("proof", "Theorems: capacity ≥ len; fill-to-capacity (no panic, no allocation, capacity monotone, no resize pending afterwards) for every invariant state and oracle; try_grow sizing establishes the headroom invariant (Props/C04.lean); lock-step of capacity/buckets/growth_left; boundary-argument generator.", "7-C04"),
 "C05": ("proof", "PARTIAL (protocol level). Theorems: no invariant state, operation and oracle value makes the model violate a precondition of hashbrown's unsafe API (Fault.ub), and the cached cursor count equals the old table's element count after every operation (Props/C05.lean). A wild read itself cannot be exhibited by a functional model: covered by lock-step of the hook's cursor/old counts, canary+ledger element types, debug and release builds.", "7-C05"),
 "C06": ("proof", "Theorems: ledger conservation per operation — objects owned after ⊎ returned ⊎ dropped = owned before ⊎ given (Props/C06.lean); lock-step of the per-call dropped / returned object ids against the harness's drop ledger; end-of-history leak and double-drop check.", "7-C06"),
 "C07": ("proof", "PARTIAL. Theorems: interrupted carry / retain / drain_filter / replace_entry_with leave a state satisfying the invariant with only the documented element lost (Props/C07.lean). hashbrown's unwind guards are modelled from reading them; fault enumeration (every callback index of every op kind) on the real crate checks self-consistency directly.", "7-C07"),
 "C08": ("proof", "Theorems: the sequence yielded by iter/drain/into_iter is a permutation of the stored entries, old-table part in cursor order, exact remaining length at each step; drain leaves an empty, invariant-satisfying map whether consumed, dropped or forgotten (Props/C08.lean); lock-step of yielded sequences and size hints.", "7-C08"),
 "C09": ("proof", "Theorems: retain keeps exactly the entries satisfying the predicate (with mutations), drain_filter yields exactly the matching ones; early drop removes the rest, forget removes only the yielded; invariant kept incl. emptied old table (Props/C09.lean); lock-step with predicate families none/all/old-only/main-only/random.", "7-C09"),
 "C10": ("proof", "Theorems: reserve / try_reserve Ok ⇒ capacity ≥ len + n; overflow ⇒ Err with state unchanged / capacity-overflow panic, never Ok with less, in both profiles; shrink_to keeps contents, never enlarges, capacity ≥ max(len, min(m, cap)) (Props/C10.lean); boundary arguments near usize::MAX in dev and release.", "7-C10"),
 "C11": ("proof", "PARTIAL for independence (structural in a functional model). Theorems: clone / clone_from yield the same key→value contents, invariant, no pending resize, destination's previous contents dropped (Props/C11.lean); lock-step with divergent histories on source and clone, fresh object ids proving deep copy, hasher adoption checked by lookups.", "7-C11"),
 "C12": ("proof", "Theorems: an entry lookup is occupied iff the key is present; every handle step acts on that key's element in whichever table holds it; inserting steps leave the element findable (Props/C12.lean); lock-step of entry / raw-entry chains up to depth 3 by location class.", "7-C12"),
 "C13": ("proof", "Theorems: set operations are the map operations with unit values; union/intersection/difference/symmetric_difference of the models are duplicate-free and have the mathematical membership (Props/C13.lean); direct BTreeSet algebra on pairs of real sets in every phase.", "7-C13"),
 "C14": ("proof", "Theorems: == is decided by contents alone (eq_iff_same_contents), hence reflexive/symmetric/transitive; len/get/iter multiset are functions of contents (Props/C14.lean); metamorphic pairs of histories with equal or minimally different contents.", "7-C14"),
 "C15": ("proof", "PARTIAL (logic only). Theorems: every split tree over a bucket range partitions its full buckets; the parallel iterator visits a permutation of the entries for every pair of split trees (Props/C15.lean). Data races are outside a functional model: real rayon pools of 1..16 threads with per-element visit counters.", "7-C15"),
 "C16": ("proof", "Theorems: serialization emits len followed by the iteration sequence, deserialization of it yields the same contents, deserialize_in_place replaces previous contents (Props/C16.lean); serde_test token streams of the real impls.", "7-C16"),
 "C17": ("proof", "Theorems: on invariant states every debug-only assertion holds and no size computation wraps, so the model's run is identical for both profiles (Props/C17.lean); the same histories through the dev and release harness, transcripts compared with each other and with the model.", "7-C17"),
}
claimed = [p["id"] for p in props if obl.get(p["id"])]
checks = []
for p in props:
    pid = p["id"]
    if pid not in claimed:
        continue
    cat, text, ref = TEXT[pid]
    checks.append(dict(
        property_id=pid,
        quick_cmd=f"./check {pid} --tier quick",
        thorough_cmd=f"./check {pid} --tier thorough",
        evidence_file=f"/verif/evidence/{pid}.json",
        replay_cmd_template=f"./check {pid} --replay {{path}}",
        engine="lean-model+correspondence",
        level_claimed=dict(category=cat, text=text, design_ref=f"DESIGN.md section {ref}"),
        level_note=NOTE + f"Obligations: {', '.join(obl[pid])}.",
        technique="Lean 4 theorems over an executable model + lock-step correspondence with the real crate",
    ))
na = [dict(property_id=p["id"], reason="machine-checked theorems for this property are not committed yet (work in progress); it is not claimed until they are")
      for p in props if p["id"] not in claimed]
man = dict(
    version=1,
    setup_cmd="./setup.sh",
    hooks=dict(guard="cargo feature verif-hooks (off by default)", enable="harness depends on griddle with features = [\"rayon\", \"serde\", \"verif-hooks\"]",
               baseline_off_cmd="cd /repo && cargo test --workspace --no-fail-fast --offline",
               source_commits=["9f612e3"], add_only=True),
    engines=[dict(name="lean-model+correspondence", path="/verif/lean, /verif/harness, /verif/check", serves_properties=claimed,
                  kind_free_text="Lean 4 model of griddle's RawTable/HashMap with machine-checked theorems; Rust harness driving the real crate; gmodel driver replaying transcripts on the model")],
    checks=checks,
    not_applicable=na,
    notes="Genuine defects found and repaired in /repo (five 'fix:' commits) are listed in known_findings.json; see DESIGN.md section 10.",
)
json.dump(man, open(os.path.join(ROOT, "MANIFEST.json"), "w"), indent=1)
print("claimed:", claimed)
