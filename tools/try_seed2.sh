#!/bin/sh
# usage: tools/try_seed2.sh <patch.diff> <property id>...  — like try_seed.sh but prints only the verdict lines
P=$1; shift
cd /repo && git apply "$P" || { echo "patch does not apply"; exit 2; }
cd /verif
for id in "$@"; do
  ./check $id > /tmp/try-$id.out 2>&1; rc=$?
  echo "=== $id rc=$rc"; grep -E "VIOLATION|KNOWN|^OK|^  " /tmp/try-$id.out | head -6
done
git -C /repo checkout -- . ; git -C /repo status --short | head -3
