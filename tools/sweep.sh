#!/bin/sh
# false-alarm sweep: every check, quick tier, over a range of seeds, on the unchanged tree.
# usage: tools/sweep.sh <first seed> <last seed>   (run from the /verif root or a snapshot of it)
cd "$(dirname "$0")/.." || exit 2
(cd lean && lake build > /dev/null 2>&1)
fail=0
for s in $(seq $1 $2); do
  for p in C01 C02 C03 C04 C05 C06 C07 C08 C09 C10 C11 C12 C13 C14 C15 C16 C17; do
    VERIF_SEED=$s ./check $p > sweep-$p-$s.out 2>&1; rc=$?
    if [ $rc -ne 0 ]; then fail=$((fail+1)); echo "ALARM seed=$s prop=$p rc=$rc"; grep -E "VIOLATION|^  |MISMATCH" sweep-$p-$s.out | head -5; else rm -f sweep-$p-$s.out; fi
  done
  echo "seed $s done, alarms so far: $fail"
done
echo "SWEEP DONE alarms=$fail"
