#!/bin/sh
# usage: tools/eval_wt.sh <property id> <worktree with a seeded change applied> <seed dir name>
# confirms the change independently (tools/confirm_seed.sh) and runs the property's quick check
# against the worktree itself (VERIF_REPO), never touching /repo.
ID=$1; WT=$2; NAME=$3
cd /verif
sh tools/confirm_seed.sh $WT $NAME > /dev/null 2>&1
ok=$(grep -c "test result: ok" seeded/$NAME/confirm.log)
bad=$(grep -c "test result: FAILED" seeded/$NAME/confirm.log)
VERIF_REPO=$WT VERIF_SCRATCH=/tmp/ev3/$NAME VERIF_SKIP_PROOFS=1 GH_HANG_SECS=20 ./check $ID > /tmp/ev3-$NAME.out 2>&1; rc=$?
echo "=== $NAME tests_ok=$ok tests_failed=$bad check_rc=$rc $(grep -c VIOLATION /tmp/ev3-$NAME.out) violation lines"
grep -E "^  (direct|the process|model|proof)" /tmp/ev3-$NAME.out | cut -c1-230 | head -2
grep -m1 VIOLATION /tmp/ev3-$NAME.out | cut -c1-170
