#!/bin/bash
# Seed regression without touching /repo: every seeded change is applied to its own scratch worktree of /repo and
# judged by the quick check of its property (VERIF_REPO / VERIF_SCRATCH).  usage: tools/seeds_scratch.sh [jobs] [pattern]
cd /verif
JOBS=${1:-3}; PAT=${2:-.}
mkdir -p /tmp/sr
one() {
  name=$1; id=$(echo $name | cut -c1-3)
  wt=/tmp/sr/wt-$name
  git -C /repo worktree add --detach $wt HEAD >/dev/null 2>&1 || { echo "$name: no worktree"; return; }
  if git -C $wt apply /verif/seeded/$name/patch.diff 2>/dev/null; then
    VERIF_REPO=$wt VERIF_SCRATCH=/tmp/sr/out-$name VERIF_SKIP_PROOFS=1 GH_HANG_SECS=20 timeout 1200 ./check $id > /tmp/sr/$name.out 2>&1; rc=$?
    v=$(grep -m1 "^VIOLATION" /tmp/sr/$name.out | cut -c1-120)
    echo "$name rc=$rc $v"
  else
    echo "$name: patch does not apply"
  fi
  git -C /repo worktree remove --force $wt >/dev/null 2>&1
  rm -rf /tmp/sr/out-$name
}
for d in seeded/*/; do
  name=$(basename $d)
  echo $name | grep -q "$PAT" || continue
  [ -f $d/patch.diff ] || continue
  one $name &
  while [ $(jobs -r | wc -l) -ge $JOBS ]; do sleep 2; done
done
wait
git -C /repo worktree prune
echo "SEEDS DONE"
