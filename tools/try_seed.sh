#!/bin/sh
# usage: tools/try_seed.sh <patch.diff> <property id>...   — apply a seeded change to /repo, run the checks, undo it
P=$1; shift
cd /repo && git apply "$P" || { echo "patch does not apply"; exit 2; }
cd /verif
for id in "$@"; do
  echo "=== $id"; ./check $id 2>&1 | grep -E "VIOLATION|KNOWN|^OK|^  |MISMATCH" | head -8
done
git -C /repo checkout -- . ; git -C /repo status --short | head -3
