#!/bin/sh
# usage: tools/seeds_b.sh [suffix] — apply each seeded/<id><suffix>/patch.diff to /repo, run that property's quick check, undo
SUF=${1:-b}
cd /verif
for d in seeded/C??$SUF; do
  id=$(basename $d | cut -c1-3)
  [ -f $d/patch.diff ] || continue
  git -C /repo apply $PWD/$d/patch.diff || { echo "$d: patch does not apply"; continue; }
  GH_HANG_SECS=20 ./check $id > /tmp/seedb-$(basename $d).out 2>&1; rc=$?
  git -C /repo checkout -- .
  echo "=== $(basename $d) rc=$rc $(grep -c VIOLATION /tmp/seedb-$(basename $d).out) violation lines"
  grep -E "^  (direct|the process|model|proof)" /tmp/seedb-$(basename $d).out | cut -c1-220 | head -2
  grep -m1 VIOLATION /tmp/seedb-$(basename $d).out | cut -c1-160
done
git -C /repo status --short | head -3
