#!/bin/sh
# every check, thorough tier, on the unchanged tree (run from the /verif root or a snapshot of it)
cd "$(dirname "$0")/.." || exit 2
(cd lean && lake build > /dev/null 2>&1)
for p in C01 C02 C03 C04 C05 C06 C07 C08 C09 C10 C11 C12 C13 C14 C15 C16 C17; do
  s=$(date +%s)
  VERIF_TIER=thorough ./check $p > thorough-$p.out 2>&1; rc=$?
  e=$(date +%s)
  echo "$p rc=$rc secs=$((e-s)) $(grep -E '^OK|VIOLATION' thorough-$p.out | head -2 | tr '\n' ' ')"
done
echo "THOROUGH DONE"
