#!/bin/sh
# tools/coverage.sh [out-dir]  — which lines of /repo/src does the correspondence harness execute?
# Builds the harness with source-based coverage (nightly: llvm-tools), runs every slice and every
# extra driver at quick scale, and prints per-file line coverage of griddle's non-test source plus
# the uncovered line ranges.  A tool for finding generator gaps; not part of any registered check.
OUT=${1:-/tmp/gcov}; rm -rf $OUT; mkdir -p $OUT/prof $OUT/work
REPO=${VERIF_REPO:-/repo}
BIN=$(dirname $(rustc +nightly --print target-libdir))/bin
export CARGO_NET_OFFLINE=true CARGO_TARGET_DIR=$OUT/target RUSTFLAGS="-C instrument-coverage"
cd /verif/harness && cp $REPO/Cargo.lock Cargo.lock && cargo +nightly build --offline 2>&1 | tail -1
EXE=$OUT/target/debug/gharness
export LLVM_PROFILE_FILE="$OUT/prof/g-%p-%m.profraw"
for sl in core cap entry iter clone fault; do
  $EXE run --slice $sl --seed ${VERIF_SEED:-1} --hists 120 --ops 300 --maxlen 500 --threads 16 --out $OUT/work/$sl.t --report $OUT/work/$sl.json --tag cov >/dev/null 2>&1
done
$EXE run --slice big --seed 1 --hists 8 --ops 3000 --maxlen 2048 --threads 16 --out /dev/null --report $OUT/work/big.json --tag cov >/dev/null 2>&1
for ex in zst set par serde fault; do
  $EXE extra $ex --seed 1 --scale 1 --report $OUT/work/x-$ex.json --replays $OUT/work --prop C01 >/dev/null 2>&1
done
for f in /verif/corpus/*.ops; do $EXE replay --file $f >/dev/null 2>&1; done
$BIN/llvm-profdata merge -sparse $OUT/prof/*.profraw -o $OUT/g.profdata
$BIN/llvm-cov report $EXE -instr-profile=$OUT/g.profdata $REPO/src 2>/dev/null | grep -v "^-" | awk '{print $1, "lines:", $8, "missed:", $9, $10}' | column -t
$BIN/llvm-cov show $EXE -instr-profile=$OUT/g.profdata $REPO/src --show-line-counts-or-regions=false 2>/dev/null > $OUT/show.txt
python3 - $OUT/show.txt $REPO <<'EOF'
import re,sys
txt=open(sys.argv[1]).read(); repo=sys.argv[2]
cur=None; unc={}
for l in txt.split("\n"):
    m=re.match(r"^(/.*\.rs):$", l)
    if m: cur=m.group(1); continue
    m=re.match(r"^\s*(\d+)\|\s*([0-9.kMG]*)\|(.*)$", l)
    if m and cur:
        n=int(m.group(1)); c=m.group(2)
        if c=="0": unc.setdefault(cur,[]).append((n,m.group(3)))
for f,ls in unc.items():
    src=open(f).read().split("\n")
    # cut at the test module
    cut=len(src)
    for i,s in enumerate(src):
        if re.match(r"^#\[cfg\(test\)\]", s): cut=i+1; break
    ls=[(n,t) for n,t in ls if n<cut]
    print(f"== {f.replace(repo+'/','')}: {len(ls)} uncovered non-test lines")
    for n,t in ls: print(f"   {n}: {t.strip()[:110]}")
EOF
rm -rf $OUT/target $OUT/prof
